#!/venv/bin/python
"""Rewrite the name-independent signatures in tables.LOOPFRESH_TABLE from the current /repo tree.

Run after a deliberate change of urwid (a fix: commit) touched statements that mention one of the tabled locals;
the (function, variable names, reason) part of the table is kept, only the signatures are recomputed."""
import os
import pprint
import sys

HERE = os.path.dirname(os.path.dirname(os.path.abspath(__file__)))
sys.path.insert(0, HERE)
from verif.model import Project  # noqa: E402
from verif.rules import loopfresh  # noqa: E402
from verif.rules.defuse import DefUse  # noqa: E402
from verif.tables import LOOPFRESH_TABLE  # noqa: E402

p = Project("/repo")
out = {}
for q, (tags, vars_, why) in LOOPFRESH_TABLE.items():
    fi = p.func("urwid." + q)
    du = DefUse(fi)
    ent = []
    for v in vars_:
        name = v if isinstance(v, str) else v[0]
        if name not in du.defs:
            raise SystemExit(f"{q}: local {name} not found - edit the table by hand")
        sig = loopfresh.signature(fi, du, name)
        same = [x for x in du.defs if loopfresh.signature(fi, du, x) == sig]
        if len(same) != 1:
            print("ambiguous signature:", q, name, same)
        ent.append((name, sig))
    out[q] = (tags, tuple(ent), why)
src = "LOOPFRESH_TABLE = " + pprint.pformat(out, width=160, sort_dicts=False) + "\n"
path = os.path.join(HERE, "verif", "tables.py")
t = open(path).read()
i = t.index("LOOPFRESH_TABLE = {")
j = t.index("\n\n", i) if "\n\n# " in t[i:] else len(t)
# the table is followed either by the end of the file or by a blank line and a comment
k = t.find("\n\n#", i)
open(path, "w").write(t[:i] + src + (t[k + 1 :] if k != -1 else ""))
print("LOOPFRESH_TABLE signatures rewritten")
