#!/venv/bin/python
"""Robustness of the checks against behaviour-preserving edits of the whole tree.

Builds two scratch copies of /repo's urwid package under $TMPDIR, runs every claimed check on each with
--root (no evidence written) and removes the copies again:

  reformat   every module re-printed with ast.unparse (layout, comments, quoting, parentheses change)
  rename     every *pure local* of every function renamed x -> x_rn (parameters, globals/nonlocals, names
             that nested functions / lambdas / classes refer to, and names bound by import are left alone)

A check that reports a VIOLATION or stops with ANALYSIS-ERROR on either copy is anchored on text or on local
names instead of on the program: that is a false alarm in waiting.  Exit 0 when all checks are silent on both."""

import ast
import os
import shutil
import subprocess
import sys
import tempfile

HERE = os.path.dirname(os.path.dirname(os.path.abspath(__file__)))
sys.path.insert(0, HERE)
from verif import registry  # noqa: E402

PY = "/venv/bin/python"
FUNC = (ast.FunctionDef, ast.AsyncFunctionDef)


def own_nodes(fn):
    """nodes of fn's own scope (not descending into nested defs / lambdas / classes)"""
    out, work = [], list(ast.iter_child_nodes(fn))
    while work:
        n = work.pop()
        out.append(n)
        if isinstance(n, (*FUNC, ast.Lambda, ast.ClassDef)):
            continue
        work.extend(ast.iter_child_nodes(n))
    return out


def rename_locals(tree):
    for fn in [n for n in ast.walk(tree) if isinstance(n, FUNC)]:
        nodes = own_nodes(fn)
        params = {a.arg for a in (*fn.args.posonlyargs, *fn.args.args, *fn.args.kwonlyargs)}
        if fn.args.vararg:
            params.add(fn.args.vararg.arg)
        if fn.args.kwarg:
            params.add(fn.args.kwarg.arg)
        keep = set(params)
        for n in nodes:
            if isinstance(n, (ast.Global, ast.Nonlocal)):
                keep |= set(n.names)
            elif isinstance(n, (ast.Import, ast.ImportFrom)):
                keep |= {(a.asname or a.name).split(".")[0] for a in n.names}
            elif isinstance(n, (*FUNC, ast.ClassDef)):
                keep.add(n.name)
                keep |= {x.id for x in ast.walk(n) if isinstance(x, ast.Name)}
            elif isinstance(n, ast.Lambda):
                keep |= {x.id for x in ast.walk(n) if isinstance(x, ast.Name)}
            elif isinstance(n, ast.ExceptHandler) and n.name:
                keep.add(n.name)
            elif isinstance(n, ast.MatchAs) and n.name:
                keep.add(n.name)
        assigned = {n.id for n in nodes if isinstance(n, ast.Name) and isinstance(n.ctx, (ast.Store, ast.Del))}
        todo = {x for x in assigned - keep if not x.startswith("__")}
        for n in nodes:
            if isinstance(n, ast.Name) and n.id in todo:
                n.id = n.id + "_rn"
    return tree


def build(kind, dst):
    src_root = "/repo/urwid"
    for d, _dirs, files in os.walk(src_root):
        rel = os.path.relpath(d, "/repo")
        os.makedirs(os.path.join(dst, rel), exist_ok=True)
        for f in files:
            sp = os.path.join(d, f)
            dp = os.path.join(dst, rel, f)
            if not f.endswith(".py"):
                shutil.copy(sp, dp)
                continue
            tree = ast.parse(open(sp, encoding="utf-8").read())
            if kind == "rename":
                tree = rename_locals(tree)
            open(dp, "w", encoding="utf-8").write(ast.unparse(tree) + "\n")
    # both variants must still compile
    r = subprocess.run([PY, "-m", "compileall", "-q", os.path.join(dst, "urwid")], capture_output=True, text=True)
    if r.returncode:
        raise SystemExit(f"{kind}: the variant does not compile:\n{r.stdout[-500:]}")


def main():
    bad = 0
    for kind in ("reformat", "rename"):
        dst = tempfile.mkdtemp(prefix=f"robust_{kind}_")
        try:
            build(kind, dst)
            procs = {pid: subprocess.Popen([PY, "-m", "verif.check", pid, "--root", dst, "--no-evidence"], cwd=HERE, stdout=subprocess.PIPE, stderr=subprocess.STDOUT, text=True) for pid in sorted(registry.CLAIMED)}
            for pid, pr in procs.items():
                out, _ = pr.communicate()
                lines = [l for l in out.splitlines() if l.startswith(("VIOLATION", "ANALYSIS-ERROR")) or "<<" in l]
                status = "silent" if pr.returncode == 0 else f"exit {pr.returncode}"
                print(f"{kind:9s} {pid}: {status}")
                if pr.returncode != 0:
                    bad += 1
                    for l in lines[:6]:
                        print("      " + l[:260])
        finally:
            shutil.rmtree(dst, ignore_errors=True)
    print("robustness:", "all checks silent on both variants" if not bad else f"{bad} check run(s) not silent")
    return 1 if bad else 0


if __name__ == "__main__":
    sys.exit(main())
