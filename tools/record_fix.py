#!/venv/bin/python
"""record_fix.py <property> <commit> <key> <what failed>   - append a `fixed` entry to known_findings.json"""
import json
import sys

prop, commit, key, what = sys.argv[1:5]
path = "/verif/known_findings.json"
d = json.load(open(path))
d["findings"].append({"property": prop, "status": "fixed", "commit": commit, "key": key, "line": f"fixed: property={prop} {commit} {what}"})
with open(path, "w") as f:
    json.dump(d, f, indent=1)
    f.write("\n")
