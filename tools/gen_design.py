#!/venv/bin/python
"""Regenerate the generated regions of DESIGN.md (per-property clause lists, findings table,
seeded-change table) from the checker modules, known_findings.json and seeded/*/meta.json."""
import importlib, json, os, re, sys, glob

HERE = os.path.dirname(os.path.dirname(os.path.abspath(__file__)))
sys.path.insert(0, HERE)
from verif import registry  # noqa: E402

titles = {}
for l in open(os.path.join(HERE, "properties.jsonl")):
    d = json.loads(l)
    titles[d["id"]] = d["title"]


def props():
    out = []
    for pid in sorted(titles):
        if pid not in registry.CLAIMED:
            out.append(f"### {pid} - {titles[pid]} - **not applicable**\n\n{registry.NOT_APPLICABLE.get(pid, '')}\n")
            continue
        m = importlib.import_module(f"verif.props.{pid.lower()}")
        muts = getattr(m, "MUTANTS", [])
        nm = len([x for x in muts if not x.twin])
        nt = len([x for x in muts if x.twin])
        out.append(
            f"### {pid} - {titles[pid]}\n\n**Decided.** {m.EXPLANATION}\n\n**Not decided.** {m.NOT_DECIDED}\n\n"
            f"*Technique:* {registry.CLAIMED[pid]['technique']}.  *Self-test:* {nm} mutants, {nt} benign twins (`verif/props/{pid.lower()}.py`).\n"
        )
    return "\n".join(out)


def findings():
    d = json.load(open(os.path.join(HERE, "known_findings.json")))
    rows = ["| property | status | commit | rule and construct | what failed |", "|---|---|---|---|---|"]
    for f in d["findings"]:
        line = f.get("line", "")
        what = line.split(" ", 3)[-1] if f["status"] == "fixed" else line
        rule = f["key"].split("|")
        rows.append(f"| {f['property']} | {f['status']} | {f.get('commit', '-')} | {rule[0]} `{rule[1] if len(rule) > 1 else ''}` | {what.replace('|', '/')[:260]} |")
    return "\n".join(rows)


def seeds():
    rows = ["| seed | targets | what the change does (author's summary, shortened) | detected by | first seen by the checks as |", "|---|---|---|---|---|"]
    notes = json.load(open(os.path.join(HERE, "seeded", "NOTES.json"))) if os.path.exists(os.path.join(HERE, "seeded", "NOTES.json")) else {}
    for d in sorted(glob.glob(os.path.join(HERE, "seeded", "*", "meta.json"))):
        name = os.path.basename(os.path.dirname(d))
        m = json.load(open(d))
        det = m.get("detected_by") or {}
        rules = sorted({k.split("|")[0] for ks in det.values() for k in ks})
        rows.append(f"| {name} | {m.get('property')} | {(m.get('summary') or '').replace('|', '/').replace(chr(10), ' ')[:170]} | {', '.join(sorted(det)) or '**not detected**'} ({', '.join(rules)}) | {notes.get(name, '')} |")
    return "\n".join(rows)


def main():
    p = os.path.join(HERE, "DESIGN.md")
    s = open(p).read()
    for tag, fn in (("properties", props), ("findings", findings), ("seeds", seeds)):
        pat = re.compile(rf"(<!-- BEGIN GENERATED:{tag} -->\n).*?(<!-- END GENERATED:{tag} -->)", re.S)
        if not pat.search(s):
            print("marker missing:", tag)
            continue
        s = pat.sub(lambda m: m.group(1) + fn() + "\n" + m.group(2), s)
    open(p, "w").write(s)
    print("DESIGN.md regenerated")


if __name__ == "__main__":
    main()
