#!/venv/bin/python
"""Validate seeded defects and run the checks against them.

usage: seedtest.py [--keep] <seed dir> ...      (a seed dir holds patch.diff, demo.py, meta.json)

For each seed: make a scratch git worktree of /repo's HEAD under $TMPDIR, confirm the demo passes
on the clean tree, apply the patch, confirm the demo fails, optionally run the pinned test suite,
run every claimed property's quick check with --root <scratch> and record which checks fire.
The scratch worktree is removed afterwards.  With --keep the confirmed seed is copied to
/verif/seeded/<name>/ with the results merged into meta.json."""

import json
import os
import shutil
import subprocess
import sys
import tempfile

HERE = os.path.dirname(os.path.dirname(os.path.abspath(__file__)))
sys.path.insert(0, HERE)
from verif import registry  # noqa: E402

PY = "/venv/bin/python"


def sh(cmd, cwd=None, env=None, timeout=900):
    e = dict(os.environ)
    if env:
        e.update(env)
    try:
        r = subprocess.run(cmd, shell=True, cwd=cwd, env=e, capture_output=True, text=True, timeout=timeout)
        return r.returncode, r.stdout + r.stderr
    except subprocess.TimeoutExpired:
        return 124, "TIMEOUT"


def main():
    args = sys.argv[1:]
    keep = "--keep" in args
    suite = "--suite" in args
    only = None
    for a in list(args):
        if a.startswith("--props="):
            only = a.split("=", 1)[1].split(",")
    tag = ""
    for a in list(args):
        if a.startswith("--tag="):
            tag = a.split("=", 1)[1]
    dirs = [a for a in args if not a.startswith("--")]
    results = []
    for d in dirs:
        d = os.path.abspath(d)
        meta = json.load(open(os.path.join(d, "meta.json"))) if os.path.exists(os.path.join(d, "meta.json")) else {}
        parts = d.rstrip("/").split("/")
        name = f"{meta.get('property', parts[-3])}-{tag}{parts[-1]}" if "_seed" in parts else "-".join(parts[-2:])
        if os.path.dirname(d) == os.path.join(HERE, "seeded"):
            name = parts[-1]  # refreshing a kept seed in place
        wt = tempfile.mkdtemp(prefix="seedwt_")
        os.rmdir(wt)
        res = {"seed": name, "property": meta.get("property")}
        try:
            rc, out = sh(f"git -C /repo worktree add --detach {wt} HEAD -q")
            if rc:
                res["error"] = "worktree: " + out[-200:]
                results.append(res)
                continue
            shutil.copy("/repo/urwid/version.py", os.path.join(wt, "urwid", "version.py"))
            env = {"PYTHONPATH": wt}
            rc0, o0 = sh(f"{PY} {d}/demo.py", cwd=wt, env=env, timeout=300)
            res["demo_clean_rc"] = rc0
            rc, out = sh(f"git -C {wt} apply {d}/patch.diff")
            if rc:
                res["error"] = "patch does not apply to current HEAD: " + out[-300:]
                results.append(res)
                continue
            rc1, o1 = sh(f"{PY} {d}/demo.py", cwd=wt, env=env, timeout=300)
            res["demo_patched_rc"] = rc1
            res["demo_patched_tail"] = o1.strip().splitlines()[-1][:200] if o1.strip() else ""
            rc, out = sh(f"{PY} -m compileall -q urwid", cwd=wt)
            res["compiles"] = rc == 0
            if suite:
                rc, out = sh(f"{PY} -m pytest -q -p no:cacheprovider --timeout=900 --continue-on-collection-errors 2>&1 | tail -1", cwd=wt, timeout=900)
                res["suite"] = out.strip()
            fired = {}
            props = only or sorted(registry.CLAIMED)
            for pid in props:
                rc, out = sh(f"{PY} -m verif.check {pid} --root {wt} --no-evidence --json", cwd=HERE, timeout=300)
                if rc != 0:
                    keys, lines = [], []
                    for l in out.splitlines():
                        if l.startswith("{"):
                            try:
                                js = json.loads(l)
                                keys = [f["key"] for f in js["violations"]]
                                lines = [f"{f['file']}:{f['line']}: [{f['rule']}] {f['where']}: {f['message']}" for f in js["violations"]]
                            except ValueError:
                                pass
                        elif l.startswith("ANALYSIS-ERROR"):
                            lines.append(l)
                    fired[pid] = {"rc": rc, "keys": keys, "lines": lines[:4]}
            res["fired"] = fired
            res["detected_by_own_property"] = meta.get("property") in fired and fired[meta.get("property")]["rc"] == 1
            res["detected_by_any"] = any(v["rc"] == 1 for v in fired.values())
        finally:
            sh(f"git -C /repo worktree remove --force {wt}")
            shutil.rmtree(wt, ignore_errors=True)
        results.append(res)
        ok = res.get("demo_clean_rc") == 0 and res.get("demo_patched_rc") == 1
        print(f"{name:10s} valid={ok!s:5s} own={res.get('detected_by_own_property')!s:5s} any={res.get('detected_by_any')!s:5s} fired={ {k: v['rc'] for k, v in res.get('fired', {}).items()} } {res.get('error', '')}")
        for k, v in res.get("fired", {}).items():
            for l in v["lines"][:2]:
                print(f"      {k}: {l[:220]}")
        if keep and ok:
            dst = os.path.join(HERE, "seeded", name)
            os.makedirs(dst, exist_ok=True)
            for f in ("patch.diff", "demo.py"):
                if os.path.abspath(d) != os.path.abspath(dst):
                    shutil.copy(os.path.join(d, f), os.path.join(dst, f))
            meta = dict(meta)
            meta["confirmed"] = {
                "demo_on_clean_tree_rc": res["demo_clean_rc"],
                "demo_with_patch_rc": res["demo_patched_rc"],
                "demo_with_patch_last_line": res.get("demo_patched_tail"),
                "compiles": res.get("compiles"),
                "test_suite_with_patch": res.get("suite", meta.get("confirmed", {}).get("test_suite_with_patch")),
                "how": "tools/seedtest.py: scratch worktree of /repo HEAD, PYTHONPATH=<worktree> /venv/bin/python demo.py before and after `git apply patch.diff`",
            }
            meta["checks_fired"] = {k: v for k, v in res.get("fired", {}).items()}
            meta["detected_by"] = {k: v["keys"] for k, v in res.get("fired", {}).items() if v["rc"] == 1 and v["keys"]}
            meta["detected_by_own_property_check"] = res.get("detected_by_own_property")
            json.dump(meta, open(os.path.join(dst, "meta.json"), "w"), indent=1)
    json.dump(results, open(os.path.join(tempfile.gettempdir(), f"seedtest_last_{os.getpid()}.json"), "w"), indent=1)


if __name__ == "__main__":
    main()
