"""Project model: parsed modules, classes (with C3 MRO over in-repo bases), functions
(including nested defs and lambdas), properties in both spellings, name / call resolution.

Everything is rebuilt from the sources under ``$VERIF_REPO`` (default /repo) on every run;
nothing of urwid is imported or executed.
"""

from __future__ import annotations

import ast
import hashlib
import os
import typing

REPO = os.environ.get("VERIF_REPO", "/repo")
PKG = "urwid"


class AnalysisError(Exception):
    """The analysis itself cannot proceed (anchor vanished, table not foldable, ...)."""


class FuncInfo:
    __slots__ = ("name", "qualname", "node", "module", "cls", "parent", "is_lambda", "decorators", "_own")

    def __init__(self, name, qualname, node, module, cls, parent, is_lambda=False):
        self.name = name
        self.qualname = qualname
        self.node = node
        self.module = module
        self.cls = cls
        self.parent = parent
        self.is_lambda = is_lambda
        self.decorators = [] if is_lambda else list(node.decorator_list)
        self._own = None

    @property
    def relpath(self):
        return self.module.relpath

    @property
    def lineno(self):
        return self.node.lineno

    @property
    def params(self) -> list[str]:
        a = self.node.args
        return [x.arg for x in (*a.posonlyargs, *a.args)]

    @property
    def all_params(self) -> list[str]:
        a = self.node.args
        out = [x.arg for x in (*a.posonlyargs, *a.args, *a.kwonlyargs)]
        if a.vararg:
            out.append(a.vararg.arg)
        if a.kwarg:
            out.append(a.kwarg.arg)
        return out

    @property
    def self_name(self) -> str | None:
        if self.cls is None:
            return None
        if self.is_static:
            return None
        p = self.params
        return p[0] if p else None

    @property
    def is_static(self):
        return any(isinstance(d, ast.Name) and d.id == "staticmethod" for d in self.decorators)

    @property
    def is_classmethod(self):
        return any(isinstance(d, ast.Name) and d.id == "classmethod" for d in self.decorators)

    @property
    def body(self):
        return [ast.Return(value=self.node.body, lineno=self.node.lineno, col_offset=0)] if self.is_lambda else self.node.body

    def own_nodes(self):
        """All AST nodes of this function, not descending into nested defs / lambdas / classes
        (the nested node itself is yielded)."""
        if self._own is None:
            out = []
            stack = list(reversed(self.body))
            while stack:
                n = stack.pop()
                out.append(n)
                if isinstance(n, (ast.FunctionDef, ast.AsyncFunctionDef, ast.Lambda, ast.ClassDef)):
                    # decorators / defaults evaluate in the enclosing scope
                    if not isinstance(n, ast.ClassDef):
                        stack.extend(reversed([*n.args.defaults, *[d for d in n.args.kw_defaults if d is not None]]))
                    continue
                stack.extend(reversed(list(ast.iter_child_nodes(n))))
            self._own = out
        return self._own

    def __repr__(self):
        return f"<Func {self.qualname}>"


class PropInfo:
    __slots__ = ("name", "getter", "setter", "deleter", "cls")

    def __init__(self, name, cls):
        self.name = name
        self.cls = cls
        self.getter = self.setter = self.deleter = None

    def __repr__(self):
        return f"<Prop {self.cls.name}.{self.name}>"


class ClassInfo:
    def __init__(self, name, qualname, node, module, parent_func):
        self.name = name
        self.qualname = qualname
        self.node = node
        self.module = module
        self.parent_func = parent_func
        self.methods: dict[str, FuncInfo] = {}
        self.props: dict[str, PropInfo] = {}
        self.class_attrs: dict[str, ast.AST] = {}
        self.bases: list[ClassInfo] = []
        self.external_bases: list[str] = []
        self.delegate_attr: str | None = None  # for delegate_to_widget_mixin("x") bases
        self._mro = None

    @property
    def relpath(self):
        return self.module.relpath

    def __repr__(self):
        return f"<Class {self.qualname}>"


class Module:
    def __init__(self, name, path, relpath, src):
        self.name = name
        self.path = path
        self.relpath = relpath
        self.src = src
        self.tree = ast.parse(src, filename=path)
        self.bindings: dict[str, tuple] = {}
        self.is_package = os.path.basename(path) == "__init__.py"
        self.functions: list[FuncInfo] = []
        self.classes: list[ClassInfo] = []

    def __repr__(self):
        return f"<Module {self.name}>"


class Project:
    def __init__(self, root: str | None = None, overlay: dict | None = None):
        """*overlay* maps a path relative to the root (``urwid/x.py``) to replacement source text;
        it is used only by the rules' self-test (mutants / benign twins analysed in memory)."""
        self.root = root or REPO
        self.overlay = overlay or {}
        self.modules: dict[str, Module] = {}
        self.functions: dict[str, FuncInfo] = {}
        self.classes: dict[str, ClassInfo] = {}
        self.func_of_node: dict[int, FuncInfo] = {}
        self.class_of_node: dict[int, ClassInfo] = {}
        self._attr_types: dict[str, dict[str, set]] = {}
        h = hashlib.sha256()
        pkgdir = os.path.join(self.root, PKG)
        if not os.path.isdir(pkgdir):
            raise AnalysisError(f"package directory {pkgdir} not found")
        paths = []
        for dp, dn, fns in os.walk(pkgdir):
            dn[:] = sorted(d for d in dn if d != "__pycache__")
            for f in sorted(fns):
                if f.endswith(".py"):
                    paths.append(os.path.join(dp, f))
        for p in paths:
            rel = os.path.relpath(p, self.root)
            if rel in self.overlay:
                src = self.overlay[rel]
            else:
                with open(p, encoding="utf-8") as fh:
                    src = fh.read()
            h.update(rel.encode())
            h.update(src.encode())
            modname = rel[:-3].replace(os.sep, ".")
            if modname.endswith(".__init__"):
                modname = modname[: -len(".__init__")]
            try:
                self.modules[modname] = Module(modname, p, rel, src)
            except SyntaxError as e:
                raise AnalysisError(f"{rel} does not parse: {e}") from e
        self.digest = h.hexdigest()
        for m in self.modules.values():
            self._collect_module(m)
        for c in self.classes.values():
            self._resolve_bases(c)

    # ------------------------------------------------------------------ collection
    def _collect_module(self, m: Module):
        self._collect_body(m.tree.body, m, None, None, m.name, toplevel=True)

    def _abs_import(self, m: Module, level: int, module: str | None) -> str:
        if level == 0:
            return module or ""
        parts = m.name.split(".")
        if not m.is_package:
            parts = parts[:-1]
        if level > 1:
            parts = parts[: -(level - 1)]
        base = ".".join(parts)
        return f"{base}.{module}" if module else base

    def _collect_body(self, body, m, cls, parent, prefix, toplevel=False):
        for st in body:
            self._collect_stmt(st, m, cls, parent, prefix, toplevel)

    def _bind(self, m, cls, parent, name, val):
        if cls is None and parent is None:
            m.bindings[name] = val

    def _collect_stmt(self, st, m, cls, parent, prefix, toplevel):
        if isinstance(st, (ast.FunctionDef, ast.AsyncFunctionDef)):
            fi = self._new_func(st.name, f"{prefix}.{st.name}", st, m, cls, parent)
            if cls is not None and parent is cls.parent_func:
                self._add_method(cls, fi)
            else:
                self._bind(m, cls, parent, st.name, ("func", fi))
            self._collect_inner(fi)
        elif isinstance(st, ast.ClassDef):
            ci = ClassInfo(st.name, f"{prefix}.{st.name}", st, m, parent)
            self.classes[ci.qualname] = ci
            self.class_of_node[id(st)] = ci
            m.classes.append(ci)
            self._bind(m, cls, parent, st.name, ("class", ci))
            for s in st.body:
                self._collect_class_stmt(s, ci, m, parent)
        elif isinstance(st, ast.Import):
            for a in st.names:
                if a.asname:
                    self._bind(m, cls, parent, a.asname, ("module", a.name))
                else:
                    top = a.name.split(".")[0]
                    self._bind(m, cls, parent, top, ("module", top))
        elif isinstance(st, ast.ImportFrom):
            base = self._abs_import(m, st.level, st.module)
            for a in st.names:
                self._bind(m, cls, parent, a.asname or a.name, ("from", base, a.name))
        elif isinstance(st, (ast.Assign, ast.AnnAssign)):
            targets = st.targets if isinstance(st, ast.Assign) else [st.target]
            if st.value is not None:
                for t in targets:
                    if isinstance(t, ast.Name):
                        self._bind(m, cls, parent, t.id, ("assign", st.value, st))
                if parent is None and cls is None:
                    self._collect_lambdas(st.value, m, None, None, prefix)
        elif isinstance(st, (ast.If, ast.Try, ast.With)) and parent is None:
            # module-level conditional definitions (TYPE_CHECKING, try/except ImportError)
            for fld in ("body", "orelse", "finalbody"):
                self._collect_body(getattr(st, fld, []) or [], m, cls, parent, prefix, toplevel)
            for h in getattr(st, "handlers", []) or []:
                self._collect_body(h.body, m, cls, parent, prefix, toplevel)

    def _collect_class_stmt(self, s, ci: ClassInfo, m, parent):
        if isinstance(s, (ast.FunctionDef, ast.AsyncFunctionDef)):
            fi = self._new_func(s.name, f"{ci.qualname}.{s.name}", s, m, ci, parent)
            self._add_method(ci, fi)
            self._collect_inner(fi)
        elif isinstance(s, (ast.Assign, ast.AnnAssign)):
            targets = s.targets if isinstance(s, ast.Assign) else [s.target]
            if s.value is None:
                return
            for t in targets:
                if not isinstance(t, ast.Name):
                    continue
                v = s.value
                if isinstance(v, ast.Call) and isinstance(v.func, ast.Name) and v.func.id == "property":
                    pi = ci.props.setdefault(t.id, PropInfo(t.id, ci))
                    slots = ["getter", "setter", "deleter"]
                    for i, a in enumerate(v.args[:3]):
                        setattr(pi, slots[i], self._prop_fn(a, ci, m, parent, f"{ci.qualname}.{t.id}.{slots[i]}"))
                    for kw in v.keywords:
                        k = {"fget": "getter", "fset": "setter", "fdel": "deleter"}.get(kw.arg)
                        if k:
                            setattr(pi, k, self._prop_fn(kw.value, ci, m, parent, f"{ci.qualname}.{t.id}.{k}"))
                else:
                    ci.class_attrs[t.id] = v
                    self._collect_lambdas(v, m, ci, parent, f"{ci.qualname}.{t.id}")
        elif isinstance(s, ast.ClassDef):
            self._collect_stmt(s, m, None, parent, ci.qualname, False)
        elif isinstance(s, ast.If):
            for x in (*s.body, *s.orelse):
                self._collect_class_stmt(x, ci, m, parent)

    def _prop_fn(self, a, ci, m, parent, qual):
        if isinstance(a, ast.Name):
            return ci.methods.get(a.id)
        if isinstance(a, ast.Lambda):
            fi = self._new_func("<lambda>", qual, a, m, ci, parent, is_lambda=True)
            return fi
        return None

    def _add_method(self, ci: ClassInfo, fi: FuncInfo):
        kind = None
        for d in fi.decorators:
            if isinstance(d, ast.Name) and d.id == "property":
                kind = ("getter", fi.name)
            elif isinstance(d, ast.Attribute) and d.attr in ("setter", "getter", "deleter") and isinstance(d.value, ast.Name):
                kind = (d.attr, d.value.id)
            elif isinstance(d, ast.Attribute) and d.attr == "cached_property":
                kind = ("getter", fi.name)
            elif isinstance(d, ast.Name) and d.id == "cached_property":
                kind = ("getter", fi.name)
        if kind:
            pi = ci.props.setdefault(kind[1], PropInfo(kind[1], ci))
            setattr(pi, kind[0], fi)
        else:
            ci.methods[fi.name] = fi

    def _new_func(self, name, qual, node, m, cls, parent, is_lambda=False):
        fi = FuncInfo(name, qual, node, m, cls, parent, is_lambda)
        # keep the first of equal qualnames (overloads / redefinitions are rare); index all by node
        # the last definition of a name wins at run time (e.g. the implementation after
        # @typing.overload stubs): it keeps the plain qualname, earlier ones are renamed #k
        if qual in self.functions:
            old = self.functions.pop(qual)
            k = 1
            while f"{qual}#{k}" in self.functions:
                k += 1
            old.qualname = f"{qual}#{k}"
            self.functions[old.qualname] = old
        self.functions[qual] = fi
        self.func_of_node[id(node)] = fi
        m.functions.append(fi)
        return fi

    def _collect_inner(self, fi: FuncInfo):
        """Register nested defs, lambdas and classes of a function."""
        n_lambda = 0
        for n in fi.own_nodes():
            if isinstance(n, (ast.FunctionDef, ast.AsyncFunctionDef)):
                sub = self._new_func(n.name, f"{fi.qualname}.<locals>.{n.name}", n, fi.module, fi.cls, fi)
                self._collect_inner(sub)
            elif isinstance(n, ast.Lambda):
                n_lambda += 1
                sub = self._new_func("<lambda>", f"{fi.qualname}.<locals>.<lambda{n_lambda}>", n, fi.module, fi.cls, fi, True)
                self._collect_inner(sub)
            elif isinstance(n, ast.ClassDef):
                self._collect_stmt(n, fi.module, None, fi, f"{fi.qualname}.<locals>", False)

    def _collect_lambdas(self, expr, m, cls, parent, prefix):
        k = 0
        stack = [expr]
        while stack:
            n = stack.pop()
            if isinstance(n, ast.Lambda):
                k += 1
                sub = self._new_func("<lambda>", f"{prefix}.<lambda@{n.lineno}:{n.col_offset}>", n, m, cls, parent, True)
                self._collect_inner(sub)
                continue
            stack.extend(ast.iter_child_nodes(n))

    # ------------------------------------------------------------------ resolution
    def resolve_name(self, m: Module, name: str, _depth=0):
        """Resolve a module-global name to FuncInfo | ClassInfo | Module | ('assign', Module, value, stmt) | None."""
        if _depth > 12:
            return None
        b = m.bindings.get(name)
        if b is None:
            return None
        if b[0] == "func" or b[0] == "class":
            return b[1]
        if b[0] == "module":
            return self.modules.get(b[1])
        if b[0] == "from":
            base, nm = b[1], b[2]
            sub = self.modules.get(f"{base}.{nm}")
            tm = self.modules.get(base)
            if tm is not None and nm in tm.bindings and tm is not m:
                r = self.resolve_name(tm, nm, _depth + 1)
                if r is not None:
                    return r
            return sub
        if b[0] == "assign":
            v = b[1]
            # plain aliases: X = Y, X = mod.Y
            r = self.resolve_value(m, v, _depth + 1)
            if r is not None:
                return r
            return ("assign", m, v, b[2])
        return None

    def resolve_value(self, m: Module, v, _depth=0):
        """Resolve an expression at module level to a definition (aliases, bound methods of
        module-level singletons such as ``emit_signal = _signals.emit``)."""
        if _depth > 12:
            return None
        if isinstance(v, ast.Name):
            return self.resolve_name(m, v.id, _depth + 1)
        if isinstance(v, ast.Attribute):
            base = self.resolve_value(m, v.value, _depth + 1)
            if isinstance(base, Module):
                return self.resolve_name(base, v.attr, _depth + 1)
            if isinstance(base, ClassInfo):
                r = self.find_member(base, v.attr)
                if r and r[0] == "method":
                    return r[1]
                return None
            if isinstance(base, tuple) and base[0] == "instance":
                r = self.find_member(base[1], v.attr)
                if r and r[0] == "method":
                    return r[1]
                return None
            if isinstance(base, tuple) and base[0] == "assign":
                inner = base[2]
                if isinstance(inner, ast.Call):
                    c = self.resolve_value(base[1], inner.func, _depth + 1)
                    if isinstance(c, ClassInfo):
                        r = self.find_member(c, v.attr)
                        if r and r[0] == "method":
                            return r[1]
            return None
        return None

    def resolve_class_expr(self, m: Module, e, scope: FuncInfo | None = None):
        """Resolve a base-class / constructor expression to a ClassInfo (or None)."""
        if isinstance(e, ast.Subscript):
            return self.resolve_class_expr(m, e.value, scope)
        if isinstance(e, ast.Name):
            f = scope
            while f is not None:
                q = f"{f.qualname}.<locals>.{e.id}"
                if q in self.classes:
                    return self.classes[q]
                f = f.parent
            r = self.resolve_name(m, e.id)
            return r if isinstance(r, ClassInfo) else None
        if isinstance(e, ast.Attribute):
            r = self.resolve_value(m, e)
            return r if isinstance(r, ClassInfo) else None
        if isinstance(e, ast.Call):
            f = self.resolve_value(m, e.func)
            if isinstance(f, FuncInfo):
                for n in f.own_nodes():
                    if isinstance(n, ast.Return) and isinstance(n.value, ast.Name):
                        q = f"{f.qualname}.<locals>.{n.value.id}"
                        if q in self.classes:
                            return self.classes[q]
        return None

    def _resolve_bases(self, c: ClassInfo):
        for b in c.node.bases:
            r = self.resolve_class_expr(c.module, b, c.parent_func)
            if r is not None:
                c.bases.append(r)
                if isinstance(b, ast.Call) and b.args and isinstance(b.args[0], ast.Constant) and isinstance(b.args[0].value, str):
                    c.delegate_attr = b.args[0].value
            else:
                c.external_bases.append(ast.unparse(b))

    def mro(self, c: ClassInfo) -> list[ClassInfo]:
        if c._mro is not None:
            return c._mro
        c._mro = [c]  # cycle guard
        seqs = [list(self.mro(b)) for b in c.bases] + [list(c.bases)]
        out = [c]
        seqs = [s for s in seqs if s]
        while seqs:
            for s in seqs:
                cand = s[0]
                if not any(cand in t[1:] for t in seqs):
                    break
            else:
                cand = seqs[0][0]  # inconsistent hierarchy: fall back to depth-first order
            out.append(cand)
            for s in seqs:
                if s and s[0] is cand:
                    del s[0]
                elif cand in s:
                    s.remove(cand)
            seqs = [s for s in seqs if s]
        c._mro = out
        return out

    def is_subclass(self, c: ClassInfo, base_name: str) -> bool:
        return any(k.name == base_name for k in self.mro(c))

    def delegate_attr_of(self, c: ClassInfo) -> str | None:
        for k in self.mro(c):
            if k.delegate_attr:
                return k.delegate_attr
        return None

    def find_member(self, c: ClassInfo, name: str, after: ClassInfo | None = None):
        """First definition of *name* along the MRO of *c* (after class *after* if given):
        ('method', FuncInfo) | ('property', PropInfo) | ('classattr', node, ClassInfo) | None."""
        mro = self.mro(c)
        if after is not None:
            if after in mro:
                mro = mro[mro.index(after) + 1 :]
            else:
                mro = self.mro(after)[1:]
        for k in mro:
            if name in k.props:
                return ("property", k.props[name])
            if name in k.methods:
                return ("method", k.methods[name])
            if name in k.class_attrs:
                return ("classattr", k.class_attrs[name], k)
        return None

    def subclasses(self, base_name: str) -> list[ClassInfo]:
        return [c for c in self.classes.values() if self.is_subclass(c, base_name)]

    def cls(self, qual_or_name: str) -> ClassInfo:
        if qual_or_name in self.classes:
            return self.classes[qual_or_name]
        hits = [c for c in self.classes.values() if c.name == qual_or_name]
        if len(hits) != 1:
            raise AnalysisError(f"class {qual_or_name!r}: {len(hits)} definitions found")
        return hits[0]

    def func(self, qual: str) -> FuncInfo:
        """Look up 'urwid.x.f', 'urwid.x.C.m' or the short forms 'C.m' / 'mod:f'."""
        if qual in self.functions:
            return self.functions[qual]
        if ":" in qual:
            mod, name = qual.split(":")
            hits = [f for q, f in self.functions.items() if q == f"{PKG}.{mod}.{name}"]
        else:
            hits = [f for q, f in self.functions.items() if q.endswith("." + qual) and "<locals>" not in q[: len(q) - len(qual)]]
        if len(hits) != 1:
            raise AnalysisError(f"function {qual!r}: {len(hits)} definitions found (anchor vanished?)")
        return hits[0]

    def method(self, cls_name: str, name: str) -> FuncInfo:
        c = self.cls(cls_name)
        r = self.find_member(c, name)
        if not r or r[0] != "method":
            raise AnalysisError(f"method {cls_name}.{name} not found (anchor vanished?)")
        return r[1]

    # ---- attribute types (light): self.X = ClassName(...) anywhere in the class hierarchy
    def attr_types(self, c: ClassInfo) -> dict[str, set]:
        if c.qualname in self._attr_types:
            return self._attr_types[c.qualname]
        out: dict[str, set] = {}
        self._attr_types[c.qualname] = out
        for k in self.mro(c):
            fis = list(k.methods.values())
            for p in k.props.values():
                fis += [f for f in (p.getter, p.setter) if f is not None]
            for fi in fis:
                sn = fi.self_name
                if not sn:
                    continue
                for n in fi.own_nodes():
                    tgt = val = None
                    if isinstance(n, ast.Assign) and len(n.targets) == 1:
                        tgt, val = n.targets[0], n.value
                    elif isinstance(n, ast.AnnAssign) and n.value is not None:
                        tgt, val = n.target, n.value
                    if tgt is None or not (isinstance(tgt, ast.Attribute) and isinstance(tgt.value, ast.Name) and tgt.value.id == sn):
                        continue
                    if isinstance(val, ast.Call):
                        ci = self.resolve_class_expr(fi.module, val.func, fi)
                        if ci is not None:
                            out.setdefault(tgt.attr, set()).add(ci)
        return out

    # ---- call resolution
    def local_def(self, fi: FuncInfo, name: str):
        f = fi
        while f is not None:
            q = f"{f.qualname}.<locals>.{name}"
            if q in self.functions:
                return self.functions[q]
            f = f.parent
        return None

    def resolve_call(self, call: ast.Call, fi: FuncInfo, self_cls: ClassInfo | None = None):
        """Resolve the callee of *call* made inside *fi*.  Returns a list of targets
        (FuncInfo for functions/methods, ClassInfo for constructors, PropInfo never),
        or None when the receiver is unknown."""
        return self.resolve_callee(call.func, fi, self_cls)

    def resolve_callee(self, f, fi: FuncInfo, self_cls: ClassInfo | None = None):
        m = fi.module
        scls = self_cls or fi.cls
        if isinstance(f, ast.Name):
            loc = self.local_def(fi, f.id)
            if loc is not None:
                return [loc]
            # parameters / locals shadow globals
            g = fi
            while g is not None:
                if f.id in g.all_params:
                    return None
                g = g.parent
            r = self.resolve_name(m, f.id)
            if isinstance(r, (FuncInfo, ClassInfo)):
                return [r]
            return None
        if isinstance(f, ast.Attribute):
            v = f.value
            sn = self._self_name(fi)
            if isinstance(v, ast.Name) and sn and v.id == sn and scls is not None:
                r = self.find_member(scls, f.attr)
                if r and r[0] == "method":
                    return [r[1]]
                if r and r[0] == "property":
                    return None
                return None
            if isinstance(v, ast.Call) and isinstance(v.func, ast.Name) and v.func.id == "super" and scls is not None:
                owner = self._owner_class(fi)
                r = self.find_member(scls, f.attr, after=owner)
                if r and r[0] == "method":
                    return [r[1]]
                return None
            if isinstance(v, ast.Name):
                if not self._is_local(fi, v.id):
                    r = self.resolve_name(m, v.id)
                    if isinstance(r, Module):
                        t = self.resolve_name(r, f.attr)
                        if isinstance(t, (FuncInfo, ClassInfo)):
                            return [t]
                        return None
                    if isinstance(r, ClassInfo):
                        t = self.find_member(r, f.attr)
                        if t and t[0] == "method":
                            return [t[1]]
                        return None
                    if isinstance(r, tuple) and r[0] == "assign" and isinstance(r[2], ast.Call):
                        c = self.resolve_class_expr(r[1], r[2].func)
                        if c is not None:
                            t = self.find_member(c, f.attr)
                            if t and t[0] == "method":
                                return [t[1]]
                    return None
                return None
            if isinstance(v, ast.Attribute) and isinstance(v.value, ast.Name):
                # mod.Class.method / self.attr.method (typed attr)
                if sn and v.value.id == sn and scls is not None:
                    types = self.attr_types(scls).get(v.attr)
                    if types:
                        outs = []
                        for c in types:
                            t = self.find_member(c, f.attr)
                            if t and t[0] == "method":
                                outs.append(t[1])
                        return outs or None
                    return None
                r = self.resolve_value(m, v) if not self._is_local(fi, v.value.id) else None
                if isinstance(r, ClassInfo):
                    t = self.find_member(r, f.attr)
                    if t and t[0] == "method":
                        return [t[1]]
                if isinstance(r, Module):
                    t = self.resolve_name(r, f.attr)
                    if isinstance(t, (FuncInfo, ClassInfo)):
                        return [t]
                return None
        return None

    def _self_name(self, fi: FuncInfo):
        f = fi
        while f is not None:
            if f.cls is not None and f.parent is f.cls.parent_func and f.self_name:
                return f.self_name
            f = f.parent
        return None

    def _owner_class(self, fi: FuncInfo):
        return fi.cls

    def _is_local(self, fi: FuncInfo, name: str) -> bool:
        f = fi
        while f is not None:
            if name in f.all_params:
                return True
            for n in f.own_nodes():
                if isinstance(n, ast.Name) and n.id == name and isinstance(n.ctx, ast.Store):
                    return True
            f = f.parent
        return False

    def methods_named(self, name: str, family: str | None = None) -> list[FuncInfo]:
        out = []
        for c in self.classes.values():
            if name in c.methods and (family is None or self.is_subclass(c, family)):
                out.append(c.methods[name])
        return out

    def all_class_functions(self, c: ClassInfo) -> list[FuncInfo]:
        out = list(c.methods.values())
        for p in c.props.values():
            out += [f for f in (p.getter, p.setter, p.deleter) if f is not None and all(f is not g for g in out)]
        return out


def norm(node: ast.AST, limit: int = 160) -> str:
    """Normalised statement text used in finding keys (no line numbers)."""
    if isinstance(node, (ast.If, ast.While)):
        s = f"{type(node).__name__.lower()} {ast.unparse(node.test)}"
    elif isinstance(node, (ast.For, ast.AsyncFor)):
        s = f"for {ast.unparse(node.target)} in {ast.unparse(node.iter)}"
    elif isinstance(node, (ast.With, ast.AsyncWith)):
        s = "with " + ", ".join(ast.unparse(i) for i in node.items)
    elif isinstance(node, (ast.FunctionDef, ast.AsyncFunctionDef, ast.ClassDef)):
        s = f"def {node.name}"
    elif isinstance(node, ast.Try):
        s = "try"
    elif isinstance(node, ast.ExceptHandler):
        s = "except " + (ast.unparse(node.type) if node.type else "")
    else:
        s = ast.unparse(node)
    s = " ".join(s.split())
    return s if len(s) <= limit else s[: limit - 3] + "..."


_PROJECT_CACHE: dict[str, Project] = {}


def load(root: str | None = None) -> Project:
    root = root or os.environ.get("VERIF_REPO", "/repo")
    p = _PROJECT_CACHE.get(root)
    if p is None:
        p = Project(root)
        _PROJECT_CACHE[root] = p
    return p
