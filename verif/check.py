"""CLI:  python -m verif.check <ID> [--tier quick|thorough]   |   --replay <file>

Exit codes: 0 property's decided clauses hold on everything analysed (KNOWN-FINDING lines
allowed); 1 VIOLATION; 2 ANALYSIS-ERROR (the machinery could not decide: anchor vanished,
floor not met, self-test failed, internal error)."""

from __future__ import annotations

import argparse
import importlib
import json
import os
import sys
import time
import traceback

from . import model
from .core import Ctx, Finding, RuleResult
from .model import AnalysisError

HERE = os.path.dirname(os.path.dirname(os.path.abspath(__file__)))
KNOWN = os.path.join(HERE, "known_findings.json")

COMMON_ASSUMPTIONS = [
    "Static analysis of the sources under /repo/urwid only: monkey-patching, setattr, subclasses defined outside the package and user callables are invisible.",
    "Call resolution is name/MRO based (no type checker is available in this sandbox); calls on receivers of unknown type are resolved per rule as stated in the rule description.",
    "Only the structural clauses listed in coverage.explanation are decided; the value-dependent remainder of the property is explicitly NOT decided by this check.",
]


def load_known():
    if not os.path.exists(KNOWN):
        return []
    with open(KNOWN, encoding="utf-8") as fh:
        return json.load(fh).get("findings", [])


def run_property(pid: str, tier: str, root: str | None = None, project=None):
    """Analyse and return (results, module).  Raises AnalysisError."""
    project = project or model.load(root)
    mod = importlib.import_module(f"verif.props.{pid.lower()}")
    ctx = Ctx(project, tier)
    results: list[RuleResult] = mod.run(ctx)
    # a VIOLATION verdict wins: floors (anchor vanished) are only fatal when no rule reports a construct
    if not any(not f.informational for r in results for f in r.findings):
        for r in results:
            r.check_floor()
    return project, mod, results


def classify(pid: str, results):
    known = [k for k in load_known() if k.get("property") == pid and k.get("status") == "known"]
    known_keys = {k["key"]: k for k in known}
    viol, kn, info = [], [], []
    for r in results:
        for f in r.findings:
            if f.informational:
                info.append(f)
            elif f.key in known_keys:
                kn.append(f)
            else:
                viol.append(f)
    return viol, kn, info


def write_replay(pid: str, f: Finding) -> str:
    d = os.path.join(HERE, "out", pid)
    os.makedirs(d, exist_ok=True)
    path = os.path.join(d, f"{f.slug}.json")
    with open(path, "w", encoding="utf-8") as fh:
        json.dump({"property": pid, **f.to_json()}, fh, indent=1)
    return path


def main(argv=None):
    ap = argparse.ArgumentParser()
    ap.add_argument("pid", nargs="?")
    ap.add_argument("--tier", default=os.environ.get("VERIF_TIER") or "quick", choices=["quick", "thorough"])
    ap.add_argument("--replay")
    ap.add_argument("--root", default=None, help="analyse this checkout instead of $VERIF_REPO (/repo)")
    ap.add_argument("--no-evidence", action="store_true")
    ap.add_argument("--json", action="store_true", help="print findings as JSON (used by the self-test)")
    a = ap.parse_args(argv)
    try:
        if a.replay:
            return replay(a.replay, a.root)
        if not a.pid:
            ap.error("property id required")
        return check(a.pid.upper(), a.tier, a.root, not a.no_evidence, a.json)
    except AnalysisError as e:
        print(f"ANALYSIS-ERROR {e}")
        return 2
    except Exception:  # noqa: BLE001 - tracebacks must not look like violations
        traceback.print_exc()
        print("ANALYSIS-ERROR internal error in the checker (traceback above)")
        return 2


def check(pid: str, tier: str, root, write_evidence: bool, as_json: bool):
    t0 = time.time()
    seed = int(os.environ.get("VERIF_SEED", "0") or 0)
    project, mod, results = run_property(pid, tier, root)
    viol, kn, info = classify(pid, results)
    if as_json:
        print(json.dumps({"violations": [f.to_json() for f in viol], "known": [f.to_json() for f in kn], "info": [f.to_json() for f in info]}))
        return 1 if viol else 0
    n_inst = sum(r.instances for r in results)
    n_nontriv = sum(len(r.nontrivial) for r in results)
    print(f"{pid} [{tier}] analysed {len(project.modules)} modules / {len(project.functions)} functions / {len(project.classes)} classes of {project.root}/urwid (digest {project.digest[:12]})")
    for r in results:
        status = "ok" if not [f for f in r.findings if not f.informational] else f"{len(r.findings)} finding(s)"
        print(f"  {r.clause:8s} {r.rule:7s} instances={r.instances:<4d} nontrivial={len(r.nontrivial):<4d} floor={r.floor:<3d} {status}  - {r.description}")
        for n in r.notes:
            print(f"           note: {n}")
    for f in info:
        print(f"INFO: property={pid} {f}")
    for f in kn:
        print(f"KNOWN-FINDING: property={pid} {f}")
    for f in viol:
        path = write_replay(pid, f)
        print(f"VIOLATION property={pid} replay={path}")
        print(f"    {f}")
        for k, v in f.detail.items():
            print(f"      {k}: {v}")
    selftest = None
    st_fail = False
    if tier == "thorough" and root is None:
        from . import mutants

        selftest = mutants.run_for(pid)
        print(
            f"  self-test: {selftest['killed']}/{selftest['applied']} mutants detected, {selftest['twins_silent']}/{selftest['twins']} benign twins silent, "
            f"{selftest['seeded_detected']}/{selftest['seeded']} kept seeded changes detected, {selftest['skipped']} skipped (anchor edited)"
        )
        for line in selftest["failures"]:
            print(f"  SELF-TEST-FAILURE {line}")
        st_fail = bool(selftest["failures"])
    wall = time.time() - t0
    if write_evidence:
        ev = {
            "property_id": pid,
            "tier": tier,
            "seed": seed,
            "level": "other",
            "coverage": {
                "explanation": mod.EXPLANATION,
                "not_decided": mod.NOT_DECIDED,
                "evaluations": n_inst,
                "distinct_nontrivial": n_nontriv,
                "rule": "one evaluation = one rule instance (function, call site, table entry, CFG path obligation) found in /repo's current source; "
                "non-trivial = the instance carried an obligation the rule had to discharge (e.g. a mutator whose write set meets the render read set), "
                "distinct by (rule, qualified function, normalised construct)",
                "obligations": n_inst,
                "discharged": n_inst - sum(len([f for f in r.findings if not f.informational]) for r in results),
                "samples": [s for r in results for s in r.samples][:24] or ["(no instance samples)"],
                "rules": [r.to_json() for r in results],
                "units": {
                    "root": project.root,
                    "modules": len(project.modules),
                    "functions": len(project.functions),
                    "classes": len(project.classes),
                    "source_digest": project.digest,
                },
                "known_findings": [f.to_json() for f in kn],
                "informational": [f.to_json() for f in info],
                "selftest": selftest,
                "exhaustive": False,
            },
            "assumptions": COMMON_ASSUMPTIONS + list(getattr(mod, "ASSUMPTIONS", [])),
            "wall_s": round(wall, 3),
            "violations": len(viol),
        }
        os.makedirs(os.path.join(HERE, "evidence"), exist_ok=True)
        with open(os.path.join(HERE, "evidence", f"{pid}.json"), "w", encoding="utf-8") as fh:
            json.dump(ev, fh, indent=1, sort_keys=False)
            fh.write("\n")
    print(f"{pid}: {n_inst} rule instances, {n_nontriv} non-trivial, {len(viol)} violation(s), {len(kn)} known finding(s), {wall:.2f}s")
    if viol:
        return 1
    if st_fail:
        print("ANALYSIS-ERROR self-test of the rules failed (see SELF-TEST-FAILURE lines); the verdict above is not to be trusted")
        return 2
    return 0


def replay(path: str, root):
    with open(path, encoding="utf-8") as fh:
        rec = json.load(fh)
    pid = rec["property"]
    project, mod, results = run_property(pid, "quick", root)
    for r in results:
        for f in r.findings:
            if f.key == rec["key"]:
                print(f"REPRODUCED property={pid}")
                print(f"  rule      : {f.rule} ({r.clause}: {r.description})")
                print(f"  location  : {f.file}:{f.line} in {f.where}")
                print(f"  construct : {f.construct}")
                print(f"  message   : {f.message}")
                for k, v in f.detail.items():
                    print(f"  {k:10s}: {v}")
                print(f"VIOLATION property={pid} replay={path}")
                return 1
    print(f"NOT-REPRODUCED property={pid}: no finding with key {rec['key']!r} on the current tree")
    return 0


if __name__ == "__main__":
    sys.exit(main())
