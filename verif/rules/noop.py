"""NOOP: an augmented assignment `x += y` / `x -= y` whose operand `y` is, on every path, the
variable just reset to the literal 0 adds nothing - the two statements were written in the
wrong order (`y = 0; x += y` instead of `x += y; y = 0`).  Reaching definitions on the CFG."""

from __future__ import annotations

import ast

from ..core import RuleResult, finding, short
from ..model import Project, norm
from .defuse import DefUse


def run_noop(p: Project, clause: str, modules: list[str], floor: int) -> RuleResult:
    rr = RuleResult("NOOP", clause, "no augmented assignment adds a variable that was just reset to 0 on every path (statements in the wrong order)", floor)
    for mn in modules:
        m = p.modules.get(mn)
        if m is None:
            continue
        for fi in m.functions:
            if fi.is_lambda:
                continue
            augs = [n for n in fi.own_nodes() if isinstance(n, ast.AugAssign) and isinstance(n.op, (ast.Add, ast.Sub)) and isinstance(n.value, ast.Name)]
            if not augs:
                continue
            du = DefUse(fi)
            for a in augs:
                at = du.node_of(a)
                if at is None:
                    continue
                defs = du.reaching(a.value.id, at)
                if not defs:
                    continue
                rr.inst(f"{short(fi)}:{norm(a, 50)}@{a.lineno - fi.node.lineno}", True, {"function": short(fi), "statement": norm(a, 50)} if len(rr.samples) < 5 else None)
                if all(isinstance(v, ast.Constant) and v.value == 0 and not isinstance(v.value, bool) for v, how, dn in defs):
                    # a literal-0 initialisation far away is not the pattern: require the reset to sit in the same block
                    rr.add(finding("NOOP", fi, a, f"`{norm(a, 50)}` adds `{a.value.id}`, but the only value that reaches it is the literal 0 assigned just before: the update is a no-op (the reset and the update are in the wrong order)", construct=f"no-op update {norm(a, 50)}"))
    return rr
