"""RET: return discipline of the keypress family.  A keypress() may return None (handled), the
key it was given (unhandled, unchanged), what a child / super() keypress returned, or the result
of a same-class helper that obeys the same discipline - never some other literal or value."""

from __future__ import annotations

import ast

from ..core import RuleResult, finding, short
from ..model import FuncInfo, Project, norm
from .defuse import DefUse
from .util import callee_name


def _ok_value(p: Project, fi: FuncInfo, du: DefUse, e, at, key_names: set, depth=0, seen=None) -> str | None:
    """None if *e* is an allowed return value, else a description of why not."""
    seen = seen if seen is not None else set()
    if e is None or (isinstance(e, ast.Constant) and e.value is None):
        return None
    if isinstance(e, ast.NamedExpr):
        return _ok_value(p, fi, du, e.value, at, key_names, depth, seen)
    if isinstance(e, ast.IfExp):
        return _ok_value(p, fi, du, e.body, at, key_names, depth, seen) or _ok_value(p, fi, du, e.orelse, at, key_names, depth, seen)
    if isinstance(e, ast.BoolOp):
        for v in e.values:
            r = _ok_value(p, fi, du, v, at, key_names, depth, seen)
            if r:
                return r
        return None
    if isinstance(e, ast.Name):
        if e.id in key_names:
            defs = du.reaching(e.id, at) if at is not None else []
            # the parameter itself or re-assignments of it
            for v, how, dn in defs:
                if how == "parameter":
                    continue
                if (e.id, dn.id) in seen:
                    continue
                seen.add((e.id, dn.id))
                if v is None:
                    return f"`{e.id}` re-assigned from an unknown value ({how})"
                r = _ok_value(p, fi, du, v, dn, key_names, depth + 1, seen)
                if r:
                    return r
            return None
        defs = du.reaching(e.id, at) if at is not None else []
        if not defs:
            return f"`{e.id}` is not the key, None or a keypress result"
        for v, how, dn in defs:
            if (e.id, dn.id) in seen:
                continue
            seen.add((e.id, dn.id))
            if v is None or how == "parameter":
                return f"`{e.id}` ({how}) is not derived from the key"
            r = _ok_value(p, fi, du, v, dn, key_names, depth + 1, seen)
            if r:
                return r
        return None
    if isinstance(e, ast.Call):
        nm = callee_name(e)
        if nm == "keypress":
            return None
        tg = p.resolve_call(e, fi)
        if tg and depth < 3:
            for t in tg:
                if isinstance(t, FuncInfo) and (t.cls is not None or t.parent is not None):
                    # parameters of the helper that receive the key at this call site
                    off = 1 if (t.cls is not None and t.parent is t.cls.parent_func and not t.is_static) else 0
                    kp = {t.params[i + off] for i, a in enumerate(e.args) if isinstance(a, ast.Name) and a.id in key_names and i + off < len(t.params)}
                    kp |= {kw.arg for kw in e.keywords if kw.arg and isinstance(kw.value, ast.Name) and kw.value.id in key_names}
                    if t.parent is fi or (t.parent is not None and t.parent is fi.parent):
                        kp |= key_names  # closure over the enclosing keypress's key
                    sub = check_function(p, t, depth + 1, frozenset(kp))
                    if sub:
                        return f"helper {short(t)}() returns {sub[0][1]}"
                    return None
        if nm in ("str", "encode", "decode") :
            return f"`{norm(e, 40)}` builds a new value"
        return f"`{norm(e, 40)}` is not a keypress result"
    if isinstance(e, ast.Subscript):
        # key translations through a table: self._command_map[key] is NOT the key
        return f"`{norm(e, 40)}` is not the key itself"
    if isinstance(e, ast.Constant):
        return f"literal {e.value!r}"
    return f"`{norm(e, 40)}`"


_CACHE: dict = {}


def check_function(p: Project, fi: FuncInfo, depth=0, key_params=frozenset()):
    k = (id(fi.node), key_params)
    if k in _CACHE:
        return _CACHE[k]
    _CACHE[k] = []
    du = DefUse(fi)
    params = fi.params
    key_names = {a for a in params if a in ("key", "k", "keys")} | set(key_params)
    if fi.name == "keypress" and len(params) >= 3:
        key_names.add(params[2])
    out = []
    for r in fi.own_nodes():
        if isinstance(r, ast.Return):
            why = _ok_value(p, fi, du, r.value, du.node_of(r), key_names, depth)
            if why:
                out.append((r, why))
    _CACHE[k] = out
    return out


def run_ret(p: Project, clause: str, floor: int, exempt: dict | None = None, only_classes=None) -> RuleResult:
    rr = RuleResult("RET", clause, "every keypress() returns None, the key it was given, or what a child / super() / same-class helper keypress returned", floor)
    exempt = exempt or {}
    for fi in p.functions.values():
        if fi.name != "keypress" or fi.cls is None or fi.is_lambda or fi.parent is not None and fi.parent is not fi.cls.parent_func:
            continue
        if only_classes is not None and not any(p.is_subclass(fi.cls, c) for c in only_classes):
            continue
        q = short(fi)
        if q in exempt:
            rr.exceptions_used.append(f"{q} - {exempt[q]}")
            continue
        bad = check_function(p, fi)
        n_ret = len([r for r in fi.own_nodes() if isinstance(r, ast.Return)])
        rr.inst(q, True, {"function": q, "returns": n_ret} if len(rr.samples) < 5 else None)
        for r, why in bad:
            rr.add(finding("RET", fi, r, f"keypress() returns {why}: an unhandled key does not come back unchanged (or a handled one is reported with a made-up value)", construct=norm(r, 90)))
    return rr
