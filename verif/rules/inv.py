"""E1 INV: a method that writes state read on the render path must reach _invalidate().

For a widget class C (analysed with C's own MRO):
  R(C)  = data attributes loaded by render / rows / pack and everything they reach through
          `self` (methods, property getters, super() calls, the delegate attribute of
          delegate_to_widget_mixin);
  for every other function m of the hierarchy (not __init__, not on the render path):
  a *write* is a store / delete / augmented store / subscript store / in-place mutator call
  on `self.a` with a in R(C), or a call to a same-object helper that is itself dirty.
  Obligation: no entry->exit path of m contains a write and no invalidating node.
An invalidating node is a statement that calls self._invalidate() / CanvasCache.invalidate,
calls a self/super method (or stores through a property setter) all of whose normal paths
invalidate, or mutates a Monitored(Focus)List attribute whose callbacks are registered to
invalidating callables (companion obligation (c), checked separately).
"""

from __future__ import annotations

import ast

from ..cfg import CFG
from ..core import RuleResult, finding, short, walk_no_nested
from ..model import ClassInfo, FuncInfo, Project, norm

ROOTS = ("render", "rows", "pack")
MUTATORS = {
    "append", "extend", "insert", "pop", "remove", "clear", "sort", "reverse", "update", "setdefault",
    "popitem", "add", "discard", "appendleft", "popleft", "__setitem__", "__delitem__",
}  # fmt: skip
MONITORED = {"MonitoredList", "MonitoredFocusList"}


class ClassCtx:
    def __init__(self, p: Project, C: ClassInfo):
        self.p = p
        self.C = C
        self._cfg: dict[int, CFG] = {}
        self._must: dict[str, bool | None] = {}
        self._dirty: dict[str, object] = {}
        self.monitored = {
            a for a, ts in p.attr_types(C).items() if any(p.is_subclass(t, "MonitoredList") for t in ts)
        }
        self.closure_funcs, self.R = self._closure()
        self.all_funcs = self._all_funcs()
        self.callers = self._callers()

    def cfg(self, fi: FuncInfo) -> CFG:
        c = self._cfg.get(id(fi))
        if c is None:
            c = self._cfg[id(fi)] = CFG(fi.node)
        return c

    def _all_funcs(self):
        out = []
        seen = set()
        for k in self.p.mro(self.C):
            for fi in self.p.all_class_functions(k):
                # only the definition that wins in C's MRO is live for C, but overridden
                # methods remain reachable via super(); keep all of them.
                if id(fi) not in seen:
                    seen.add(id(fi))
                    out.append(fi)
        return out

    def member(self, name, after=None):
        return self.p.find_member(self.C, name, after)

    def self_name(self, fi):
        return self.p._self_name(fi)

    # ---- what does an attribute access on self mean
    def classify_attr(self, fi: FuncInfo, n: ast.Attribute):
        """('data', name) | ('method', FuncInfo) | ('prop', PropInfo) | None for non-self."""
        sn = self.self_name(fi)
        v = n.value
        if isinstance(v, ast.Name) and sn and v.id == sn:
            r = self.member(n.attr)
        elif isinstance(v, ast.Call) and isinstance(v.func, ast.Name) and v.func.id == "super":
            r = self.member(n.attr, after=fi.cls)
        else:
            return None
        if r is None or r[0] == "classattr":
            return ("data", n.attr)
        if r[0] == "method":
            return ("method", r[1])
        return ("prop", r[1])

    def _closure(self):
        seen: dict[int, FuncInfo] = {}
        R: set[str] = set()
        work = []
        for root in ROOTS:
            r = self.member(root)
            if r and r[0] == "method":
                work.append(r[1])
            elif r and r[0] == "property" and r[1].getter:
                work.append(r[1].getter)
        while work:
            fi = work.pop()
            if id(fi) in seen:
                continue
            seen[id(fi)] = fi
            for n in ast.walk(fi.node):
                if isinstance(n, ast.Attribute):
                    c = self.classify_attr(fi, n)
                    if c is None:
                        continue
                    if c[0] == "data":
                        if isinstance(n.ctx, ast.Load):
                            R.add(c[1])
                    elif c[0] == "method":
                        work.append(c[1])
                    else:
                        pi = c[1]
                        if isinstance(n.ctx, ast.Load) and pi.getter:
                            work.append(pi.getter)
                        elif not isinstance(n.ctx, ast.Load) and pi.setter:
                            work.append(pi.setter)
                elif isinstance(n, ast.Call) and isinstance(n.func, ast.Name) and n.func.id == "get_delegate":
                    d = self.p.delegate_attr_of(self.C)
                    if d:
                        R.add(d)
        return seen, R

    def _callers(self):
        """name of self-method -> set of functions (of this hierarchy) that call it on self."""
        out: dict[int, set] = {}
        for fi in self.all_funcs:
            for n in ast.walk(fi.node):
                if isinstance(n, ast.Attribute):
                    c = self.classify_attr(fi, n)
                    if c and c[0] == "method":
                        out.setdefault(id(c[1]), set()).add(fi)
                    elif c and c[0] == "prop":
                        pi = c[1]
                        tgt = pi.getter if isinstance(n.ctx, ast.Load) else pi.setter
                        if tgt is not None:
                            out.setdefault(id(tgt), set()).add(fi)
        return out

    # ---- invalidation
    def stmt_exprs(self, node):
        """AST pieces evaluated at a CFG node."""
        if node.kind == "for":
            return [node.ast.iter, node.ast.target]
        if node.kind == "with":
            return [i.context_expr for i in node.ast.items]
        if node.kind == "handler" or node.ast is None:
            return []
        return [node.ast]

    def node_invalidates(self, node, fi) -> bool:
        for root in self.stmt_exprs(node):
            for n in walk_no_nested(root):
                if isinstance(n, ast.Call):
                    f = n.func
                    if isinstance(f, ast.Attribute):
                        if f.attr == "invalidate" and isinstance(f.value, ast.Name) and f.value.id == "CanvasCache":
                            return True
                        c = self.classify_attr(fi, f)
                        if c and c[0] == "method":
                            if c[1].name == "_invalidate" and c[1].cls is not None and c[1].cls.name == "Widget":
                                return True
                            if self.must_invalidate(c[1]):
                                return True
                        # mutator call on a monitored list attribute
                        if self._monitored_mutation_call(fi, f):
                            return True
                elif isinstance(n, ast.Attribute) and not isinstance(n.ctx, ast.Load):
                    c = self.classify_attr(fi, n)
                    if c and c[0] == "prop" and c[1].setter is not None and self.must_invalidate(c[1].setter):
                        return True
                    # self.contents.focus = x   (monitored focus list)
                    if n.attr == "focus" and self._is_monitored_expr(fi, n.value):
                        return True
                elif isinstance(n, ast.Subscript) and not isinstance(n.ctx, ast.Load):
                    if self._is_monitored_expr(fi, n.value):
                        return True
        return False

    def _is_monitored_expr(self, fi, e) -> bool:
        """e is `self.a` with a monitored, or `self.p` with p a property whose getter returns one."""
        if not isinstance(e, ast.Attribute):
            return False
        c = self.classify_attr(fi, e)
        if not c:
            return False
        if c[0] == "data":
            return c[1] in self.monitored
        if c[0] == "prop" and c[1].getter is not None:
            g = c[1].getter
            for n in g.own_nodes():
                if isinstance(n, ast.Return) and isinstance(n.value, ast.Attribute):
                    cc = self.classify_attr(g, n.value)
                    if cc and cc[0] == "data" and cc[1] in self.monitored:
                        return True
        return False

    def _monitored_mutation_call(self, fi, f: ast.Attribute) -> bool:
        return f.attr in MUTATORS | {"set_focus"} and self._is_monitored_expr(fi, f.value)

    def must_invalidate(self, fi: FuncInfo) -> bool:
        k = fi.qualname
        if k in self._must:
            return bool(self._must[k])
        self._must[k] = None  # in progress -> assume no
        if fi.name == "_invalidate" and fi.cls is not None and fi.cls.name == "Widget":
            self._must[k] = True
            return True
        cfg = self.cfg(fi)
        inv = [n for n in cfg.nodes if n.kind not in ("entry", "exit", "raise") and self.node_invalidates(n, fi)]
        ok = bool(inv) and cfg.must_pass(cfg.entry, inv, ends=[cfg.exit])
        self._must[k] = ok
        return ok

    # ---- writes
    def node_writes(self, node, fi):
        """Yield (attr, astnode, how) for writes to render-read data attributes at this CFG node."""
        for root in self.stmt_exprs(node):
            for n in walk_no_nested(root):
                if isinstance(n, ast.Attribute) and not isinstance(n.ctx, ast.Load):
                    c = self.classify_attr(fi, n)
                    if c and c[0] == "data" and c[1] in self.R:
                        yield c[1], n, "store"
                elif isinstance(n, ast.Subscript) and not isinstance(n.ctx, ast.Load) and isinstance(n.value, ast.Attribute):
                    c = self.classify_attr(fi, n.value)
                    if c and c[0] == "data" and c[1] in self.R and c[1] not in self.monitored:
                        yield c[1], n, "item store"
                elif isinstance(n, ast.Call) and isinstance(n.func, ast.Attribute):
                    f = n.func
                    if f.attr in MUTATORS and isinstance(f.value, ast.Attribute):
                        c = self.classify_attr(fi, f.value)
                        if c and c[0] == "data" and c[1] in self.R and c[1] not in self.monitored:
                            yield c[1], n, f"in-place {f.attr}()"
                    c = self.classify_attr(fi, f)
                    if c and c[0] == "method" and id(c[1]) not in self.closure_funcs and c[1].name != "__init__":
                        d = self.dirty(c[1])
                        if d:
                            yield d[0][0], n, f"call of dirty helper {short(c[1])}"
                if isinstance(n, ast.Attribute) and not isinstance(n.ctx, ast.Load):
                    c = self.classify_attr(fi, n)
                    if c and c[0] == "prop" and c[1].setter is not None and id(c[1].setter) not in self.closure_funcs:
                        d = self.dirty(c[1].setter)
                        if d:
                            yield d[0][0], n, f"store through dirty setter {short(c[1].setter)}"

    def dirty(self, fi: FuncInfo):
        """List of (attr, astnode, how, cfgnode) writes that can reach the normal exit of *fi*
        on a path with no invalidating node; [] if clean."""
        k = fi.qualname
        if k in self._dirty:
            return self._dirty[k] or []
        self._dirty[k] = []  # in progress
        cfg = self.cfg(fi)
        live = cfg.live()
        body = [n for n in cfg.nodes if n in live and n.kind not in ("entry", "exit", "raise")]
        inv = {n for n in body if self.node_invalidates(n, fi)}
        from_entry = cfg.reachable([cfg.entry], avoid=inv, include_start=True)
        out = []
        for n in body:
            if n in inv:
                continue
            ws = list(self.node_writes(n, fi))
            if not ws:
                continue
            if n not in from_entry:
                continue
            r = cfg.reachable([n], avoid=inv)
            if cfg.exit in r:
                for attr, an, how in ws:
                    out.append((attr, an, how, n))
        self._dirty[k] = out
        return out


def widget_classes(p: Project):
    return sorted((c for c in p.classes.values() if p.is_subclass(c, "Widget")), key=lambda c: c.qualname)


def run_inv(p: Project, clause: str, floor_classes: int, floor_nontrivial: int, exceptions: dict, only_classes=None) -> RuleResult:
    rr = RuleResult(
        "INV",
        clause,
        "every method that writes state read by render()/rows()/pack() reaches _invalidate() on all normal paths",
        floor=floor_classes,
    )
    n_methods = 0
    reported = set()
    for C in widget_classes(p):
        if only_classes and C.name not in only_classes:
            continue
        cx = ClassCtx(p, C)
        rr.inst(f"class {short(C.qualname)}", nontrivial=False)
        for fi in cx.all_funcs:
            if id(fi) in cx.closure_funcs or fi.name in ("__init__", "__new__", "_invalidate", "__del__"):
                continue
            if fi.is_static or fi.is_classmethod:
                continue
            n_methods += 1
            cfg = cx.cfg(fi)
            has_write = any(True for n in cfg.nodes if n.kind not in ("entry", "exit", "raise") for _ in cx.node_writes(n, fi))
            if not has_write:
                continue
            ident = f"{short(fi)}"
            d = cx.dirty(fi)
            rr.inst(ident, nontrivial=True, sample={"class": C.name, "method": short(fi), "writes_render_state": True, "dirty": bool(d)})
            if not d:
                continue
            # private helpers whose callers all take over the obligation are not reported here
            callers = cx.callers.get(id(fi), set())
            is_entry = not fi.name.startswith("_") or (fi.name.startswith("__") and fi.name.endswith("__")) or not callers
            if not is_entry:
                continue
            by_attr: dict[str, list] = {}
            for attr, an, how, node in d:
                by_attr.setdefault(attr, []).append((how, node))
            kept = {}
            for attr, items in by_attr.items():
                exc = exceptions.get(f"{short(fi)}:{attr}")
                if exc:
                    note = f"{short(fi)}:{attr} - {exc}"
                    if note not in rr.exceptions_used:
                        rr.exceptions_used.append(note)
                    continue
                kept[attr] = items
            if not kept:
                continue
            first = min((n for items in kept.values() for _, n in items), key=lambda n: n.lineno)
            f = finding(
                "INV",
                fi,
                first.stmt,
                f"writes {', '.join('self.' + a for a in sorted(kept))}, which {C.name}'s render path reads, "
                f"and can reach the end of {fi.name}() without _invalidate()",
                construct="render-state write without _invalidate()",
                attrs=sorted(kept),
                analysed_as=C.name,
                write_sites=[f"L{n.lineno}: {norm(n.stmt)} [{h}]" for items in kept.values() for h, n in items][:12],
            )
            if f.key in reported:
                continue
            reported.add(f.key)
            rr.add(f)
    rr.units = {"widget_classes": rr.instances - len(rr.nontrivial), "methods_scanned": n_methods}
    if len(rr.nontrivial) < floor_nontrivial:
        rr.floor = 10**9  # force floor failure with a clear message
        rr.description += f" (only {len(rr.nontrivial)} writer methods found, floor {floor_nontrivial})"
    return rr


# --------------------------------------------------------------------------- companions
def callable_invalidates(cx: ClassCtx, fi: FuncInfo, e) -> bool:
    """Is expression *e* (evaluated inside *fi*) a callable every call of which invalidates self?"""
    if isinstance(e, ast.Attribute):
        c = cx.classify_attr(fi, e)
        if c and c[0] == "method":
            return cx.must_invalidate(c[1])
        return False
    if isinstance(e, ast.Lambda):
        lam = cx.p.func_of_node.get(id(e))
        return lam is not None and cx.must_invalidate(lam)
    if isinstance(e, ast.Name):
        loc = cx.p.local_def(fi, e.id)
        return loc is not None and cx.must_invalidate(loc)
    return False


def run_inv_overrides(p: Project, clause: str, floor: int) -> RuleResult:
    """(b) every `_invalidate` override still invalidates on all paths, and a layout memo keyed by a
    size-derived value (compared with and stored from the same local on the render path) is reset by it."""
    rr = RuleResult("INV-MEMO", clause, "_invalidate overrides reach Widget._invalidate on all paths; size-keyed layout memos are reset by the class's _invalidate", floor)
    for C in widget_classes(p):
        cx = ClassCtx(p, C)
        # overrides
        ov = C.methods.get("_invalidate")
        if ov is not None and C.name != "Widget":
            rr.inst(f"override {short(ov)}", True, {"override": short(ov)})
            if not cx.must_invalidate(ov):
                rr.add(finding("INV-MEMO", ov, ov.node, "_invalidate override does not reach Widget._invalidate()/CanvasCache.invalidate on every normal path", construct="override without super()._invalidate()"))
        # memo keys: on the render path, `self.a` compared (==/!=) with local x and stored from x,
        # where the function making the comparison (with its self-callees) reads state that
        # methods off the render path can change
        ext_mutable = set(cx.monitored)
        for fi in cx.all_funcs:
            if id(fi) in cx.closure_funcs or fi.name in ("__init__", "_invalidate"):
                continue
            for n in ast.walk(fi.node):
                if isinstance(n, ast.Attribute) and not isinstance(n.ctx, ast.Load):
                    c = cx.classify_attr(fi, n)
                    if c and c[0] == "data" and c[1] in cx.R:
                        ext_mutable.add(c[1])

        def region_reads(f0):
            seen, reads, work = set(), set(), [f0]
            while work:
                g = work.pop()
                if id(g) in seen:
                    continue
                seen.add(id(g))
                for n in ast.walk(g.node):
                    if isinstance(n, ast.Attribute):
                        c = cx.classify_attr(g, n)
                        if not c:
                            continue
                        if c[0] == "data" and isinstance(n.ctx, ast.Load):
                            reads.add(c[1])
                        elif c[0] == "method" and c[1].name not in ROOTS:
                            work.append(c[1])
                        elif c[0] == "prop" and isinstance(n.ctx, ast.Load) and c[1].getter:
                            work.append(c[1].getter)
            return reads

        memo = {}
        for fi in cx.closure_funcs.values():
            if fi.cls is None or fi.cls not in p.mro(C):
                continue
            sn = cx.self_name(fi)
            compared, stored = {}, {}
            for n in ast.walk(fi.node):
                if isinstance(n, ast.Compare) and len(n.ops) == 1 and isinstance(n.ops[0], (ast.Eq, ast.NotEq)):
                    for a, b in ((n.left, n.comparators[0]), (n.comparators[0], n.left)):
                        if isinstance(a, ast.Attribute) and isinstance(a.value, ast.Name) and a.value.id == sn and isinstance(b, ast.Name):
                            # `old = self.a ... if self.a != old` compares the attribute with its own earlier value
                            # (a change detector), not with a size-derived key
                            own = any(isinstance(s_, ast.Assign) and any(isinstance(t, ast.Name) and t.id == b.id for t in s_.targets) and isinstance(s_.value, ast.Attribute) and s_.value.attr == a.attr and isinstance(s_.value.value, ast.Name) and s_.value.value.id == sn for s_ in ast.walk(fi.node))
                            if own:
                                continue
                            if (region_reads(fi) - {a.attr}) & ext_mutable:
                                compared.setdefault(a.attr, set()).add(b.id)
                elif isinstance(n, ast.Assign) and isinstance(n.value, ast.Name):
                    for t in n.targets:
                        if isinstance(t, ast.Attribute) and isinstance(t.value, ast.Name) and t.value.id == sn:
                            stored.setdefault(t.attr, set()).add(n.value.id)
            for a, names in compared.items():
                memo.setdefault(a, [set(), set()])[0].update(names)
            for a, names in stored.items():
                memo.setdefault(a, [set(), set()])[1].update(names)
        for a, (cmp_names, st_names) in sorted(memo.items()):
            if not (cmp_names and st_names):
                continue
            # stored somewhere on the render path of the hierarchy from a local, compared against a local
            r = cx.member(a)
            if r is not None and r[0] != "classattr":
                continue
            ident = f"memo {C.name}.{a}"
            resets = []
            for k in p.mro(C):
                o = k.methods.get("_invalidate")
                if o is None:
                    continue
                osn = o.self_name
                for n in ast.walk(o.node):
                    if isinstance(n, ast.Attribute) and not isinstance(n.ctx, ast.Load) and isinstance(n.value, ast.Name) and n.value.id == osn and n.attr == a:
                        resets.append(short(o))
            rr.inst(ident, True, {"class": C.name, "memo_key": a, "reset_in": resets})
            if not resets:
                anchor = next(iter(cx.closure_funcs.values()))
                rr.add(
                    finding(
                        "INV-MEMO",
                        short(C.qualname),
                        None,
                        f"{C.name} memoises layout under self.{a} (compared with and stored from a local on its render path) but no _invalidate in its MRO resets self.{a}: "
                        f"a mutator's _invalidate() would leave the stale layout in use",
                        construct=f"memo key self.{a} never reset",
                        file=C.relpath,
                    )
                )
    return rr


def run_inv_monitored(p: Project, clause: str, floor: int) -> RuleResult:
    """(c) every Monitored(Focus)List stored on a widget has its callbacks registered to invalidating callables."""
    rr = RuleResult("INV-MON", clause, "every Monitored(Focus)List held by a widget has modified (and focus-changed) callbacks that invalidate the widget", floor)
    for C in widget_classes(p):
        cx = ClassCtx(p, C)
        for a in sorted(cx.monitored):
            types = p.attr_types(C)[a]
            if any(p.is_subclass(t, "ListWalker") for t in types):
                continue  # list walkers signal 'modified' instead (C06.4)
            need = {"set_modified_callback"}
            if any(p.is_subclass(t, "MonitoredFocusList") for t in types):
                need.add("set_focus_changed_callback")
            # only the class that creates the list is responsible
            owner = None
            for k in p.mro(C):
                for fi in p.all_class_functions(k):
                    sn = fi.self_name
                    for n in fi.own_nodes():
                        if isinstance(n, (ast.Assign, ast.AnnAssign)):
                            tg = n.targets[0] if isinstance(n, ast.Assign) else n.target
                            if isinstance(tg, ast.Attribute) and isinstance(tg.value, ast.Name) and tg.value.id == sn and tg.attr == a:
                                owner = owner or k
            if owner is not C:
                continue
            got = {}
            for fi in cx.all_funcs:
                sn = cx.self_name(fi)
                for n in fi.own_nodes():
                    if isinstance(n, ast.Call) and isinstance(n.func, ast.Attribute) and n.func.attr in need and n.args:
                        v = n.func.value
                        if isinstance(v, ast.Attribute) and isinstance(v.value, ast.Name) and v.value.id == sn and v.attr == a:
                            got.setdefault(n.func.attr, []).append((fi, n))
            for reg in sorted(need):
                ident = f"{C.name}.{a}.{reg}"
                regs = got.get(reg, [])
                ok = bool(regs) and all(callable_invalidates(cx, fi, n.args[0]) for fi, n in regs)
                rr.inst(ident, True, {"class": C.name, "list": a, "registration": reg, "callbacks": [norm(n.args[0], 60) for _, n in regs], "invalidates": ok})
                if not regs:
                    rr.add(finding("INV-MON", short(C.qualname), None, f"{C.name}.{a} is a monitored list but {reg}() is never called on it: edits of the list would not invalidate the widget", construct=f"self.{a}.{reg} missing", file=C.relpath, line=C.node.lineno))
                elif not ok:
                    fi, n = regs[0]
                    rr.add(finding("INV-MON", fi, n, f"callback registered with {reg}() on self.{a} does not reach _invalidate() on every path", construct=f"self.{a}.{reg}({norm(n.args[0], 60)})"))
    return rr


def run_inv_bypass(p: Project, clause: str, floor: int) -> RuleResult:
    """(d) A class that overrides _invalidate (to reset a layout memo) must never invalidate itself through a
    *base* _invalidate (super()._invalidate(), super(C, self)._invalidate(), Base._invalidate(self)) outside that
    override: the canvas cache is emptied but the memo keyed by size survives, so the next render reuses the
    layout computed for the old state."""
    rr = RuleResult("INV-BYPASS", clause, "classes with an _invalidate override never call a base class's _invalidate directly outside the override", floor)
    for C in widget_classes(p):
        ov = C.methods.get("_invalidate")
        if ov is None or C.name == "Widget":
            continue
        n_calls = 0
        for fi in p.functions.values():
            # functions (incl. lambdas / nested defs) lexically inside class C
            root = fi
            while root.parent is not None:
                root = root.parent
            if root.cls is not C and fi.cls is not C:
                continue
            if fi is ov:
                continue
            for n in fi.own_nodes():
                if not (isinstance(n, ast.Call) and isinstance(n.func, ast.Attribute) and n.func.attr == "_invalidate"):
                    continue
                v = n.func.value
                n_calls += 1
                base_call = (isinstance(v, ast.Call) and isinstance(v.func, ast.Name) and v.func.id == "super") or (isinstance(v, ast.Name) and v.id[:1].isupper() and v.id != C.name)
                if base_call:
                    rr.add(finding("INV-BYPASS", fi, n, f"`{norm(n, 60)}` invalidates {C.name} through a base class, bypassing {C.name}._invalidate() which resets the layout memo: the widths / layout computed for the old state are reused by the next render at the same size", construct=f"base _invalidate called in {C.name}: {norm(n, 60)}"))
        rr.inst(f"{short(ov)}", True, {"class": C.name, "invalidate_calls_checked": n_calls} if len(rr.samples) < 6 else None)
    return rr


# --------------------------------------------------------------------------- INV-RENDER
def run_inv_render_write(p: Project, clause: str, floor: int, exceptions: dict, only_classes=None) -> RuleResult:
    """State that render() reads *and* the render path itself rewrites (a scroll position clamped for the size at
    hand, a view shift) is a hidden input of every canvas already cached for another size: the cache key contains
    the size and the focus flag, not that state.  A render-path store to such an attribute must therefore come
    with _invalidate() whenever the value changes: either every path through the storing function (or through
    every one of its callers on the render path) passes an invalidating call, or the store is followed by the
    `if self.<attr> != <saved value>: self._invalidate()` idiom.  Size-keyed memos (`*cache*` attributes, checked
    by INV-MEMO / C06.7) are not state in this sense; other exemptions are listed one by one in the table."""
    rr = RuleResult("INV-RENDER", clause, "a render-path method that rewrites state render() reads drops the canvases cached for other sizes (_invalidate) when the value changes", floor=floor)
    seen_keys = set()
    for C in widget_classes(p):
        if only_classes and C.name not in only_classes:
            continue
        cx = ClassCtx(p, C)

        def covered(fi, node, attr, depth=0, stack=()):
            cfg = cx.cfg(fi)
            invs = [n for n in cfg.nodes if n.kind not in ("entry", "exit", "raise") and cx.node_invalidates(n, fi)]
            if attr is not None:
                # `if self.X != saved: self._invalidate()`
                for t in cfg.nodes:
                    if t.kind == "test" and isinstance(t.ast, ast.Compare) and len(t.ast.ops) == 1 and isinstance(t.ast.ops[0], ast.NotEq):
                        sides = [t.ast.left, t.ast.comparators[0]]
                        if any(isinstance(x, ast.Attribute) and x.attr == attr and isinstance(x.value, ast.Name) and x.value.id == cx.self_name(fi) for x in sides):
                            tr = cfg.reachable_from_edges([(t, "T")], avoid=invs)
                            if cfg.exit not in tr:
                                invs.append(t)
            if invs and (cfg.dominated(node, invs) or cfg.must_pass(node, invs, ends=[cfg.exit], labels=("T", "F", "n"))):
                return True
            if depth > 4 or id(fi) in stack:
                return False
            callers = [g for g in cx.callers.get(id(fi), set()) if id(g) in cx.closure_funcs]
            if not callers:
                return False
            for g in callers:
                gcfg = cx.cfg(g)
                sites = []
                for n in gcfg.nodes:
                    for root in cx.stmt_exprs(n):
                        for x in walk_no_nested(root):
                            if isinstance(x, ast.Attribute):
                                c = cx.classify_attr(g, x)
                                if c and c[0] == "method" and c[1] is fi:
                                    sites.append(n)
                if not sites or not all(covered(g, s, None, depth + 1, (*stack, id(fi))) for s in sites):
                    return False
            return True

        for fi in cx.closure_funcs.values():
            if fi.name in ("__init__", "_invalidate", "__new__") or fi.is_static or fi.is_classmethod:
                continue
            cfg = cx.cfg(fi)
            for node in cfg.nodes:
                if node.kind in ("entry", "exit", "raise"):
                    continue
                for attr, an, how in cx.node_writes(node, fi):
                    if how != "store" or "cache" in attr.lower():
                        continue
                    key = f"{short(fi)}:{attr}"
                    if key in seen_keys:
                        continue
                    exc = exceptions.get(key)
                    if exc:
                        seen_keys.add(key)
                        rr.inst(key, True)
                        rr.exceptions_used.append(f"{key} - {exc}")
                        continue
                    ok = covered(fi, node, attr)
                    if ok:
                        # all stores of this attr in fi must be covered, keep checking other nodes
                        rr.inst(f"{key}@{norm(node.stmt, 30)}", True, {"class": C.name, "method": short(fi), "attribute": attr, "store": norm(node.stmt, 60)} if len(rr.samples) < 8 else None)
                        continue
                    seen_keys.add(key)
                    rr.inst(key, True)
                    rr.add(finding("INV-RENDER", fi, node.stmt, f"`{norm(node.stmt, 60)}` rewrites self.{attr} on the render path of {C.name} (render() reads it) and can finish without _invalidate(): canvases cached for other sizes keep showing the old value while the widget reports the new one (render at size A, then at size B, then at A again serves the stale canvas)", construct=f"render-path store to {attr} without _invalidate()", analysed_as=C.name))
    return rr


def run_inv_before_emit(p: Project, clause: str, floor: int, only_classes=None) -> RuleResult:
    """A signal emission hands control to user code that may raise (and the application may catch it and carry on).
    When a method has written render state and emits a signal *before* it invalidated, an exception from a handler
    leaves the widget changed but its cached canvases - and those of its ancestors - in place.  So: from every
    render-state write, every path to an emission (`self._emit(..)`, `emit_signal(..)`) passes an invalidating node.
    (Edit.set_edit_text: the cursor clamp through the edit_pos setter invalidates between storing the new text and
    emitting 'postchange'.)"""
    rr = RuleResult("INV-EMIT", clause, "a render-state write is invalidated before the method emits a signal (handlers are user code and may raise)", floor=floor)
    seen = set()
    for C in widget_classes(p):
        if only_classes and C.name not in only_classes:
            continue
        cx = ClassCtx(p, C)
        for fi in cx.all_funcs:
            if fi.qualname in seen or id(fi) in cx.closure_funcs or fi.name in ("__init__", "__new__", "_invalidate", "__del__") or fi.is_static or fi.is_classmethod:
                continue
            cfg = cx.cfg(fi)
            emits = [n for n in cfg.nodes if n.ast is not None and n.kind not in ("entry", "exit", "raise") and any(isinstance(c, ast.Call) and ((isinstance(c.func, ast.Attribute) and c.func.attr in ("_emit", "emit_signal")) or (isinstance(c.func, ast.Name) and c.func.id == "emit_signal")) for c in ast.walk(n.ast) if not isinstance(n.ast, (ast.FunctionDef, ast.ClassDef)))]
            if not emits:
                continue
            body = [n for n in cfg.nodes if n.kind not in ("entry", "exit", "raise")]
            inv = {n for n in body if cx.node_invalidates(n, fi)}
            writes = [(n, list(cx.node_writes(n, fi))) for n in body if n not in inv]
            writes = [(n, ws) for n, ws in writes if ws]
            if not writes:
                continue
            seen.add(fi.qualname)
            for n, ws in writes:
                r = cfg.reachable([n], avoid=inv)
                hit = [e for e in emits if e in r and e is not n]
                ident = f"{short(fi)}: {norm(n.stmt, 40)}"
                rr.inst(ident, True, {"method": short(fi), "write": norm(n.stmt, 60), "emissions": [norm(e.stmt, 50) for e in emits], "invalidated_before_every_emission": not hit} if len(rr.samples) < 8 else None)
                if hit:
                    attrs = sorted({a for a, _an, _how in ws})
                    rr.add(finding("INV-EMIT", fi, n.stmt, f"`{norm(n.stmt, 60)}` writes {', '.join('self.' + a for a in attrs)} (read by {C.name}'s render path) and `{norm(hit[0].stmt, 50)}` can be reached without _invalidate() in between: a handler that raises leaves the widget changed while its cached canvases (and its ancestors') still show the old state", construct=f"emission before invalidation of {','.join(attrs)}", analysed_as=C.name))
    return rr
