"""E7 CANV / GUARD: canvas typestate.

GUARD  every method of Canvas / CompositeCanvas (and subclasses) that writes canvas state
       (shards, coords, children, shortcuts, depends_on) is dominated, on every path to the
       write, by the finalised test  `if self.widget_info [and ...]: raise self._finalized_error`.
CANV   every receiver of a canvas mutator anywhere in the package is FRESH: all its reaching
       definitions are canvas constructors (CompositeCanvas(x), CanvasCombine/Join/Overlay(..),
       SolidCanvas, TextCanvas, apply_text_layout) or copies of fresh locals - never the result
       of a render() call, a cache fetch, a parameter or an element of a collection.
"""

from __future__ import annotations

import ast

from ..cfg import CFG
from ..core import RuleResult, finding, short, walk_no_nested
from ..model import AnalysisError, Project, norm

CANVAS_STATE = {"shards", "coords", "children", "shortcuts", "depends_on"}
INPLACE = {"append", "extend", "insert", "pop", "remove", "clear", "update", "setdefault", "popitem", "sort", "reverse"}
MUTATORS = {
    "trim", "trim_end", "pad_trim_left_right", "pad_trim_top_bottom", "overlay", "fill_attr",
    "fill_attr_apply", "set_depends", "set_cursor", "set_pop_up",
}  # fmt: skip
ATTR_STORES = {"cursor", "shards", "coords", "children", "shortcuts", "depends_on", "pop_up"}
FRESH_CTORS = {
    "CompositeCanvas", "CanvasCombine", "CanvasJoin", "CanvasOverlay", "SolidCanvas", "TextCanvas",
    "apply_text_layout", "BlankCanvas",
}  # fmt: skip
GUARD_EXEMPT = {"__init__", "finalize"}


def _writes_canvas_state(expr, sn):
    """Yield (attr, node) for stores to self.<canvas state> inside expr."""
    for n in walk_no_nested(expr):
        if isinstance(n, ast.Attribute) and not isinstance(n.ctx, ast.Load):
            if isinstance(n.value, ast.Name) and n.value.id == sn and n.attr in CANVAS_STATE:
                yield n.attr, n
        elif isinstance(n, ast.Subscript) and not isinstance(n.ctx, ast.Load):
            v = n.value
            if isinstance(v, ast.Attribute) and isinstance(v.value, ast.Name) and v.value.id == sn and v.attr in CANVAS_STATE:
                yield v.attr, n
        elif isinstance(n, ast.Call) and isinstance(n.func, ast.Attribute) and n.func.attr in INPLACE:
            v = n.func.value
            if isinstance(v, ast.Attribute) and isinstance(v.value, ast.Name) and v.value.id == sn and v.attr in CANVAS_STATE:
                yield v.attr, n


def _is_guard(node, sn) -> bool:
    """test node `self.widget_info ...` whose true branch raises self._finalized_error."""
    if node.kind != "test":
        return False
    reads = any(
        isinstance(n, ast.Attribute) and isinstance(n.value, ast.Name) and n.value.id == sn and n.attr in ("widget_info", "_widget_info")
        for n in ast.walk(node.ast)
    )
    if not reads:
        return False
    for t, lab in node.succ:
        if lab == "T":
            if t.kind == "raisestmt" and t.ast.exc is not None and "_finalized_error" in ast.unparse(t.ast.exc):
                return True
    return False


def run_guard(p: Project, clause: str, floor: int) -> RuleResult:
    rr = RuleResult("GUARD", clause, "every canvas method that writes shards/coords/children/shortcuts/depends_on tests the finalised flag first", floor)
    classes = [c for c in p.classes.values() if p.is_subclass(c, "Canvas") and c.module.name == "urwid.canvas"]
    if not classes:
        raise AnalysisError("GUARD: no Canvas classes found in urwid/canvas.py")
    for c in sorted(classes, key=lambda c: c.qualname):
        for fi in p.all_class_functions(c):
            if fi.name in GUARD_EXEMPT:
                continue
            sn = fi.self_name
            if not sn:
                continue
            cfg = CFG(fi.node)
            live = cfg.live()
            guards = [n for n in cfg.nodes if _is_guard(n, sn)]
            wnodes = []
            for n in cfg.nodes:
                if n not in live or n.ast is None or n.kind in ("handler",):
                    continue
                exprs = [n.ast] if n.kind not in ("for", "with") else ([n.ast.iter, n.ast.target] if n.kind == "for" else [i.context_expr for i in n.ast.items])
                for e in exprs:
                    ws = list(_writes_canvas_state(e, sn))
                    if ws:
                        wnodes.append((n, ws))
            if not wnodes:
                continue
            ident = short(fi)
            rr.inst(ident, True, {"method": ident, "state_writes": sorted({a for _, ws in wnodes for a, _ in ws}), "guards": len(guards)})
            for n, ws in wnodes:
                if not cfg.dominated(n, guards):
                    rr.add(
                        finding(
                            "GUARD",
                            fi,
                            n.stmt,
                            f"{fi.name}() writes canvas state ({', '.join(sorted({a for a, _ in ws}))}) on a path that has not tested "
                            f"`self.widget_info` / raised _finalized_error: a cached (finalised) canvas could be modified",
                            construct=f"unguarded write of {', '.join(sorted({a for a, _ in ws}))}",
                        )
                    )
                    break
    return rr


# --------------------------------------------------------------------------- CANV


def _defs_of(cfg: CFG, fi):
    """name -> list of (cfgnode, value expr or None-if-unknown, how)."""
    defs: dict[str, list] = {}

    def bind(target, value, node, how="assign"):
        if isinstance(target, ast.Name):
            defs.setdefault(target.id, []).append((node, value, how))
        elif isinstance(target, (ast.Tuple, ast.List)):
            for i, t in enumerate(target.elts):
                v = None
                if isinstance(value, (ast.Tuple, ast.List)) and len(value.elts) == len(target.elts):
                    v = value.elts[i]
                bind(t, v, node, "unpack" if v is None else how)
        elif isinstance(target, ast.Starred):
            bind(target.value, None, node, "unpack")

    for n in cfg.nodes:
        a = n.ast
        if a is None:
            continue
        if n.kind == "for":
            bind(a.target, None, n, "loop element")
            continue
        if n.kind == "with":
            for it in a.items:
                if it.optional_vars is not None:
                    bind(it.optional_vars, None, n, "with")
            continue
        if n.kind == "handler":
            if a.name:
                defs.setdefault(a.name, []).append((n, None, "except"))
            continue
        if isinstance(a, ast.Assign):
            for t in a.targets:
                bind(t, a.value, n)
        elif isinstance(a, ast.AnnAssign) and a.value is not None:
            bind(a.target, a.value, n)
        elif isinstance(a, ast.AugAssign):
            bind(a.target, None, n, "augassign")
        for sub in walk_no_nested(a) if not isinstance(a, (ast.FunctionDef, ast.AsyncFunctionDef, ast.ClassDef)) else []:
            if isinstance(sub, ast.NamedExpr):
                bind(sub.target, sub.value, n, "walrus")
    for prm in fi.all_params:
        defs.setdefault(prm, []).append((cfg.entry, None, "parameter"))
    return defs


def _classify_value(v, defs, depth=0):
    """'fresh' | description of why not."""
    if v is None:
        return "unknown value"
    if isinstance(v, ast.Call):
        f = v.func
        name = f.id if isinstance(f, ast.Name) else f.attr if isinstance(f, ast.Attribute) else None
        if name in FRESH_CTORS:
            return "fresh"
        if name == "render":
            return "result of a render() call (finalised, possibly cached)"
        if name == "fetch":
            return "canvas fetched from the cache"
        return f"result of {name}()"
    if isinstance(v, ast.Name):
        return ("alias", v.id)
    if isinstance(v, ast.IfExp):
        a = _classify_value(v.body, defs, depth + 1)
        b = _classify_value(v.orelse, defs, depth + 1)
        return a if a != "fresh" else b
    return f"value of `{norm(v, 60)}`"


def _reaching(cfg: CFG, defs, name, use_node, seen=None):
    """Yield (value, how, defnode) for definitions of *name* reaching *use_node*."""
    all_def_nodes = {d[0] for d in defs.get(name, [])}
    for dn, v, how in defs.get(name, []):
        others = all_def_nodes - {dn}
        if dn is use_node:
            # a def at the use node itself reaches only via a cycle
            r = cfg.reachable([dn], avoid=others)
            if use_node in r:
                yield v, how, dn
            continue
        r = cfg.reachable([dn], avoid=others)
        if use_node in r:
            yield v, how, dn


def run_canv(p: Project, clause: str, floor: int, exceptions: dict, extra_root: str | None = None) -> RuleResult:
    rr = RuleResult("CANV", clause, "every receiver of a canvas mutator is a freshly constructed canvas on all reaching definitions (never a render() result, cache fetch, parameter or collection element)", floor)
    n_funcs = 0
    for fi in p.functions.values():
        if fi.cls is not None and p.is_subclass(fi.cls, "Canvas") and fi.module.name == "urwid.canvas":
            continue  # the canvas classes' own methods operate on self (GUARD covers them)
        uses = []
        for n in fi.own_nodes():
            if isinstance(n, ast.Call) and isinstance(n.func, ast.Attribute) and n.func.attr in MUTATORS:
                uses.append((n.func.value, n, f".{n.func.attr}()"))
            elif isinstance(n, ast.Attribute) and not isinstance(n.ctx, ast.Load) and n.attr in ATTR_STORES:
                uses.append((n.value, n, f".{n.attr} = "))
            elif isinstance(n, ast.Subscript) and not isinstance(n.ctx, ast.Load) and isinstance(n.value, ast.Attribute) and n.value.attr in ("coords", "shortcuts"):
                uses.append((n.value.value, n, f".{n.value.attr}[...] = "))
            elif isinstance(n, ast.Call) and isinstance(n.func, ast.Attribute) and n.func.attr in INPLACE and isinstance(n.func.value, ast.Attribute) and n.func.value.attr in ("coords", "shortcuts", "shards", "children"):
                uses.append((n.func.value.value, n, f".{n.func.value.attr}.{n.func.attr}()"))
        if not uses:
            continue
        n_funcs += 1
        cfg = CFG(fi.node)
        defs = _defs_of(cfg, fi)
        # map ast node -> cfg node
        owner = {}
        for cn in cfg.nodes:
            if cn.ast is None:
                continue
            roots = [cn.ast] if cn.kind not in ("for", "with", "handler") else ([cn.ast.iter] if cn.kind == "for" else [i.context_expr for i in cn.ast.items] if cn.kind == "with" else [])
            for r in roots:
                for sub in walk_no_nested(r):
                    owner.setdefault(id(sub), cn)
        sn = p._self_name(fi)
        for recv, use, what in uses:
            if isinstance(recv, ast.Name) and recv.id == sn:
                continue  # self.cursor = ... etc. on non-canvas objects
            if not isinstance(recv, ast.Name):
                # self.x.trim() / obj.attr.cursor = ...: only flag when the attribute chain ends in a canvas-typed call
                if isinstance(recv, ast.Call):
                    why = _classify_value(recv, defs)
                    ident = f"{short(fi)}|{norm(use, 80)}"
                    rr.inst(ident, True)
                    if why != "fresh":
                        key = f"{short(fi)}:{norm(use, 80)}"
                        if key in exceptions:
                            rr.exceptions_used.append(f"{key} - {exceptions[key]}")
                            continue
                        rr.add(finding("CANV", fi, use, f"canvas mutator{what} applied to {why}"))
                continue
            cn = owner.get(id(use))
            if cn is None:
                continue
            ident = f"{short(fi)}|{recv.id}{what}"
            verdicts = []
            work = [(recv.id, cn, 0)]
            seen = set()
            while work:
                name, at, depth = work.pop()
                if (name, at.id) in seen or depth > 6:
                    continue
                seen.add((name, at.id))
                found = False
                for v, how, dn in _reaching(cfg, defs, name, at):
                    found = True
                    if how in ("parameter", "loop element", "unpack", "with", "except", "augassign"):
                        verdicts.append(f"{how} `{name}`")
                        continue
                    c = _classify_value(v, defs)
                    if isinstance(c, tuple):
                        work.append((c[1], dn, depth + 1))
                    elif c != "fresh":
                        verdicts.append(c)
                if not found:
                    verdicts.append(f"`{name}` has no local definition (global / closure variable)")
            is_canvas_like = True
            rr.inst(ident, True, {"function": short(fi), "receiver": recv.id, "use": norm(use, 80), "fresh": not verdicts})
            if verdicts and is_canvas_like:
                key = f"{short(fi)}:{what.strip()}"  # keyed by function + mutator, not by the local's name
                if key in exceptions:
                    rr.exceptions_used.append(f"{key} - {exceptions[key]}")
                    continue
                rr.add(
                    finding(
                        "CANV",
                        fi,
                        use,
                        f"canvas mutator `{recv.id}{what.strip()}` may be applied to a canvas that is not freshly constructed: {'; '.join(sorted(set(verdicts)))}",
                        construct=f"{recv.id}{what.strip()}",
                        reasons=sorted(set(verdicts)),
                    )
                )
    rr.units = {"functions_with_canvas_mutation": n_funcs}
    return rr


# --------------------------------------------------------------------------- DEPENDS
LEAF_CTORS = {"SolidCanvas", "TextCanvas", "BlankCanvas", "apply_text_layout"}
CHILD_QUERIES = {"render", "rows", "pack", "cols"}


def run_depends(p: Project, clause: str, floor: int) -> RuleResult:
    """A render() that asked a child widget something (render/rows/pack) and then answers with a canvas that
    does not contain the child's canvas (a freshly made Solid/Text canvas) must declare the dependency with
    set_depends([...]); otherwise CanvasCache.store finds no child and caches the result - and every
    ancestor - unconditionally, so later changes of the child never show."""
    from .defuse import DefUse

    rr = RuleResult("DEPENDS", clause, "a render() result that replaces a child's canvas by a freshly built leaf canvas declares its dependency on the child (set_depends)", floor)
    for fi in p.functions.values():
        if fi.name != "render" or fi.cls is None or fi.is_lambda or not p.is_subclass(fi.cls, "Widget"):
            continue
        sn = fi.self_name
        du = DefUse(fi)
        cfg = du.cfg
        queries = []
        for n in cfg.nodes:
            if n.ast is None:
                continue
            for r in ([n.ast] if n.kind not in ("for", "with", "handler") else [n.ast.iter] if n.kind == "for" else []):
                for x in walk_no_nested(r):
                    if isinstance(x, ast.Call) and isinstance(x.func, ast.Attribute) and x.func.attr in CHILD_QUERIES:
                        v = x.func.value
                        if isinstance(v, ast.Name) and v.id == sn:
                            continue
                        if isinstance(v, ast.Call) and isinstance(v.func, ast.Name) and v.func.id == "super":
                            continue
                        # a widget-valued receiver: self.<attr> / local bound from self.<attr> or contents
                        txt = ast.unparse(du.expand(v, n))
                        if txt.startswith(f"{sn}.") and "canv" not in txt.lower():
                            queries.append(n)
        if not queries:
            continue
        rr.inst(short(fi), True, {"render": short(fi), "child_queries": len(queries)} if len(rr.samples) < 5 else None)
        deps = [n for n in cfg.nodes if n.ast is not None and any(isinstance(x, ast.Call) and isinstance(x.func, ast.Attribute) and x.func.attr == "set_depends" for x in walk_no_nested(n.ast) if not isinstance(n.ast, (ast.FunctionDef, ast.ClassDef)))]
        # leaf definitions reachable from a child query
        qreach = cfg.reachable(queries)
        for n in cfg.nodes:
            a = n.ast
            leaf_val = None
            if isinstance(a, ast.Assign) and isinstance(a.value, ast.Call) and callee_name_(a.value) in LEAF_CTORS:
                leaf_val = a
            elif n.kind == "return" and isinstance(a.value, ast.Call) and callee_name_(a.value) in LEAF_CTORS:
                leaf_val = a
            if leaf_val is None or n not in qreach:
                continue
            # paths from this definition to a return of (a wrapper of) it without set_depends
            name = a.targets[0].id if isinstance(a, ast.Assign) and isinstance(a.targets[0], ast.Name) else None
            rets = [r for r in cfg.nodes if r.kind == "return"]
            if n.kind == "return":
                bad = [n]
            else:
                reach = cfg.reachable([n], avoid=deps)
                bad = []
                for r in rets:
                    if r not in reach or r.ast.value is None:
                        continue
                    # is the returned value (still) the leaf, possibly wrapped in CompositeCanvas?
                    chain = ast.unparse(du.expand(r.ast.value, r))
                    if any(ct + "(" in chain for ct in LEAF_CTORS) and ".render(" not in chain and "CanvasCombine" not in chain and "CanvasJoin" not in chain and "CanvasOverlay" not in chain:
                        bad.append(r)
                    elif name is not None:
                        u = du.reaching(name, r)
                        if isinstance(r.ast.value, ast.Name) and any(dn is n or (v is not None and isinstance(v, ast.Call) and callee_name_(v) == "CompositeCanvas" and v.args and isinstance(v.args[0], ast.Name) and v.args[0].id == name and n in [d[2] for d in du.reaching(name, dn)]) for v, how, dn in du.reaching(r.ast.value.id, r)):
                            bad.append(r)
            for r in bad:
                rr.add(finding("DEPENDS", fi, r.stmt, f"render() asked a child widget for its size/canvas and returns a freshly built `{callee_name_(leaf_val.value)}` in its place without set_depends([...]): the cache records no dependency, so this widget and all its ancestors keep the stale canvas when the child changes", construct=f"leaf canvas returned without set_depends: {norm(leaf_val, 60)}"))
    return rr


def callee_name_(call):
    f = call.func
    return f.id if isinstance(f, ast.Name) else f.attr if isinstance(f, ast.Attribute) else None


# --------------------------------------------------------------------------- HIDDEN-DEP
def _normal_reach(cfg, starts, avoid=(), from_edges=None):
    """reachability over non-exception edges"""
    avoid = set(avoid)
    seen, work = set(), []
    if from_edges is not None:
        for n, want in from_edges:
            for t, lab in n.succ:
                if lab == want and t not in avoid and t not in seen:
                    seen.add(t)
                    work.append(t)
    else:
        work = list(starts)
    while work:
        n = work.pop()
        for t, lab in n.succ:
            if lab == "e" or t in avoid or t in seen:
                continue
            seen.add(t)
            work.append(t)
    return seen


def run_hidden_dep(p: Project, clause: str, floor: int) -> RuleResult:
    """A container's render() that can complete normally *without* rendering one of its children (a Pile item
    with 0 rows, a Columns column with no width, a Frame header trimmed away) has still consulted that child for
    the layout (rows()/pack()), but the child's canvas is not among the children of the result: CanvasCache.store
    derives the dependencies from the child canvases, so the hidden child is not one of them and changing it
    (an empty Text that gets text, an empty inner Pile that gets an item) leaves the cached parent canvas in place.
    Such a render() must declare the dependency itself: a set_depends() call, reachable from the skipping path,
    whose argument names the source of the skipped child (the contents list / the attribute)."""
    from .defuse import DefUse

    rr = RuleResult("HIDDEN-DEP", clause, "a render() that can finish without rendering one of its children declares the dependency on the hidden child with set_depends()", floor)
    for fi in p.functions.values():
        if fi.name != "render" or fi.cls is None or fi.is_lambda or not p.is_subclass(fi.cls, "Widget"):
            continue
        sn = fi.self_name
        du = DefUse(fi)
        cfg = du.cfg
        groups: dict[str, list] = {}
        for n in cfg.nodes:
            if n.ast is None or n.kind in ("with", "handler"):
                continue
            root = n.ast.iter if n.kind == "for" else n.ast
            for x in walk_no_nested(root):
                if not (isinstance(x, ast.Call) and isinstance(x.func, ast.Attribute) and x.func.attr == "render"):
                    continue
                v = x.func.value
                if isinstance(v, ast.Name) and v.id == sn:
                    continue
                if isinstance(v, ast.Call) and isinstance(v.func, ast.Name) and v.func.id == "super":
                    continue
                # a temporary decoration around a child: Filler(self.header, ...).render(...)
                if isinstance(v, ast.Call) and v.args:
                    v = v.args[0]
                txt = ast.unparse(du.expand(v, n))
                src = None
                for a in ast.walk(ast.parse(txt, mode="eval")):
                    if isinstance(a, ast.Attribute) and isinstance(a.value, ast.Name) and a.value.id == sn and "canv" not in a.attr.lower():
                        src = a.attr
                        break
                if src is None and isinstance(v, ast.Name):
                    # loop variable of a loop over (a zip of) the contents
                    for h in cfg.nodes:
                        if h.kind == "for" and any(isinstance(t, ast.Name) and t.id == v.id for t in ast.walk(h.ast.target)) and any(s is x for b in h.ast.body for s in ast.walk(b)):
                            for a in ast.walk(h.ast.iter):
                                if isinstance(a, ast.Attribute) and isinstance(a.value, ast.Name) and a.value.id == sn:
                                    src = a.attr
                if src is None:
                    continue
                groups.setdefault(src, []).append((n, x))
        # only children the layout asks something (rows(size)/pack(size) somewhere in render's self-call closure;
        # canvas.rows()/cols() take no argument):
        # a scratch widget the class fills itself, a font, ... is not a hidden input
        closure, work = {}, [fi]
        while work:
            g = work.pop()
            if id(g) in closure:
                continue
            closure[id(g)] = g
            for c in g.own_nodes():
                if isinstance(c, ast.Call) and isinstance(c.func, ast.Attribute) and isinstance(c.func.value, ast.Name) and c.func.value.id == g.self_name:
                    for t in p.resolve_call(c, g) or []:
                        if hasattr(t, "own_nodes"):
                            work.append(t)
        def consulted(src):
            for g in closure.values():
                reads = any(isinstance(a, ast.Attribute) and isinstance(a.value, ast.Name) and a.value.id == g.self_name and a.attr in (src, "_" + src, src.lstrip("_")) for a in g.own_nodes())
                asks = any(isinstance(c, ast.Call) and isinstance(c.func, ast.Attribute) and c.func.attr in ("rows", "pack") and (c.args or c.keywords) and not (isinstance(c.func.value, ast.Name) and c.func.value.id == g.self_name) for c in g.own_nodes())
                if reads and asks:
                    return True
            return False

        groups = {k: v for k, v in groups.items() if p.find_member(fi.cls, k) is None or p.find_member(fi.cls, k)[0] != "method"}
        groups = {k: v for k, v in groups.items() if consulted(k)}
        if not groups:
            continue
        deps = []
        for n in cfg.nodes:
            if n.ast is None or n.kind in ("for", "with", "handler"):
                continue
            for x in walk_no_nested(n.ast):
                if isinstance(x, ast.Call) and isinstance(x.func, ast.Attribute) and x.func.attr == "set_depends" and x.args:
                    deps.append((n, x))
        for src, calls in sorted(groups.items()):
            nodes = [n for n, _ in calls]
            call0 = calls[0][1]
            # the loop (if any) all calls of the group sit in
            loops = [h for h in cfg.nodes if h.kind == "for" and all(any(s is x for b in h.ast.body for s in ast.walk(b)) for _, x in calls)]
            if loops:
                h = loops[-1]
                r = _normal_reach(cfg, [], avoid=nodes, from_edges=[(h, "T")])
                skippable = h in r
                skip_reach = _normal_reach(cfg, [h]) if skippable else set()
            else:
                r = _normal_reach(cfg, [cfg.entry], avoid=nodes)
                skippable = cfg.exit in r
                skip_reach = r
            ident = f"{short(fi)}:{src}"
            rr.inst(ident, True, {"render": short(fi), "child": f"{sn}.{src}", "can_be_skipped": skippable, "set_depends": [norm(x, 70) for _, x in deps]} if len(rr.samples) < 12 else None)
            if not skippable:
                continue
            good = [x for n, x in deps if n in skip_reach and any(isinstance(a, ast.Attribute) and isinstance(a.value, ast.Name) and a.value.id == sn and a.attr == src for a in ast.walk(ast.parse(ast.unparse(du.expand(x.args[0], n)), mode="eval")))]
            # a declaration that names the collection but leaves some of its members out (a comprehension with a
            # filter, a zip with a shorter list) misses exactly the hidden ones
            partial = []
            for x in good:
                arg = x.args[0]
                for comp in [c for c in ast.walk(arg) if isinstance(c, (ast.ListComp, ast.GeneratorExp, ast.SetComp))]:
                    for g in comp.generators:
                        mentions = any(isinstance(a, ast.Attribute) and isinstance(a.value, ast.Name) and a.value.id == sn and a.attr == src for a in ast.walk(g.iter))
                        if not mentions:
                            continue
                        zipped = isinstance(g.iter, ast.Call) and isinstance(g.iter.func, ast.Name) and g.iter.func.id == "zip"
                        # `if w is not None` only leaves out parts that do not exist
                        ifs = [t for t in g.ifs if not (isinstance(t, ast.Compare) and len(t.ops) == 1 and isinstance(t.ops[0], ast.IsNot) and isinstance(t.comparators[0], ast.Constant) and t.comparators[0].value is None)]
                        if ifs or zipped:
                            partial.append((x, "a filter" if ifs else "zip() with another list"))
            for x, why in partial:
                rr.add(finding("HIDDEN-DEP", fi, x, f"`{norm(x, 70)}` declares the dependencies through {why}: the children that are left out are the ones without room - the hidden ones the declaration exists for - so when one of them changes (an empty status Text gets text) the cached canvas is not invalidated", construct=f"set_depends leaves out members of {src}"))
            good = [x for x in good if x not in [y for y, _ in partial]]
            if partial and not good:
                continue
            if not good:
                rr.add(finding("HIDDEN-DEP", fi, call0, f"render() can finish without `{norm(call0, 50)}` (the child from {sn}.{src} is given no room and skipped) and no set_depends() naming {sn}.{src} follows: the hidden child was consulted for the layout but is not a dependency of the cached canvas, so when it changes (gains rows / columns) this widget and its ancestors keep serving the canvas without it", construct=f"child from {src} can be skipped without set_depends"))
                continue
            # a declaration made under a *count* test ("fewer canvases than children") counts the children on the
            # collection itself: len(self.<src>) - a derived list (the widths that fit) is already shorter when
            # children are dropped, and the test would miss exactly those
            from .exc import ExcEngine

            for dn, x in [(n, x) for n, x in deps if x in good]:
                counts = []
                for t in cfg.nodes:
                    if t.kind != "test" or dn in ExcEngine._reach_without_edge(cfg, t, "T"):
                        continue
                    for c in ast.walk(t.ast):
                        if isinstance(c, ast.Compare) and len(c.ops) == 1 and isinstance(c.ops[0], (ast.Lt, ast.NotEq, ast.Gt)) and all(isinstance(s_, ast.Call) and isinstance(s_.func, ast.Name) and s_.func.id == "len" for s_ in (c.left, c.comparators[0])):
                            counts.append((t, c))
                for t, c in counts:
                    sides = [ast.unparse(du.expand(s_.args[0], t)) for s_ in (c.left, c.comparators[0])]
                    full = any(f"{sn}.{src}" in sd or f"{sn}._{src}" in sd for sd in sides)
                    rr.inst(f"{ident}: count test", True, {"test": norm(c, 60), "counts_the_collection_itself": full})
                    if not full:
                        rr.add(finding("HIDDEN-DEP", fi, c, f"the dependency on hidden children is declared under `{norm(c, 60)}`, which does not count {sn}.{src} itself: a derived list is already shortened when children are dropped for lack of room, so for exactly those children the test is false and the cached canvas does not depend on them", construct=f"hidden-child test does not count {src}"))
    return rr
