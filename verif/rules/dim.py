"""E2 DIM: cols/rows units inference.

Lattice per value: 'C' (screen columns), 'R' (screen rows), None (unknown / dimensionless),
('tup', [d0, d1, ...]) for tuples, ('seq', d) for homogeneous sequences.  Seeds come from the
widget API's positional meaning, never from variable names:
  size[0] / size[1], unpackings of a parameter named in SIZE_PARAMS (the API's `size`);
  X.rows(...) -> R, X.cols() -> C, X.pack(...) -> (C, R), .cursor / get_cursor_coords() -> (C, R);
  the col,row parameters of mouse_event / move_cursor_to_coords by position.
Obligations: no + / - / comparison / min / max between C and R; no variable or list holding both;
API sinks typed by position (size tuples, col/row arguments, canvas pad/trim calls, SolidCanvas,
CanvasOverlay, the returns of rows()/pack()/get_cursor_coords()).
Function summaries (return dimension of self-helpers such as get_rows_sizes) are computed by
iterating the analysis over the class until stable.
"""

from __future__ import annotations

import ast

from ..core import RuleResult, finding, short
from ..model import FuncInfo, Project, norm

C, R = "C", "R"
SIZE_METHODS = {"render", "rows", "pack", "keypress", "mouse_event", "move_cursor_to_coords", "get_cursor_coords", "get_pref_col"}
SIZE_PARAMS = {"size"}


def join(a, b):
    if a is None:
        return b
    if b is None:
        return a
    if a == b:
        return a
    if isinstance(a, tuple) or isinstance(b, tuple):
        if isinstance(a, tuple) and isinstance(b, tuple) and a[0] == b[0]:
            if a[0] == "seq":
                j = join(a[1], b[1])
                return ("seq", j)
            if a[0] == "tup" and len(a[1]) == len(b[1]):
                return ("tup", [join(x, y) for x, y in zip(a[1], b[1])])
        return None
    return "X"


def scalar(d):
    return d if d in (C, R) else None


class FnDim(ast.NodeVisitor):
    def __init__(self, p: Project, fi: FuncInfo, summaries: dict):
        self.p = p
        self.fi = fi
        self.fn = fi.node
        self.summaries = summaries  # method name -> return dim (for self.m() calls in this class hierarchy)
        self.env: dict[str, object] = {}
        self.reports: list = []
        self.returns: list = []
        args = fi.params
        self.size_param = next((a for a in args if a in SIZE_PARAMS), None)
        name = fi.name
        if name == "mouse_event" and "col" in args and "row" in args:
            self.env["col"] = C
            self.env["row"] = R
        if name == "move_cursor_to_coords" and len(args) >= 4:
            self.env[args[2]] = C
            self.env[args[3]] = R
        self.sn = p._self_name(fi)

    def rep(self, node, msg, kind):
        self.reports.append((node, msg, kind))

    # ------------------------------------------------------------ expression dims
    def dim(self, e):
        if e is None:
            return None
        if isinstance(e, ast.Name):
            return self.env.get(e.id)
        if isinstance(e, ast.NamedExpr):
            d = self.dim(e.value)
            self.bind(e.target, d, e)
            return d
        if isinstance(e, ast.Subscript):
            v, s = e.value, e.slice
            k = s.value if isinstance(s, ast.Constant) and isinstance(s.value, int) else None
            if isinstance(v, ast.Name) and v.id == self.size_param and k in (0, 1):
                return C if k == 0 else R
            d = self.dim(v)
            if isinstance(d, tuple) and d[0] == "tup":
                if k is not None and -len(d[1]) <= k < len(d[1]):
                    return d[1][k]
                if isinstance(s, ast.Slice) and s.lower is None and s.step is None and isinstance(s.upper, ast.Constant) and isinstance(s.upper.value, int):
                    return ("tup", d[1][: s.upper.value])
                return None
            if isinstance(d, tuple) and d[0] == "seq":
                return d if isinstance(s, ast.Slice) else d[1]
            return None
        if isinstance(e, ast.Call):
            f = e.func
            if isinstance(f, ast.Attribute):
                if f.attr == "rows":
                    return R
                if f.attr == "cols" and not e.args:
                    return C
                if f.attr == "pack":
                    return ("tup", [C, R])
                if f.attr == "get_cursor_coords":
                    return ("tup", [C, R])
                if isinstance(f.value, ast.Name) and f.value.id == self.sn and f.attr in self.summaries:
                    return self.summaries[f.attr]
                if f.attr == "copy":
                    return self.dim(f.value)
            if isinstance(f, ast.Name):
                if f.id in ("max", "min", "sum", "int", "abs", "round"):
                    d = None
                    for a in e.args:
                        da = self.dim(a)
                        if isinstance(da, tuple) and da[0] == "seq":
                            da = da[1]
                        if isinstance(da, tuple):
                            da = None
                        nd = join(d, da)
                        if nd == "X":
                            self.rep(e, f"{f.id}() mixes a column quantity with a row quantity", "mix")
                            return None
                        d = nd
                    return d
                if f.id in ("list", "tuple", "sorted", "reversed"):
                    return self.dim(e.args[0]) if e.args else None
                return self.call_module_function(e)
            return None
        if isinstance(e, ast.BinOp) and isinstance(e.op, (ast.Add, ast.Sub)):
            a, b = self.dim(e.left), self.dim(e.right)
            if isinstance(a, tuple) or isinstance(b, tuple):
                if isinstance(a, tuple) and isinstance(b, tuple) and a[0] == b[0] == "seq" and isinstance(e.op, ast.Add):
                    j = join(a[1], b[1])
                    if j == "X":
                        self.rep(e, "concatenates a sequence of column values with a sequence of row values", "mix")
                        return None
                    return ("seq", j)
                return None
            j = join(a, b)
            if j == "X":
                self.rep(e, f"{'adds' if isinstance(e.op, ast.Add) else 'subtracts'} a column quantity and a row quantity", "mix")
                return None
            return j
        if isinstance(e, ast.BinOp) and isinstance(e.op, (ast.Mult, ast.FloorDiv, ast.Div, ast.Mod)):
            a, b = self.dim(e.left), self.dim(e.right)
            if isinstance(a, tuple) or isinstance(b, tuple):
                return None
            if a and not b:
                return a
            if b and not a and isinstance(e.op, ast.Mult):
                return b
            return None
        if isinstance(e, ast.UnaryOp) and isinstance(e.op, ast.USub):
            return self.dim(e.operand)
        if isinstance(e, ast.IfExp):
            a, b = self.dim(e.body), self.dim(e.orelse)
            j = join(a, b)
            if j == "X":
                self.rep(e, "conditional expression yields a column quantity on one arm and a row quantity on the other", "mix")
                return None
            return j
        if isinstance(e, ast.Tuple):
            return ("tup", [self.dim(x) for x in e.elts])
        if isinstance(e, ast.List):
            d = None
            for x in e.elts:
                j = join(d, scalar(self.dim(x)))
                if j == "X":
                    return None
                d = j
            return ("seq", d) if d else None
        if isinstance(e, ast.Attribute):
            if e.attr == "cursor":
                return ("tup", [C, R])
        return None

    _ctx_cache: dict = {}
    _ctx_stack: list = []

    def call_module_function(self, e):
        """Context-sensitive summary of a module-level helper: analyse it with its parameters
        typed by this call's arguments (depth 1)."""
        tgt = self.p.resolve_callee(e.func, self.fi)
        if not tgt or not isinstance(tgt[0], FuncInfo) or tgt[0].cls is not None or tgt[0].is_lambda:
            return None
        g = tgt[0]
        params = g.params
        argd = {}
        for i, a in enumerate(e.args):
            if i < len(params) and not isinstance(a, ast.Starred):
                argd[params[i]] = self.dim(a)
        for kw in e.keywords:
            if kw.arg in params:
                argd[kw.arg] = self.dim(kw.value)
        argd = {k: v for k, v in argd.items() if v in (C, R)}
        if not argd:
            return None
        key = (g.qualname, tuple(sorted(argd.items())))
        if key in FnDim._ctx_cache:
            return FnDim._ctx_cache[key][0]
        if g.qualname in FnDim._ctx_stack or len(FnDim._ctx_stack) > 2:
            return None
        FnDim._ctx_stack.append(g.qualname)
        try:
            v = FnDim(self.p, g, {})
            v.env.update(argd)
            v.preset = dict(argd)
            ret = v.run()
        finally:
            FnDim._ctx_stack.pop()
        FnDim._ctx_cache[key] = (ret, v.reports)
        for node, msg, kind in v.reports:
            self.rep(e, f"in callee {short(g)} (called with {argd}): {msg} at `{norm(node, 80)}`", kind)
        return ret

    def bind(self, t, d, node):
        if isinstance(t, ast.Name):
            if d is None:
                return
            old = self.env.get(t.id)
            if old is None:
                self.env[t.id] = d
            elif old in (C, R) and d in (C, R) and old != d:
                self.rep(node, f"variable `{t.id}` holds a {'column' if old == C else 'row'} quantity and is assigned a {'column' if d == C else 'row'} quantity", "var")
            elif isinstance(old, tuple) and isinstance(d, tuple) and old[0] == d[0] == "seq" and old[1] and d[1] and old[1] != d[1]:
                self.rep(node, f"sequence `{t.id}` holds both column and row quantities", "var")
        elif isinstance(t, (ast.Tuple, ast.List)):
            if isinstance(d, tuple) and d[0] == "tup" and len(d[1]) == len(t.elts):
                for x, dx in zip(t.elts, d[1]):
                    self.bind(x, dx, node)

    # ------------------------------------------------------------ statements
    def visit_Assign(self, n):
        if isinstance(n.value, ast.Name) and n.value.id == self.size_param:
            for t in n.targets:
                if isinstance(t, (ast.Tuple, ast.List)):
                    for i, x in enumerate(t.elts):
                        self.bind(x, [C, R][i] if i < 2 else None, n)
            return
        d = self.dim(n.value)
        for t in n.targets:
            self.bind(t, d, n)
        self.generic_visit(n)

    def visit_AnnAssign(self, n):
        if n.value is not None:
            self.bind(n.target, self.dim(n.value), n)
        self.generic_visit(n)

    def visit_AugAssign(self, n):
        if isinstance(n.op, (ast.Add, ast.Sub)) and isinstance(n.target, ast.Name):
            a = self.env.get(n.target.id)
            b = self.dim(n.value)
            if not isinstance(a, tuple) and not isinstance(b, tuple):
                if join(a, b) == "X":
                    self.rep(n, f"`{n.target.id}` is a {'column' if a == C else 'row'} quantity but a {'column' if b == C else 'row'} quantity is {'added to' if isinstance(n.op, ast.Add) else 'subtracted from'} it", "mix")
                elif a is None and b:
                    self.env[n.target.id] = b
        self.generic_visit(n)

    def visit_Compare(self, n):
        ds = [self.dim(n.left)] + [self.dim(c) for c in n.comparators]
        ds = [d for d in ds if d in (C, R)]
        if len(set(ds)) > 1 and all(isinstance(o, (ast.Lt, ast.LtE, ast.Gt, ast.GtE, ast.Eq, ast.NotEq)) for o in n.ops):
            self.rep(n, "compares a column quantity with a row quantity", "mix")
        self.generic_visit(n)

    def check_size_tuple(self, call, tup, what):
        want = [C, R]
        for i, x in enumerate(tup.elts[:2]):
            d = self.dim(x)
            if d in (C, R) and d != want[i]:
                self.rep(call, f"position {i} of the size handed to {what} receives a {'column' if d == C else 'row'} quantity", "sink")

    def visit_Call(self, n):
        f = n.func
        if isinstance(f, ast.Attribute):
            if f.attr == "append" and isinstance(f.value, ast.Name) and n.args:
                d = self.dim(n.args[0])
                if d in (C, R):
                    old = self.env.get(f.value.id)
                    if old is None:
                        self.env[f.value.id] = ("seq", d)
                    elif isinstance(old, tuple) and old[0] == "seq" and old[1] and old[1] != d:
                        self.rep(n, f"list `{f.value.id}` of {'column' if old[1] == C else 'row'} quantities receives a {'column' if d == C else 'row'} quantity", "var")
                    elif isinstance(old, tuple) and old[0] == "seq" and not old[1]:
                        self.env[f.value.id] = ("seq", d)
            if f.attr in SIZE_METHODS and n.args and isinstance(n.args[0], ast.Tuple):
                self.check_size_tuple(n, n.args[0], f".{f.attr}()")
            if f.attr == "mouse_event" and len(n.args) >= 5:
                for i, w in ((3, C), (4, R)):
                    d = self.dim(n.args[i])
                    if d in (C, R) and d != w:
                        self.rep(n, f"mouse_event argument {'col' if w == C else 'row'} receives a {'column' if d == C else 'row'} quantity", "sink")
            if f.attr == "move_cursor_to_coords" and len(n.args) >= 3:
                for i, w in ((1, C), (2, R)):
                    d = self.dim(n.args[i])
                    if d in (C, R) and d != w:
                        self.rep(n, f"move_cursor_to_coords argument {'col' if w == C else 'row'} receives a {'column' if d == C else 'row'} quantity", "sink")
            if f.attr == "pad_trim_left_right":
                for a in n.args:
                    if self.dim(a) == R:
                        self.rep(n, "pad_trim_left_right() receives a row quantity", "sink")
            if f.attr in ("pad_trim_top_bottom", "trim", "trim_end"):
                for a in n.args:
                    if self.dim(a) == C:
                        self.rep(n, f"{f.attr}() receives a column quantity", "sink")
            if f.attr == "translate_coords" and len(n.args) >= 2:
                if self.dim(n.args[0]) == R:
                    self.rep(n, "translate_coords() dx receives a row quantity", "sink")
                if self.dim(n.args[1]) == C:
                    self.rep(n, "translate_coords() dy receives a column quantity", "sink")
        name = f.id if isinstance(f, ast.Name) else f.attr if isinstance(f, ast.Attribute) else None
        if name == "SolidCanvas" and len(n.args) >= 3:
            if self.dim(n.args[1]) == R:
                self.rep(n, "SolidCanvas cols argument receives a row quantity", "sink")
            if self.dim(n.args[2]) == C:
                self.rep(n, "SolidCanvas rows argument receives a column quantity", "sink")
        if name == "CanvasOverlay" and len(n.args) >= 4:
            if self.dim(n.args[2]) == R:
                self.rep(n, "CanvasOverlay left argument receives a row quantity", "sink")
            if self.dim(n.args[3]) == C:
                self.rep(n, "CanvasOverlay top argument receives a column quantity", "sink")
        self.generic_visit(n)

    def visit_Return(self, n):
        if n.value is not None:
            d = self.dim(n.value)
            self.returns.append(d)
            if self.fi.name == "rows" and d == C:
                self.rep(n, "rows() returns a column quantity", "sink")
            if self.fi.name in ("pack", "get_cursor_coords") and isinstance(d, tuple) and d[0] == "tup" and len(d[1]) == 2:
                if d[1][0] == R or d[1][1] == C:
                    self.rep(n, f"{self.fi.name}() returns (cols, rows) with swapped dimensions", "sink")
        self.generic_visit(n)

    def visit_For(self, n):
        d = self.dim(n.iter)
        if isinstance(d, tuple) and d[0] == "seq":
            self.bind(n.target, d[1], n)
        elif isinstance(n.iter, ast.Call) and isinstance(n.iter.func, ast.Name) and n.iter.func.id == "zip" and isinstance(n.target, (ast.Tuple, ast.List)):
            for a, t in zip(n.iter.args, n.target.elts):
                da = self.dim(a)
                if isinstance(da, tuple) and da[0] == "seq":
                    self.bind(t, da[1], n)
        elif isinstance(n.iter, ast.Call) and isinstance(n.iter.func, ast.Name) and n.iter.func.id == "enumerate" and isinstance(n.target, (ast.Tuple, ast.List)) and len(n.target.elts) == 2 and n.iter.args:
            da = self.dim(n.iter.args[0])
            if isinstance(da, tuple) and da[0] == "seq":
                self.bind(n.target.elts[1], da[1], n)
        self.generic_visit(n)

    def visit_FunctionDef(self, n):
        if n is self.fn:
            self.generic_visit(n)

    visit_AsyncFunctionDef = visit_FunctionDef

    def visit_Lambda(self, n):
        if n is self.fn:
            self.generic_visit(n)

    def visit_ClassDef(self, n):
        return

    def run(self):
        for _ in range(3):
            self.reports = []
            self.returns = []
            self.visit(self.fn)
        ret = None
        for d in self.returns:
            j = join(ret, d)
            ret = None if j == "X" else j
        return ret


def run_dim(p: Project, clause: str, modules: list[str], floor: int, exceptions: dict, description: str | None = None, only_functions=None) -> RuleResult:
    rr = RuleResult("DIM", clause, description or "no screen-column quantity flows to a place that expects screen rows (and vice versa)", floor)
    n_seeded = 0
    for mname in modules:
        m = p.modules.get(mname)
        if m is None:
            continue
        # summaries per class (method name -> return dim), iterated to a fixpoint (2 rounds suffice)
        by_cls: dict[object, list[FuncInfo]] = {}
        for fi in m.functions:
            if fi.is_lambda:
                continue
            by_cls.setdefault(fi.cls, []).append(fi)
        for cls, fis in by_cls.items():
            summaries: dict[str, object] = {}
            if cls is not None:
                for k in reversed(p.mro(cls)):
                    for g in p.all_class_functions(k):
                        pass
            for _round in range(3):
                new = {}
                for fi in fis:
                    if fi.parent is not None:
                        continue
                    v = FnDim(p, fi, summaries)
                    ret = v.run()
                    if ret is not None and cls is not None:
                        new[fi.name] = ret
                if new == summaries:
                    break
                summaries = new
            for fi in fis:
                if only_functions is not None and fi.name not in only_functions:
                    continue
                v = FnDim(p, fi, summaries)
                v.run()
                seeded = bool(v.env)
                if seeded:
                    n_seeded += 1
                rr.inst(short(fi), nontrivial=seeded, sample={"function": short(fi), "typed_locals": {k: str(d) for k, d in list(v.env.items())[:6]}} if seeded and len(rr.samples) < 4 else None)
                seen = set()
                for node, msg, kind in v.reports:
                    con = norm(node, 120)
                    if (con, msg) in seen:
                        continue
                    seen.add((con, msg))
                    key = f"{short(fi)}:{con}"
                    if key in exceptions:
                        if key not in [e.split(" - ")[0] for e in rr.exceptions_used]:
                            rr.exceptions_used.append(f"{key} - {exceptions[key]}")
                        continue
                    rr.add(finding("DIM", fi, node, msg, construct=con))
    rr.units = {"functions_with_typed_values": n_seeded}
    return rr
