"""E10 PROG (loop progress) and E11 WRITER (single writer / sanitised write)."""

from __future__ import annotations

import ast

from ..core import RuleResult, finding, short, walk_no_nested
from ..model import FuncInfo, Project, norm
from .util import cfg_of, node_exprs


def _stores_name(n, name: str) -> bool:
    """Does CFG node *n* (re)bind local *name* or mutate the sequence it names?"""
    for r in node_exprs(n):
        for s in walk_no_nested(r):
            if isinstance(s, ast.Name) and s.id == name and isinstance(s.ctx, (ast.Store, ast.Del)):
                return True
            if isinstance(s, ast.Call) and isinstance(s.func, ast.Attribute) and isinstance(s.func.value, ast.Name) and s.func.value.id == name and s.func.attr in ("pop", "popleft", "clear", "remove", "append", "extend", "insert", "add", "appendleft"):
                return True
    if n.kind == "for":
        return any(isinstance(s, ast.Name) and s.id == name for s in ast.walk(n.ast.target))
    return False


def loop_progress(rr: RuleResult, fi: FuncInfo, exceptions: dict | None = None):
    """Every `while` loop whose test reads locals must, on every path back to the test,
    assign at least one of them (or leave through break/return/raise)."""
    exceptions = exceptions or {}
    cfg = cfg_of(fi)
    params_and_locals = set(fi.all_params)
    for n in fi.own_nodes():
        if isinstance(n, ast.Name) and isinstance(n.ctx, ast.Store):
            params_and_locals.add(n.id)
    for t in cfg.nodes:
        if t.kind != "test" or not isinstance(t.stmt, ast.While):
            continue
        names = {x.id for x in ast.walk(t.ast) if isinstance(x, ast.Name) and x.id in params_and_locals}
        attrs = {ast.unparse(x) for x in ast.walk(t.ast) if isinstance(x, ast.Attribute) and isinstance(x.ctx, ast.Load)}
        ident = f"{short(fi)}:while {norm(t.ast, 60)}"
        if isinstance(t.ast, ast.Constant):
            # `while True`: must have an exit (break / return / raise) reachable from the body
            body_nodes = cfg.reachable_from_edges([(t, "T")])
            has_exit = any(b.kind in ("return", "raisestmt", "break") for b in body_nodes)
            rr.inst(ident, True)
            if not has_exit:
                rr.add(finding("PROG", fi, t.stmt, "`while True` loop without break/return/raise", construct=f"while {norm(t.ast, 60)}: no exit"))
            continue
        if not names and not attrs:
            continue
        writers = [n for n in cfg.nodes if any(_stores_name(n, nm) for nm in names)]
        # attribute-driven loops: any store to the attribute, or a call on self (may change it)
        if attrs:
            for n in cfg.nodes:
                for r in node_exprs(n):
                    for s in walk_no_nested(r):
                        if isinstance(s, ast.Attribute) and not isinstance(s.ctx, ast.Load) and ast.unparse(s) in attrs:
                            writers.append(n)
                        elif isinstance(s, ast.Call) and isinstance(s.func, ast.Attribute):
                            writers.append(n)
        rr.inst(ident, True, {"function": short(fi), "loop": norm(t.stmt, 60), "drivers": sorted(names | attrs)} if len(rr.samples) < 4 else None)
        # path from the true edge back to the test avoiding all writers?
        r = cfg.reachable_from_edges([(t, "T")], avoid=writers)
        if t in r:
            key = f"{short(fi)}:while {norm(t.ast, 60)}"
            if key in exceptions:
                rr.exceptions_used.append(f"{key} - {exceptions[key]}")
                continue
            path = cfg.witness_path(t, [t], avoid=writers)
            rr.add(
                finding(
                    "PROG",
                    fi,
                    t.stmt,
                    f"`while {norm(t.ast, 50)}` can iterate again without assigning any of {sorted(names | attrs)}: the loop does not progress on that path (possible non-termination)",
                    construct=f"while {norm(t.ast, 60)}: path without progress",
                )
            )


def run_progress(p: Project, clause: str, funcs: list[str], floor: int, description: str, exceptions=None) -> RuleResult:
    rr = RuleResult("PROG", clause, description, floor)
    for q in funcs:
        fi = p.func(q)
        loop_progress(rr, fi, exceptions)
    return rr


# ----------------------------------------------------------------------------- WRITER
def attr_stores(p: Project, cls, attr: str):
    """All (function, store ast node, enclosing statement) writing self.<attr> in the class hierarchy below *cls*
    (the class itself and in-repo subclasses), including augmented and tuple-target stores."""
    out = []
    classes = [c for c in p.classes.values() if cls in p.mro(c)]
    seen = set()
    for c in classes:
        for k in p.mro(c):
            for fi in p.all_class_functions(k):
                if id(fi) in seen:
                    continue
                seen.add(id(fi))
                sn = fi.self_name
                if not sn:
                    continue
                funcs = [fi] + [g for g in p.functions.values() if g.parent is fi]
                for g in funcs:
                    for st in g.own_nodes():
                        if not isinstance(st, (ast.Assign, ast.AugAssign, ast.AnnAssign, ast.Delete, ast.For, ast.With, ast.NamedExpr)):
                            continue
                        targets = []
                        if isinstance(st, ast.Assign):
                            targets = st.targets
                        elif isinstance(st, (ast.AugAssign, ast.AnnAssign)):
                            targets = [st.target]
                        elif isinstance(st, ast.Delete):
                            targets = st.targets
                        elif isinstance(st, ast.For):
                            targets = [st.target]
                        for t in targets:
                            for s in ast.walk(t):
                                if isinstance(s, ast.Attribute) and s.attr == attr and isinstance(s.value, ast.Name) and s.value.id == sn and not isinstance(s.ctx, ast.Load):
                                    out.append((g, s, st))
    return out
