"""RUNPOS: run-length lists written straight into a canvas contain no empty run.

A TextCanvas row is described by run lists [(value, length), ...] for attributes (`_attr`) and character sets
(`_cs`).  content() walks text and runs in parallel; a run of length 0 makes it yield a row without segments - a row
of width 0 in a canvas that says it is maxcol wide.  The layout code builds its runs through rle_append_modify(),
which merges; code that writes `<canvas>._attr` / `._cs` by hand (ProgressBar.render) has to make sure of it itself.

For every run tuple `(v, L)` that reaches such a store - element of the stored display, or appended to the local
list that is stored - the length L is shown positive from the tests that dominate the tuple:

    facts   every dominating test, on the edge the tuple lies on, split at `or` (false edge) / `and` (true edge)
            into atoms  E < 0, E <= 0, E > 0, E >= 0, E == 0, E != 0  over canonical linear forms
    goal    lin(L) > 0:  a fact D > 0 (or -D < 0), or D >= 0 together with D != 0, or D >= c / D > c with c > 0
            folded into the constant term
    given   an element unpacked from the `size` parameter is positive (a widget is never rendered 0 columns wide),
            len(<encoded text>) of a non-empty literal / encode() result is not examined (reported as trivial).

Nothing is executed; this is a syntactic entailment check over at most a handful of atoms per tuple.
"""

from __future__ import annotations

import ast

from ..core import RuleResult, finding, short, walk_no_nested
from ..model import Project, norm
from .exc import ExcEngine
from .util import cfg_of, lin_str, linear, node_exprs, single_defs

RUN_ATTRS = {"_attr", "_cs"}


def _neg(d):
    return {k: -v for k, v in d.items()}


def _atoms(test, truth):
    """[(lin E, op)] facts from *test* having truth value *truth*; op in < <= > >= == !="""
    if isinstance(test, ast.UnaryOp) and isinstance(test.op, ast.Not):
        return _atoms(test.operand, not truth)
    if isinstance(test, ast.BoolOp):
        if (isinstance(test.op, ast.Or) and not truth) or (isinstance(test.op, ast.And) and truth):
            return [a for v in test.values for a in _atoms(v, truth)]
        return []
    if isinstance(test, ast.Compare):
        if len(test.ops) != 1:
            # a chain a OP b OP c is a conjunction: usable only when true
            if not truth:
                return []
            out = []
            operands = [test.left, *test.comparators]
            for i, op in enumerate(test.ops):
                out += _atoms(ast.Compare(left=operands[i], ops=[op], comparators=[operands[i + 1]]), True)
            return out
        a, b = linear(test.left), linear(test.comparators[0])
        if a is None or b is None:
            return []
        e = dict(a)
        for k, v in b.items():
            e[k] = e.get(k, 0) - v
        e = {k: v for k, v in e.items() if v}
        op = test.ops[0]
        table = {ast.Lt: "<", ast.LtE: "<=", ast.Gt: ">", ast.GtE: ">=", ast.Eq: "==", ast.NotEq: "!="}
        o = table.get(type(op))
        if o is None:
            return []
        if not truth:
            o = {"<": ">=", "<=": ">", ">": "<=", ">=": "<", "==": "!=", "!=": "=="}[o]
        return [(e, o)]
    if isinstance(test, ast.Name) and truth:
        # `if cs:` for an integer: cs != 0
        return [({test.id: 1}, "!=")]
    return []


def _entails_positive(goal, facts):
    """goal: linear form D; True when the facts imply D > 0"""
    if not goal:
        return False
    if set(goal) == {""}:
        return goal[""] > 0
    const = goal.get("", 0)
    core = {k: v for k, v in goal.items() if k}
    ge0 = ne0 = False
    for e, o in facts:
        for sign in (1, -1):
            es = e if sign == 1 else _neg(e)
            os_ = o if sign == 1 else {"<": ">", "<=": ">=", ">": "<", ">=": "<=", "==": "==", "!=": "!="}[o]
            ecore = {k: v for k, v in es.items() if k}
            if ecore != core:
                continue
            # es = core + ec  OP 0   <=>   core OP -ec ;  goal = core + const
            ec = es.get("", 0)
            # core > -ec  => goal > const - ec ;  need const - ec >= 0
            if os_ == ">" and const - ec >= 0:
                return True
            if os_ == ">=" and const - ec > 0:
                return True
            if os_ == ">=" and const - ec == 0:
                ge0 = True
            if os_ == "!=" and const - ec == 0:
                ne0 = True
    return ge0 and ne0


def run_runpos(p: Project, clause: str, modules, floor: int) -> RuleResult:
    rr = RuleResult("RUNPOS", clause, "every (value, length) run written by hand into a canvas' _attr / _cs has a length shown positive by the tests dominating it", floor=floor)
    for fi in p.functions.values():
        if not any(fi.module.name == m or fi.module.name.startswith(m + ".") for m in modules) or fi.is_lambda:
            continue
        stores = [n for n in fi.own_nodes() if isinstance(n, ast.Assign) and any(isinstance(t, ast.Attribute) and t.attr in RUN_ATTRS and not (isinstance(t.value, ast.Name) and t.value.id == fi.self_name) for t in n.targets)]
        if not stores:
            continue
        cfg = cfg_of(fi)
        env = single_defs(fi)
        size_elems = set()
        for n in fi.own_nodes():
            if isinstance(n, ast.Assign) and isinstance(n.value, ast.Name) and n.value.id == "size" and isinstance(n.targets[0], (ast.Tuple, ast.List)):
                size_elems |= {e.id for e in n.targets[0].elts if isinstance(e, ast.Name)}
        # run tuples: in stored displays, and appended to locals that are stored
        carriers = set()
        tuples = []
        for st in stores:
            for x in ast.walk(st.value):
                if isinstance(x, ast.Name):
                    carriers.add(x.id)
                if isinstance(x, ast.Tuple) and len(x.elts) == 2:
                    tuples.append(x)
        for n in fi.own_nodes():
            if isinstance(n, ast.Call) and isinstance(n.func, ast.Attribute) and n.func.attr == "append" and isinstance(n.func.value, ast.Name) and n.func.value.id in carriers and n.args and isinstance(n.args[0], ast.Tuple) and len(n.args[0].elts) == 2:
                tuples.append(n.args[0])
        owner = {}
        for cn in cfg.nodes:
            for e in node_exprs(cn):
                for x in walk_no_nested(e):
                    owner.setdefault(id(x), cn)
        for t in tuples:
            L = t.elts[1]
            cn = owner.get(id(t))
            ident = f"{short(fi)}: {norm(t, 50)}"
            if cn is None:
                continue
            if isinstance(L, ast.Call) and isinstance(L.func, ast.Name) and L.func.id == "len":
                rr.inst(ident, False)
                continue
            goal = linear(L)
            if goal is None:
                rr.inst(ident, False)
                continue
            facts = [({s: 1}, ">") for s in size_elems]
            for tn in cfg.nodes:
                if tn.kind != "test" or not cfg.dominated(cn, [tn]):
                    continue
                for lab, truth in (("T", True), ("F", False)):
                    # every path from the entry to cn takes the `lab` edge of the test
                    if cn not in ExcEngine._reach_without_edge(cfg, tn, lab):
                        facts += _atoms(tn.ast, truth)
            # copy propagation of single-definition locals inside facts is not attempted: names are atoms
            ok = _entails_positive(goal, facts)
            rr.inst(ident, True, {"run": ident, "length": lin_str(goal), "facts": [f"{lin_str(e)} {o} 0" for e, o in facts][:8], "positive": ok} if len(rr.samples) < 8 else None)
            if not ok:
                rr.add(finding("RUNPOS", fi, t, f"the run `{norm(t, 50)}` is written into the canvas although nothing on the way to it shows `{ast.unparse(L)}` > 0 (known there: {', '.join(f'{lin_str(e)} {o} 0' for e, o in facts) or 'nothing'}): a run of length 0 makes TextCanvas.content() yield an empty row - a row 0 columns wide in a canvas that is {next(iter(size_elems), 'maxcol')} wide", construct=f"run length {ast.unparse(L)} not shown positive"))
    return rr


def run_runpos_returns(p: Project, clause: str, funcs, floor: int) -> RuleResult:
    """The same obligation for functions that *return* run lists (util._tagmarkup_recurse: the attribute runs of text
    markup): a returned run `(v, len(X))` needs X shown non-empty where the tuple is built - by the test of an enclosing
    conditional expression (`[...] if X else []`) or by a dominating `if X:` / `if not X: return`.  Before fix f28b40b
    an empty string in the markup produced the run ('b', 0) and rle_product() ended the rendered row there."""
    rr = RuleResult("RUNPOS", clause, "every (value, length) run a markup function returns has a length shown positive (the measured text is tested non-empty)", floor=floor)
    for q in funcs:
        fi = p.func(q)
        cfg = cfg_of(fi)
        parents = {id(ch): par for par in ast.walk(fi.node) for ch in ast.iter_child_nodes(par)}
        owner = {}
        for cn in cfg.nodes:
            for e in node_exprs(cn):
                for x in ast.walk(e):
                    owner.setdefault(id(x), cn)
        for r in [n for n in fi.own_nodes() if isinstance(n, ast.Return) and n.value is not None]:
            for t in [x for x in ast.walk(r.value) if isinstance(x, ast.Tuple) and len(x.elts) == 2 and isinstance(x.elts[1], ast.Call) and isinstance(x.elts[1].func, ast.Name) and x.elts[1].func.id == "len" and x.elts[1].args and isinstance(x.elts[1].args[0], ast.Name)]:
                nm = t.elts[1].args[0].id
                ok = False
                x = t
                while id(x) in parents and not isinstance(x, ast.stmt):
                    par = parents[id(x)]
                    if isinstance(par, ast.IfExp) and par.body is x and isinstance(par.test, ast.Name) and par.test.id == nm:
                        ok = True
                    if isinstance(par, ast.IfExp) and par.orelse is x and isinstance(par.test, ast.UnaryOp) and isinstance(par.test.op, ast.Not) and isinstance(par.test.operand, ast.Name) and par.test.operand.id == nm:
                        ok = True
                    x = par
                cn = owner.get(id(t))
                if not ok and cn is not None:
                    for tn in cfg.nodes:
                        if tn.kind != "test":
                            continue
                        if isinstance(tn.ast, ast.Name) and tn.ast.id == nm and cn not in ExcEngine._reach_without_edge(cfg, tn, "T"):
                            ok = True
                        if isinstance(tn.ast, ast.UnaryOp) and isinstance(tn.ast.op, ast.Not) and isinstance(tn.ast.operand, ast.Name) and tn.ast.operand.id == nm and cn not in ExcEngine._reach_without_edge(cfg, tn, "F"):
                            ok = True
                ident = f"{short(fi)}: {norm(t, 40)}"
                rr.inst(ident, True, {"run": ident, "measured": nm, "shown_non_empty": ok})
                if not ok:
                    rr.add(finding("RUNPOS", fi, t, f"the run `{norm(t, 40)}` is returned without `{nm}` being shown non-empty: an empty string in the markup ([('a', 'x'), ('b', ''), ('c', 'y')]) gives a run of length 0, rle_product() stops there and the rendered row ends after the text before it", construct=f"run length len({nm}) not shown positive"))
    return rr
