"""E8 SIB: sibling cross-check by features.

Two implementations of one role are reduced to ordered feature lists - the comparisons made in
branch tests (operators and operand shapes), the helpers called, the shapes of the returned
expressions - after an explicit renaming (e.g. `_256` <-> `_88`) and abstraction of numeric
literals other than 0 and 1.  Differences are reported unless listed with a reason."""

from __future__ import annotations

import ast
import copy
import re

from ..core import RuleResult, finding, short
from ..model import FuncInfo, norm


class _Norm(ast.NodeTransformer):
    def __init__(self, rename):
        self.rename = rename  # list of (regex, repl)

    def _r(self, s):
        for pat, rep in self.rename:
            s = re.sub(pat, rep, s)
        return s

    def visit_Name(self, n):
        return ast.copy_location(ast.Name(id=self._r(n.id), ctx=n.ctx), n)

    def visit_Attribute(self, n):
        self.generic_visit(n)
        n.attr = self._r(n.attr)
        return n

    def visit_Constant(self, n):
        if isinstance(n.value, (int, float)) and not isinstance(n.value, bool) and n.value not in (0, 1):
            return ast.copy_location(ast.Name(id="N", ctx=ast.Load()), n)
        return n


_CONST_NAME = re.compile(r"^_?[A-Z][A-Z0-9_]*$")


def _is_numeric_const_expr(e) -> bool:
    """a number, a module constant (ALL_CAPS name) or +,-,* arithmetic over those"""
    if isinstance(e, ast.Constant):
        return isinstance(e.value, (int, float)) and not isinstance(e.value, bool)
    if isinstance(e, ast.Name):
        return bool(_CONST_NAME.match(e.id))
    if isinstance(e, ast.BinOp) and isinstance(e.op, (ast.Add, ast.Sub, ast.Mult, ast.Pow)):
        return _is_numeric_const_expr(e.left) and _is_numeric_const_expr(e.right)
    if isinstance(e, ast.UnaryOp) and isinstance(e.op, ast.USub):
        return _is_numeric_const_expr(e.operand)
    return False


def _canon_compare(c: ast.Compare) -> ast.Compare:
    """`x > K` and `x >= K'` (K, K' constant expressions) have the same shape once the value is abstracted: the bound
    becomes N and the strictness is dropped, so a sibling that writes the same bound differently still matches."""
    if len(c.ops) != 1:
        return c
    l, r, op = c.left, c.comparators[0], c.ops[0]
    soft = {ast.Gt: ast.GtE, ast.Lt: ast.LtE}
    if _is_numeric_const_expr(r) and not (isinstance(r, ast.Constant) and r.value in (0, 1)) and not _is_numeric_const_expr(l):
        return ast.Compare(left=l, ops=[soft.get(type(op), type(op))()], comparators=[ast.Name(id="N", ctx=ast.Load())])
    if _is_numeric_const_expr(l) and not (isinstance(l, ast.Constant) and l.value in (0, 1)) and not _is_numeric_const_expr(r):
        return ast.Compare(left=ast.Name(id="N", ctx=ast.Load()), ops=[soft.get(type(op), type(op))()], comparators=[r])
    return c


def normalise(e, rename) -> str:
    return ast.unparse(_Norm(rename).visit(copy.deepcopy(e)))


def soft_form(c: ast.Compare, rename):
    """(text with the constant bound abstracted and its strictness dropped, True when the bound is a composite
    constant expression) - used only to pair up tests that differ in how one sibling spells the same bound"""
    if not isinstance(c, ast.Compare) or len(c.ops) != 1:
        return None, False
    k = c.comparators[0] if _is_numeric_const_expr(c.comparators[0]) else c.left if _is_numeric_const_expr(c.left) else None
    if k is None:
        return None, False
    return ast.unparse(_Norm(rename).visit(_canon_compare(copy.deepcopy(c)))), isinstance(k, (ast.BinOp, ast.UnaryOp))


def features(fi: FuncInfo, rename):
    tests, calls, returns = [], [], []
    for n in fi.own_nodes():
        if isinstance(n, (ast.If, ast.While, ast.IfExp)):
            for c in ast.walk(n.test):
                if isinstance(c, ast.Compare):
                    tests.append((normalise(c, rename), c))
        elif isinstance(n, ast.Call):
            f = n.func
            nm = f.id if isinstance(f, ast.Name) else f.attr if isinstance(f, ast.Attribute) else None
            if nm:
                for pat, rep in rename:
                    nm = re.sub(pat, rep, nm)
                calls.append(nm)
        elif isinstance(n, ast.Return):
            returns.append((normalise(n.value, rename) if n.value is not None else "None", n))
    return tests, calls, returns


def _diff(a, b):
    """Multiset difference preserving order: items of a not matched in b, and vice versa."""
    bb = list(b)
    only_a = []
    for x in a:
        if x in bb:
            bb.remove(x)
        else:
            only_a.append(x)
    return only_a, bb


def compare_twins(rr: RuleResult, fa: FuncInfo, fb: FuncInfo, rename, exceptions: dict, compare_returns=True):
    ta, ca, ra = features(fa, rename)
    tb, cb, rb = features(fb, rename)
    pair = f"{fa.name}~{fb.name}"
    rr.inst(f"{pair}:tests", True, {"pair": pair, "tests_a": [t for t, _ in ta][:6], "tests_b": [t for t, _ in tb][:6]})
    oa, ob = _diff([t for t, _ in ta], [t for t, _ in tb])
    # a bound that one sibling spells as a composite constant expression (`>= START + SIZE`) pairs with the other's
    # literal spelling (`> 255`) when the two tests have the same shape once bound and strictness are abstracted;
    # the values themselves are compared by the table rules
    for t in list(oa):
        na = next(n for x, n in ta if x == t)
        sa, ca_ = soft_form(na, rename)
        if sa is None:
            continue
        for u in list(ob):
            nb = next(n for x, n in tb if x == u)
            sb, cb_ = soft_form(nb, rename)
            if sb == sa and (ca_ or cb_):
                oa.remove(t)
                ob.remove(u)
                break
    used = {}
    for side, only, src, fi, other in (("first", oa, ta, fa, fb), ("second", ob, tb, fb, fa)):
        for t in only:
            key = f"{pair}:test:{t}"
            # a table entry stands for ONE confirmed extra test, not for every test of that normalised form: a second
            # unmatched `len(desc) == N` (the twin lost its own length guard) is a finding
            if key in exceptions and not used.get(key):
                used[key] = 1
                rr.exceptions_used.append(f"{key} - {exceptions[key]}")
                continue
            node = next(n for x, n in src if x == t)
            rr.add(finding("SIB", fi, node, f"guard `{norm(node, 70)}` (normalised `{t}`) has no counterpart in the twin {short(other)}: the two implementations accept different ranges", construct=f"{pair}: unmatched test {t}"))
    rr.inst(f"{pair}:helpers", True)
    oa, ob = _diff(sorted(set(ca)), sorted(set(cb)))
    for only, fi, other in ((oa, fa, fb), (ob, fb, fa)):
        for c in only:
            key = f"{pair}:call:{c}"
            if key in exceptions:
                rr.exceptions_used.append(f"{key} - {exceptions[key]}")
                continue
            rr.add(finding("SIB", fi, fi.node, f"helper `{c}` is called here but not in the twin {short(other)}", construct=f"{pair}: unmatched call {c}"))
    if compare_returns:
        rr.inst(f"{pair}:returns", True)
        oa, ob = _diff([t for t, _ in ra], [t for t, _ in rb])
        for only, src, fi, other in ((oa, ra, fa, fb), (ob, rb, fb, fa)):
            for t in only:
                key = f"{pair}:return:{t}"
                if key in exceptions:
                    rr.exceptions_used.append(f"{key} - {exceptions[key]}")
                    continue
                node = next(n for x, n in src if x == t)
                rr.add(finding("SIB", fi, node, f"return `{norm(node, 70)}` (normalised `{t}`) has no counterpart in the twin {short(other)}", construct=f"{pair}: unmatched return {t}"))
