"""ALIAS: mutable objects that a canvas keeps *by reference* are owned by nobody else.

A few canvas entry points store an argument as it is - they do not copy it:

    TextCanvas(text, attr, cs)          the three lists become the canvas' rows
    CompositeCanvas.fill_attr_apply(m)  the mapping `m` is put into every cview (cv[4])
    CompositeCanvas.set_depends(l)      `l` becomes canv.depends_on

(the table is re-confirmed on every run: the parameter must still reach a `self.<attr>` store / a stored tuple
without passing through a call).  A canvas that went through the cache "is never modified afterwards" (C06), so
whatever is handed to one of these parameters must not be reachable by anybody who could change it later:

  * a fresh object (display, comprehension, call result, constant) is fine;
  * a local is followed to its reaching definitions;
  * a widget attribute `self.<a>` makes the attribute *canvas-shared*: every store to it in the class family must
    then store a fresh object - never a bare parameter (the caller keeps the reference: AttrMap.set_attr_map(d)
    before fix 45b9be8) and never another attribute - and the attribute is never changed in place
    (subscript / augmented store, mutating method call);
  * a bare parameter of the calling function is reported unless the function is itself a canvas-layer helper whose
    callers are checked in turn.
"""

from __future__ import annotations

import ast

from ..core import RuleResult, finding, short, walk_no_nested
from ..model import AnalysisError, Project, norm
from .defuse import DefUse

RETAINING = {
    # qualified function -> retained parameters
    "urwid.canvas.TextCanvas.__init__": ("text", "attr", "cs"),
    "urwid.canvas.CompositeCanvas.fill_attr_apply": ("mapping",),
    "urwid.canvas.CompositeCanvas.set_depends": ("widget_list",),
}
INPLACE = {"append", "extend", "insert", "pop", "remove", "clear", "update", "setdefault", "popitem", "sort", "reverse", "__setitem__", "__delitem__"}
FRESH_NODES = (ast.List, ast.Dict, ast.Set, ast.Tuple, ast.ListComp, ast.DictComp, ast.SetComp, ast.GeneratorExp, ast.Call, ast.BinOp, ast.Constant, ast.JoinedStr, ast.Compare, ast.UnaryOp)


def _still_retains(p: Project, qual: str, param: str) -> bool:
    fi = p.functions.get(qual)
    if fi is None or param not in fi.all_params:
        return False
    carried = {param}
    changed = True
    body = list(fi.own_nodes())
    while changed:
        changed = False
        for n in body:
            # local = <display containing a carried name> / local.append(<... carried ...>)
            if isinstance(n, ast.Assign) and isinstance(n.targets[0], ast.Name) and n.targets[0].id not in carried:
                if _bare_in(n.value, carried):
                    carried.add(n.targets[0].id)
                    changed = True
            elif isinstance(n, ast.Call) and isinstance(n.func, ast.Attribute) and n.func.attr == "append" and isinstance(n.func.value, ast.Name) and n.func.value.id not in carried:
                if n.args and _bare_in(n.args[0], carried):
                    carried.add(n.func.value.id)
                    changed = True
    for n in body:
        if isinstance(n, ast.Assign) and any(isinstance(t, ast.Attribute) and isinstance(t.value, ast.Name) and t.value.id == fi.self_name for t in n.targets):
            if _bare_in(n.value, carried):
                return True
    return False


def _bare_in(expr, names) -> bool:
    """a name of *names* occurs in expr outside any call (displays, tuples, concatenations keep the reference)"""
    work = [expr]
    while work:
        n = work.pop()
        if isinstance(n, ast.Name):
            if n.id in names:
                return True
        elif isinstance(n, (ast.Call, ast.Lambda, ast.ListComp, ast.DictComp, ast.SetComp, ast.GeneratorExp)):
            continue
        else:
            work.extend(ast.iter_child_nodes(n))
    return False


def _self_attr(e, sn):
    return e.attr if isinstance(e, ast.Attribute) and isinstance(e.value, ast.Name) and e.value.id == sn else None


def run_alias(p: Project, clause: str, floor: int) -> RuleResult:
    rr = RuleResult("ALIAS", clause, "objects a canvas keeps by reference (TextCanvas rows, fill_attr_apply mapping, set_depends list) are fresh or widget attributes that only ever hold private copies and are never changed in place", floor=floor)
    by_name = {}
    for q, params in RETAINING.items():
        if q not in p.functions:
            raise AnalysisError(f"ALIAS table: {q} not found")
        # the obligation exists only while the canvas really keeps the reference: an entry point that copies its
        # argument (a legitimate change) simply drops out
        kept = tuple(prm for prm in params if _still_retains(p, q, prm))
        for prm in params:
            if prm not in kept:
                rr.notes.append(f"{q}({prm}) copies its argument now: no obligation on its callers")
        nm = q.split(".")[-2] if q.endswith(".__init__") else q.split(".")[-1]
        by_name[nm] = (p.functions[q], kept)
    shared: dict = {}  # (class qual, attr) -> where it was handed to a canvas
    for fi in p.functions.values():
        if not fi.module.name.startswith("urwid."):
            continue
        du = None
        for c in fi.own_nodes():
            if not isinstance(c, ast.Call):
                continue
            nm = c.func.attr if isinstance(c.func, ast.Attribute) else c.func.id if isinstance(c.func, ast.Name) else None
            if nm not in by_name:
                continue
            g, retained = by_name[nm]
            plist = [a for a in g.params if a not in ("self", "cls")]
            for prm in retained:
                i = plist.index(prm)
                arg = c.args[i] if len(c.args) > i and not any(isinstance(a, ast.Starred) for a in c.args[: i + 1]) else next((k.value for k in c.keywords if k.arg == prm), None)
                if arg is None:
                    continue
                if du is None:
                    du = DefUse(fi)
                at = du.node_of(c)
                ident = f"{short(fi)}:{norm(c, 50)}:{prm}"
                origins = _origins(du, arg, at, fi)
                rr.inst(ident, True, {"site": f"{short(fi)}: {norm(c, 60)}", "retained": prm, "origins": sorted({o[0] for o in origins})} if len(rr.samples) < 8 else None)
                for kind, what, node in origins:
                    if kind == "attr":
                        if fi.cls is not None:
                            shared.setdefault((fi.cls.qual if hasattr(fi.cls, "qual") else fi.cls, what), (fi, c))
                    elif kind == "param" and not fi.module.name == "urwid.canvas":
                        rr.add(finding("ALIAS", fi, c, f"`{norm(c, 60)}` hands parameter `{what}` of {fi.name}() to a canvas that keeps it by reference ({prm}): the caller can change the object after the canvas was cached", construct=f"{nm}: caller-owned `{what}` retained"))
                    elif kind == "other":
                        rr.add(finding("ALIAS", fi, c, f"`{norm(c, 60)}` hands `{what}` to a canvas that keeps it by reference ({prm}): the object belongs to somebody else (element / attribute of another object) who can change it after the canvas was cached", construct=f"{nm}: shared `{what}` retained"))
    # obligations on canvas-shared attributes
    for (cls, attr), (site_fi, site_call) in sorted(shared.items(), key=lambda kv: (str(kv[0][0]), kv[0][1])):
        family = _family(p, site_fi)
        for m in family:
            sn = m.self_name
            if not sn:
                continue
            for n in m.own_nodes():
                tgt = None
                if isinstance(n, ast.Assign):
                    for t in n.targets:
                        if _self_attr(t, sn) == attr:
                            tgt = n.value
                            ident = f"{short(m)}: self.{attr} = {norm(n.value, 40)}"
                            rr.inst(ident, True, {"store": ident, "shared_by": f"{short(site_fi)}: {norm(site_call, 50)}"} if len(rr.samples) < 12 else None)
                            bad = _not_private(tgt, m)
                            if bad:
                                rr.add(finding("ALIAS", m, n, f"`self.{attr}` is handed to canvases by reference ({short(site_fi)}: `{norm(site_call, 50)}`) but `{norm(n, 70)}` stores {bad}: whoever holds that object can change it later, which silently alters canvases already rendered and cached (no invalidation)", construct=f"self.{attr} stores a foreign object"))
                        elif isinstance(t, ast.Subscript) and _self_attr(t.value, sn) == attr:
                            rr.inst(f"{short(m)}: self.{attr}[..] store", True)
                            rr.add(finding("ALIAS", m, n, f"`{norm(n, 70)}` changes `self.{attr}` in place although canvases already rendered hold the same object ({short(site_fi)}: `{norm(site_call, 50)}`)", construct=f"self.{attr} changed in place"))
                elif isinstance(n, ast.AugAssign) and (_self_attr(n.target, sn) == attr or (isinstance(n.target, ast.Subscript) and _self_attr(n.target.value, sn) == attr)):
                    rr.inst(f"{short(m)}: self.{attr} augmented", True)
                    rr.add(finding("ALIAS", m, n, f"`{norm(n, 70)}` changes `self.{attr}` in place although canvases already rendered hold the same object", construct=f"self.{attr} changed in place"))
                elif isinstance(n, ast.Call) and isinstance(n.func, ast.Attribute) and n.func.attr in INPLACE and _self_attr(n.func.value, sn) == attr:
                    rr.inst(f"{short(m)}: self.{attr}.{n.func.attr}()", True)
                    rr.add(finding("ALIAS", m, n, f"`{norm(n, 70)}` changes `self.{attr}` in place although canvases already rendered hold the same object ({short(site_fi)}: `{norm(site_call, 50)}`)", construct=f"self.{attr} changed in place"))
                elif isinstance(n, ast.Delete) and any(isinstance(t, ast.Subscript) and _self_attr(t.value, sn) == attr for t in n.targets):
                    rr.add(finding("ALIAS", m, n, f"`{norm(n, 70)}` changes `self.{attr}` in place although canvases already rendered hold the same object", construct=f"self.{attr} changed in place"))
    return rr


def _family(p: Project, fi):
    """methods of fi's class, its project bases and subclasses"""
    cls = fi.cls
    if cls is None:
        return [fi]
    out, seen = [], set()
    classes = [cls]
    classes += [c for c in p.classes.values() if c is not cls and cls in p.mro(c)] if hasattr(p, "mro") else []
    classes += [b for b in (p.mro(cls) if hasattr(p, "mro") else []) if b is not cls]
    for c in classes:
        for m in getattr(c, "methods", {}).values():
            if id(m) not in seen:
                seen.add(id(m))
                out.append(m)
    return out


def _not_private(v, m):
    """None when the stored value is a private object; else a description of what is stored"""
    if isinstance(v, ast.IfExp):
        return _not_private(v.body, m) or _not_private(v.orelse, m)
    if isinstance(v, ast.BoolOp):
        for x in v.values:
            r = _not_private(x, m)
            if r:
                return r
        return None
    if isinstance(v, FRESH_NODES):
        return None
    if isinstance(v, ast.Name):
        if v.id in m.all_params:
            return f"the caller's own object (parameter `{v.id}`)"
        du = DefUse(m)
        # a local: all reaching definitions at the end must be private - approximated by all definitions
        for _dn, val, how in du.defs.get(v.id, []):
            if how != "assign" or val is None or not isinstance(val, ast.AST):
                return f"`{v.id}` ({how})"
            r = _not_private(val, m)
            if r:
                return r
        return None
    return f"`{ast.unparse(v)}` (an object reachable from elsewhere)"


def _origins(du: DefUse, e, at, fi, depth=0):
    """[(kind, text, node)] with kind in fresh / attr / param / other"""
    if isinstance(e, ast.IfExp):
        return _origins(du, e.body, at, fi, depth) + _origins(du, e.orelse, at, fi, depth)
    if isinstance(e, ast.BoolOp):
        return [o for x in e.values for o in _origins(du, x, at, fi, depth)]
    if isinstance(e, FRESH_NODES):
        return [("fresh", norm(e, 30), e)]
    a = _self_attr(e, fi.self_name) if fi.self_name else None
    if a:
        return [("attr", a, e)]
    if isinstance(e, ast.Name) and depth < 6 and at is not None:
        out = []
        rs = du.reaching(e.id, at)
        if not rs:
            return [("other", e.id, e)]
        for val, how, dn in rs:
            if how == "parameter":
                out.append(("param", e.id, e))
            elif how == "assign" and isinstance(val, ast.AST):
                out += _origins(du, val, dn, fi, depth + 1)
            else:
                out.append(("other", f"{e.id} ({how})", e))
        return out
    return [("other", ast.unparse(e), e)]


def run_inplace_own(p: Project, clause: str, modules, floor: int, exempt: dict | None = None) -> RuleResult:
    """An attribute that some method of the class changes *in place* (`self.a.update(..)`, `self.a[k] = v`,
    `del self.a[k]`, `.clear()`, `.pop()`, `.append()` ...) must be an object of the instance's own: every store
    `self.a = <value>` in the class family stores a fresh object (display, comprehension, call result, copy) - never
    another object's attribute (`canv.coords`) or a bare parameter.  Otherwise the in-place change shows through in
    the object the value was taken from: CompositeCanvas(canv) sharing canv.coords lets overlay() / set_cursor() /
    _drop_trimmed_cursor() write a cursor into (or delete it from) the wrapped - typically cached - canvas.

    *exempt* names attributes whose sharing is handled by a flow-sensitive rule of its own (shards: FRESHLIST)."""
    exempt = exempt or {}
    rr = RuleResult("ALIAS", clause, "an attribute a class edits in place only ever holds an object of its own (no store of another object's attribute or of a bare parameter)", floor=floor)
    for cls in p.classes.values():
        if not any(cls.module.name == m or cls.module.name.startswith(m + ".") for m in modules):
            continue
        fam = [m for c in p.mro(cls) for m in getattr(c, "methods", {}).values()]
        # attributes edited in place by a method defined in this class
        edited = {}
        for m in fam:
            sn = m.self_name
            if not sn:
                continue
            for n in m.own_nodes():
                a = None
                if isinstance(n, ast.Call) and isinstance(n.func, ast.Attribute) and n.func.attr in INPLACE:
                    a = _self_attr(n.func.value, sn)
                elif isinstance(n, ast.Subscript) and not isinstance(n.ctx, ast.Load):
                    a = _self_attr(n.value, sn)
                elif isinstance(n, ast.AugAssign):
                    a = _self_attr(n.target, sn)
                if a:
                    edited.setdefault(a, (m, n))
        for attr, (em, en) in sorted(edited.items()):
            if attr in exempt:
                rr.exceptions_used.append(f"{cls.name}.{attr}: {exempt[attr]}")
                continue
            for m in {id(x): x for x in fam}.values():
                sn = m.self_name
                if not sn:
                    continue
                for n in m.own_nodes():
                    if isinstance(n, ast.AnnAssign) and n.value is not None:
                        targets = [n.target]
                    elif isinstance(n, ast.Assign):
                        targets = n.targets
                    else:
                        continue
                    for t in targets:
                        if _self_attr(t, sn) != attr:
                            continue
                        ident = f"{cls.name}: {short(m)}: self.{attr} = {norm(n.value, 40)}"
                        bad = _not_private(n.value, m)
                        rr.inst(ident, True, {"store": ident, "edited_in_place_by": f"{short(em)}: {norm(en, 50)}", "private": not bad} if len(rr.samples) < 10 else None)
                        if bad:
                            rr.add(finding("ALIAS", m, n, f"`{norm(n, 60)}` makes `self.{attr}` {bad}, but {short(em)}() changes `self.{attr}` in place (`{norm(en, 50)}`): the change shows through in the object the value came from - a wrapped, typically cached, canvas gains or loses a cursor / pop-up", construct=f"self.{attr} shares a foreign object that is edited in place"))
    return rr


def run_shallow_copy(p: Project, clause: str, modules, floor: int) -> RuleResult:
    """`copy.copy(obj)` duplicates the object but shares every container it holds.  When the copy is meant to freeze a
    state (TermCanvas.save_cursor keeps copy.copy(self.charset) for DECRC), the class of `obj` must never change a
    container attribute *in place* - the frozen copy would change with it.  For every copy.copy(self.<a>) in the given
    modules whose attribute class is known (assigned from a constructor call), no method of that class makes an
    item store / delete or a mutating call on one of its own attributes (before fix 43a10ab TermCharset.define did
    `self._g[g] = charset`: a designation made after ESC 7 survived ESC 8)."""
    rr = RuleResult("ALIAS", clause, "a class whose instances are frozen with copy.copy() never edits one of its container attributes in place", floor=floor)
    for fi in p.functions.values():
        if not any(fi.module.name == m or fi.module.name.startswith(m + ".") for m in modules) or fi.cls is None or not fi.self_name:
            continue
        for c in fi.own_nodes():
            if not (isinstance(c, ast.Call) and isinstance(c.func, ast.Attribute) and c.func.attr == "copy" and isinstance(c.func.value, ast.Name) and c.func.value.id == "copy" and len(c.args) == 1):
                continue
            a = _self_attr(c.args[0], fi.self_name)
            if not a:
                continue
            for cls in sorted(p.attr_types(fi.cls).get(a, ()), key=lambda k: k.qualname):
                edits = []
                for m in cls.methods.values():
                    sn = m.self_name
                    if not sn or m.name == "__init__":
                        continue
                    for n in m.own_nodes():
                        if isinstance(n, ast.Subscript) and not isinstance(n.ctx, ast.Load) and _self_attr(n.value, sn):
                            edits.append((m, n))
                        elif isinstance(n, ast.Call) and isinstance(n.func, ast.Attribute) and n.func.attr in INPLACE and _self_attr(n.func.value, sn):
                            edits.append((m, n))
                        elif isinstance(n, ast.AugAssign) and isinstance(n.target, ast.Subscript) and _self_attr(n.target.value, sn):
                            edits.append((m, n))
                ident = f"{short(fi)}: {norm(c, 40)} -> {cls.name}"
                rr.inst(ident, True, {"copy": f"{short(fi)}: {norm(c, 50)}", "class": cls.name, "in_place_edits": [f"{short(m)}: {norm(n, 40)}" for m, n in edits]})
                for m, n in edits[:1]:
                    rr.add(finding("ALIAS", m, n, f"`{norm(n, 50)}` changes a container of {cls.name} in place, but {short(fi)}() freezes a {cls.name} with `{norm(c, 40)}` - a shallow copy that shares this container: the saved state changes together with the live one (DECSC / DECRC does not bring back the character set designations)", construct=f"{cls.name}: container edited in place although instances are shallow-copied"))
    return rr
