"""NULLFLOW: the result of a function that can return None (an "I do not recognise this" answer)
must be tested against None before it is used as a value.

Optional-returning functions are found from the source: a module function with at least one
`return None` / bare `return` / fall-through *and* at least one return of another value.  For every
call `x = f(...)` in the given functions, every use of `x` that is not itself a None test, a
`return x` (the caller is then Optional as well) or an operand of `or` must be dominated by a test
that excludes None (`x is None` -> leave, `x is not None` -> enter, truthiness counts when the
rule is told that falsy values are not legitimate)."""

from __future__ import annotations

import ast

from ..core import RuleResult, finding, short, walk_no_nested
from ..model import FuncInfo, Project, norm
from .exc import ExcEngine
from .util import cfg_of, node_exprs


def optional_functions(p: Project, module: str) -> set[str]:
    out = set()
    m = p.modules[module]
    for fi in m.functions:
        if fi.is_lambda or fi.cls is not None or fi.parent is not None:
            continue
        rets = [n for n in fi.own_nodes() if isinstance(n, ast.Return)]
        none = [r for r in rets if r.value is None or (isinstance(r.value, ast.Constant) and r.value.value is None)]
        other = [r for r in rets if r not in none]
        if none and other:
            out.add(fi.name)
    return out


def run_nullflow(p: Project, clause: str, module: str, funcs: list[str], floor: int, description: str) -> RuleResult:
    rr = RuleResult("NULLFLOW", clause, description, floor)
    opt = optional_functions(p, module)
    rr.notes.append(f"Optional-returning functions of {module}: {sorted(opt)}")
    for q in funcs:
        fi = p.func(q)
        cfg = cfg_of(fi)
        for n in cfg.nodes:
            a = n.ast
            if not (isinstance(a, ast.Assign) and len(a.targets) == 1 and isinstance(a.targets[0], ast.Name) and isinstance(a.value, ast.Call)):
                continue
            f = a.value.func
            nm = f.id if isinstance(f, ast.Name) else f.attr if isinstance(f, ast.Attribute) else None
            if nm not in opt:
                continue
            x = a.targets[0].id
            ident = f"{short(fi)}:{norm(a, 60)}"
            # None-excluding tests
            safe = []
            for t in cfg.nodes:
                if t.kind != "test":
                    continue
                for c in ast.walk(t.ast):
                    if isinstance(c, ast.Compare) and len(c.ops) == 1 and isinstance(c.left, ast.Name) and c.left.id == x and isinstance(c.comparators[0], ast.Constant) and c.comparators[0].value is None:
                        if isinstance(c.ops[0], ast.Is) and (c is t.ast or (isinstance(t.ast, ast.BoolOp) and isinstance(t.ast.op, ast.Or))):
                            safe.append((t, "F"))
                        elif isinstance(c.ops[0], ast.IsNot) and (c is t.ast or (isinstance(t.ast, ast.BoolOp) and isinstance(t.ast.op, ast.And))):
                            safe.append((t, "T"))
            redefs = [m_ for m_ in cfg.nodes if m_ is not n and isinstance(m_.ast, (ast.Assign, ast.AugAssign, ast.For)) and any(isinstance(y, ast.Name) and isinstance(y.ctx, ast.Store) and y.id == x for y in ast.walk(m_.ast))]
            live = cfg.reachable([n], avoid=redefs)
            bad = None
            n_uses = 0
            for u in sorted(live, key=lambda z: z.lineno):
                if u.ast is None:
                    continue
                for r in node_exprs(u):
                    for y in walk_no_nested(r):
                        if not (isinstance(y, ast.Name) and y.id == x and isinstance(y.ctx, ast.Load)):
                            continue
                        # harmless contexts
                        par = None
                        for z in walk_no_nested(r):
                            for ch in ast.iter_child_nodes(z):
                                if ch is y:
                                    par = z
                        if isinstance(par, ast.Compare) and isinstance(par.comparators[0], ast.Constant) and par.comparators[0].value is None:
                            continue
                        if isinstance(u.ast, ast.Return) and u.ast.value is y:
                            continue
                        if isinstance(par, ast.BoolOp) and isinstance(par.op, ast.Or) and par.values[0] is y:
                            continue
                        n_uses += 1
                        if any(u not in ExcEngine._reach_without_edge(cfg, t, lab) for t, lab in safe):
                            continue
                        if bad is None:
                            bad = (u, y)
            rr.inst(ident, True, {"function": short(fi), "optional_result": norm(a, 60), "uses": n_uses, "guarded": bad is None} if len(rr.samples) < 6 else None)
            if bad is not None:
                u, y = bad
                rr.add(finding("NULLFLOW", fi, u.stmt, f"`{x}` is the result of {nm}(), which answers None for input it does not recognise, and is used in `{norm(u.stmt, 60)}` without a None test: malformed input raises TypeError (or worse) instead of being rejected", construct=f"{x} from {nm}() used unchecked: {norm(u.stmt, 60)}"))
    return rr
