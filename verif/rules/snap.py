"""E4 SNAP: iterate-a-snapshot.

A `for` loop whose body runs user-supplied code (a call of the loop variable, of an attribute /
item of it, or a helper that calls its parameter) over a *shared* mutable collection - a `self`
attribute (optionally through .values()/.items()/.keys()), an attribute initialised from a
constructor parameter, or a local alias obtained from an object by getattr/.get/.setdefault -
must iterate a snapshot (list(..), tuple(..), sorted(..), .copy(), [:] or [*..]), because the
user code may call the public methods that mutate the same collection in place.
Mutation evidence (a method of the same class that edits the collection in place) is required
and reported with the finding."""

from __future__ import annotations

import ast

from ..core import RuleResult, finding, short, walk_no_nested
from ..model import ClassInfo, FuncInfo, Project, norm

VIEW = {"values", "items", "keys"}
SNAPSHOT_CALLS = {"list", "tuple", "sorted", "set", "frozenset", "dict", "reversed_list"}
INPLACE = {"append", "extend", "insert", "pop", "remove", "clear", "update", "setdefault", "popitem", "discard", "add", "sort", "reverse"}


def _strip_view(e):
    if isinstance(e, ast.Call) and isinstance(e.func, ast.Attribute) and e.func.attr in VIEW and not e.args:
        return e.func.value, e.func.attr
    return e, None


def is_snapshot(e) -> bool:
    if isinstance(e, ast.Call):
        f = e.func
        if isinstance(f, ast.Name) and f.id in SNAPSHOT_CALLS:
            return True
        if isinstance(f, ast.Attribute) and f.attr == "copy":
            return True
    if isinstance(e, ast.Subscript) and isinstance(e.slice, ast.Slice) and e.slice.lower is None and e.slice.upper is None:
        return True
    if isinstance(e, (ast.List, ast.Tuple, ast.ListComp, ast.GeneratorExp, ast.SetComp, ast.DictComp)):
        return True
    return False


def _calls_param(p: Project, fi: FuncInfo) -> set[int]:
    """indices (excluding self) of parameters of *fi* that it calls (directly)."""
    ps = fi.params
    off = 1 if fi.cls is not None and not fi.is_static else 0
    out = set()
    for n in fi.own_nodes():
        if isinstance(n, ast.Call) and isinstance(n.func, ast.Name) and n.func.id in ps:
            out.add(ps.index(n.func.id) - off)
    return out


def _runs_user_code(p: Project, fi: FuncInfo, loop: ast.For, scls) -> str | None:
    """Does the loop body invoke code derived from the loop variable?  Returns a description."""
    tvars = {x.id for x in ast.walk(loop.target) if isinstance(x, ast.Name)}
    for st in loop.body:
        for n in walk_no_nested(st):
            if not isinstance(n, ast.Call):
                continue
            f = n.func
            root = f
            while isinstance(root, (ast.Attribute, ast.Subscript, ast.Call)):
                root = root.value if not isinstance(root, ast.Call) else root.func
            if isinstance(root, ast.Name) and root.id in tvars and not isinstance(f, ast.Attribute):
                return f"calls `{norm(n, 50)}`"
            if isinstance(f, ast.Attribute) and isinstance(root, ast.Name) and root.id in tvars and f.attr not in ("append", "get", "items"):
                # record.data(), w.selectable() ... : method of the element
                tg = p.methods_named(f.attr)
                if not tg:
                    return f"calls `{norm(n, 50)}` on the element"
            # helper that calls its parameter, given a loop variable
            tg = p.resolve_callee(f, fi, scls)
            if tg:
                for g in tg:
                    if isinstance(g, FuncInfo):
                        idxs = _calls_param(p, g)
                        for i, a in enumerate(n.args):
                            if i in idxs and isinstance(a, ast.Name) and a.id in tvars:
                                return f"passes `{a.id}` to {short(g)}, which calls it"
    return None


def _shared_source(p: Project, fi: FuncInfo, e, scls):
    """Classify the iterated collection: ('attr', name) | ('alias', local, keyattrs) | None (fresh/unknown)."""
    sn = p._self_name(fi)
    if isinstance(e, ast.Attribute) and isinstance(e.value, ast.Name) and e.value.id == sn:
        return ("attr", e.attr)
    if isinstance(e, ast.Name):
        defs = []
        for n in fi.own_nodes():
            if isinstance(n, ast.Assign) and any(isinstance(t, ast.Name) and t.id == e.id for t in n.targets):
                defs.append(n.value)
            elif isinstance(n, ast.NamedExpr) and n.target.id == e.id:
                defs.append(n.value)
        if len(defs) != 1:
            return None
        d = defs[0]
        if is_snapshot(d):
            return None
        d2, _ = _strip_view(d)
        if isinstance(d2, ast.Attribute) and isinstance(d2.value, ast.Name) and d2.value.id == sn:
            return ("attr", d2.attr)
        # getattr(obj, key, {}).get(name, []) style alias
        txt = ast.unparse(d)
        if any(isinstance(x, ast.Call) and isinstance(x.func, ast.Name) and x.func.id in ("getattr", "setdefaultattr") for x in ast.walk(d)) or any(
            isinstance(x, ast.Call) and isinstance(x.func, ast.Attribute) and x.func.attr in ("get", "setdefault") for x in ast.walk(d)
        ):
            keys = sorted({x.attr for x in ast.walk(d) if isinstance(x, ast.Attribute) and isinstance(x.value, ast.Name) and x.value.id == sn})
            return ("alias", e.id, tuple(keys), txt)
    return None


def _mutation_evidence(p: Project, cls: ClassInfo, src) -> list[str]:
    out = []
    for k in p.mro(cls):
        for g in p.all_class_functions(k):
            sn = g.self_name
            if not sn:
                continue
            if src[0] == "attr":
                attr = src[1]

                def is_attr(x):
                    return isinstance(x, ast.Attribute) and x.attr == attr and isinstance(x.value, ast.Name) and x.value.id == sn

                for n in g.own_nodes():
                    if isinstance(n, ast.Delete) and any(isinstance(t, ast.Subscript) and is_attr(t.value) for t in n.targets):
                        out.append(f"{short(g)}: {norm(n, 50)}")
                    elif isinstance(n, ast.Assign) and any(isinstance(t, ast.Subscript) and is_attr(t.value) for t in n.targets):
                        out.append(f"{short(g)}: {norm(n, 50)}")
                    elif isinstance(n, ast.Call) and isinstance(n.func, ast.Attribute) and n.func.attr in INPLACE and is_attr(n.func.value):
                        out.append(f"{short(g)}: {norm(n, 50)}")
            else:
                keys = set(src[2])
                aliases = set()
                for n in g.own_nodes():
                    if isinstance(n, ast.Assign) and len(n.targets) == 1 and isinstance(n.targets[0], ast.Name):
                        ks = {x.attr for x in ast.walk(n.value) if isinstance(x, ast.Attribute) and isinstance(x.value, ast.Name) and x.value.id == sn}
                        if ks & keys and not is_snapshot(n.value):
                            aliases.add(n.targets[0].id)
                for n in g.own_nodes():
                    if isinstance(n, ast.Assign) and any(isinstance(t, ast.Subscript) and isinstance(t.value, ast.Name) and t.value.id in aliases for t in n.targets):
                        out.append(f"{short(g)}: {norm(n, 50)}")
                    elif isinstance(n, ast.Call) and isinstance(n.func, ast.Attribute) and n.func.attr in INPLACE and isinstance(n.func.value, ast.Name) and n.func.value.id in aliases:
                        out.append(f"{short(g)}: {norm(n, 50)}")
    return out


def _attr_from_ctor_param(p: Project, cls: ClassInfo, attr: str) -> bool:
    init = p.find_member(cls, "__init__")
    if not init or init[0] != "method":
        return False
    fi = init[1]
    sn = fi.self_name
    for n in fi.own_nodes():
        if isinstance(n, ast.Assign) and isinstance(n.value, ast.Name) and n.value.id in fi.params:
            for t in n.targets:
                if isinstance(t, ast.Attribute) and t.attr == attr and isinstance(t.value, ast.Name) and t.value.id == sn:
                    return True
    return False


def run_snap(p: Project, clause: str, classes: list[str], floor: int, description: str, informational_classes=()) -> RuleResult:
    rr = RuleResult("SNAP", clause, description, floor)
    for cname in classes:
        cls = p.cls(cname)
        for fi in p.all_class_functions(cls):
            for n in fi.own_nodes():
                if not isinstance(n, (ast.For, ast.AsyncFor)):
                    continue
                it, view = _strip_view(n.iter)
                snap = is_snapshot(n.iter)
                inner = n.iter
                if snap and isinstance(n.iter, ast.Call) and n.iter.args:
                    inner, view = _strip_view(n.iter.args[0])
                elif snap and isinstance(n.iter, ast.Subscript):
                    inner, view = _strip_view(n.iter.value)
                elif snap and isinstance(n.iter, ast.Call) and isinstance(n.iter.func, ast.Attribute):
                    inner, view = _strip_view(n.iter.func.value)
                else:
                    inner = it
                src = _shared_source(p, fi, inner, cls)
                if src is None:
                    continue
                why = _runs_user_code(p, fi, n, cls)
                if why is None:
                    continue
                ev = _mutation_evidence(p, cls, src)
                if not ev and src[0] == "attr" and _attr_from_ctor_param(p, cls, src[1]):
                    ev = [f"{cls.name}.{src[1]} is handed in by the constructor's caller, who keeps mutating it"]
                if not ev:
                    continue
                ident = f"{short(fi)}:for {norm(n.iter, 60)}"
                rr.inst(ident, True, {"function": short(fi), "loop": norm(n, 80), "user_code": why, "snapshot": snap, "mutators": ev[:3]})
                if not snap:
                    f = finding(
                        "SNAP",
                        fi,
                        n,
                        f"iterates the live collection `{norm(n.iter, 60)}` while the loop body {why}; that code may call "
                        f"{ev[0].split(':')[0]} which edits the collection in place ({'; '.join(ev[:3])}): entries are skipped or RuntimeError is raised",
                        construct=f"for ... in {norm(n.iter, 80)} (no snapshot)",
                        informational=cname in informational_classes,
                    )
                    rr.add(f)
    return rr
