"""OFFSTEP: text offsets move by characters, not by a fixed number of bytes.

In text_layout.py an offset into the text (a value that came from move_next_char / move_prev_char /
calc_text_pos / calc_trim_text / <text>.find, from a segment's `.offs` / `.end`, or from another offset) may be
advanced by a constant (`x + 1`) only when the character at that offset is known to be one byte long: the offset
is the position `<text>.find()` returned for the newline, or the step is made under a test `text[x] == <space>`.
For encoded (bytes) text any other `offset +- constant` that is stored, put into a layout segment, returned or
passed on lands inside a multi-byte character.

Differences between two offsets (distances) are not positions and are ignored; `(sc, offs)` two-tuples whose
offset is only a cursor hint are listed in tables.OFFSTEP_EXCEPTIONS."""

from __future__ import annotations

import ast

from ..core import RuleResult, finding, short, table_lookup
from ..model import Project, norm
from ..tables import OFFSTEP_EXCEPTIONS
from .defuse import DefUse
from .exc import ExcEngine

SRC_CALLS = {"move_next_char", "move_prev_char"}
SRC_TUPLE0 = {"calc_text_pos": (0,), "calc_trim_text": (0, 1)}
SRC_ATTRS = {"offs", "end"}


def _is_const(e):
    return isinstance(e, ast.Constant) and isinstance(e.value, int) and not isinstance(e.value, bool)


class _Off:
    def __init__(self, fi):
        self.fi = fi
        self.du = DefUse(fi)
        self.off: set[str] = set()
        self.find: set[str] = set()
        changed = True
        while changed:
            changed = False
            for name, ds in self.du.defs.items():
                for dn, v, how in ds:
                    if not isinstance(v, ast.AST):
                        continue
                    if isinstance(v, ast.Call) and isinstance(v.func, ast.Attribute) and v.func.attr in ("find", "rfind", "index"):
                        if name not in self.find:
                            self.find.add(name)
                            changed = True
                    if self.is_off(v) and name not in self.off:
                        self.off.add(name)
                        changed = True

    def is_off(self, e) -> bool:
        if isinstance(e, ast.Name):
            return e.id in self.off or e.id in self.find
        if isinstance(e, ast.Attribute):
            return e.attr in SRC_ATTRS
        if isinstance(e, ast.Call):
            f = e.func
            nm = f.id if isinstance(f, ast.Name) else f.attr if isinstance(f, ast.Attribute) else None
            if nm in SRC_CALLS or nm in ("find", "rfind", "index"):
                return True
            return False
        if isinstance(e, ast.Subscript) and isinstance(e.value, ast.Call) and _is_const(e.slice):
            f = e.value.func
            nm = f.id if isinstance(f, ast.Name) else f.attr if isinstance(f, ast.Attribute) else None
            return nm in SRC_TUPLE0 and e.slice.value in SRC_TUPLE0[nm]
        if isinstance(e, ast.Subscript) and isinstance(e.value, ast.Name) and _is_const(e.slice):
            # element of a tuple unpacked earlier: x = calc_text_pos(...); x[0]
            return False
        if isinstance(e, ast.BinOp) and isinstance(e.op, (ast.Add, ast.Sub)):
            return (self.is_off(e.left) and _is_const(e.right)) or (_is_const(e.left) and self.is_off(e.right))
        return False


def run_offstep(p: Project, clause: str, functions, floor: int) -> RuleResult:
    rr = RuleResult("OFFSTEP", clause, "a text offset is advanced by a constant only where the character stepped over is known to be one byte (newline found by find(), or under a text[x] == space test)", floor=floor)
    for q in functions:
        fi = p.func(q)
        o = _Off(fi)
        du = o.du
        cfg = du.cfg
        # unpacked results: a, b = calc_text_pos(...)
        for node in cfg.nodes:
            a = node.ast
            if isinstance(a, ast.Assign) and isinstance(a.targets[0], ast.Tuple) and isinstance(a.value, ast.Call):
                f = a.value.func
                nm = f.id if isinstance(f, ast.Name) else f.attr if isinstance(f, ast.Attribute) else None
                for i in SRC_TUPLE0.get(nm, ()):
                    if i < len(a.targets[0].elts) and isinstance(a.targets[0].elts[i], ast.Name):
                        o.off.add(a.targets[0].elts[i].id)
        parents = {}
        for x in ast.walk(fi.node):
            for ch in ast.iter_child_nodes(x):
                parents[id(ch)] = x
        for node in cfg.nodes:
            if node.ast is None or node.kind in ("with", "handler"):
                continue
            roots = [node.ast.iter] if node.kind == "for" else [node.ast]
            for root in roots:
                for e in ast.walk(root):
                    if not (isinstance(e, ast.BinOp) and isinstance(e.op, (ast.Add, ast.Sub))):
                        continue
                    base = e.left if _is_const(e.right) else e.right if _is_const(e.left) and isinstance(e.op, ast.Add) else None
                    if base is None or not o.is_off(base) or isinstance(base, ast.BinOp):
                        continue
                    par = parents.get(id(e))
                    # a difference of two offsets is a distance, not a position
                    if isinstance(par, ast.BinOp) and isinstance(par.op, ast.Sub) and not _is_const(par.left) and not _is_const(par.right):
                        continue
                    if isinstance(par, ast.Compare):
                        continue  # compared only
                    ident = f"{short(fi)}:{norm(e, 40)}@{norm(node.stmt, 30)}"
                    # guard 1: the offset is a find() result
                    bname = base.id if isinstance(base, ast.Name) else None
                    if bname and bname in o.find and all(isinstance(v, ast.AST) and (isinstance(v, ast.Call) and isinstance(v.func, ast.Attribute) and v.func.attr in ("find", "rfind", "index") or (isinstance(v, ast.Call) and isinstance(v.func, ast.Name) and v.func.id == "len")) for v, how, dn in du.reaching(bname, node)):
                        rr.inst(ident, True, {"site": f"{short(fi)}: {norm(node.stmt, 50)}", "guard": "position returned by find()"} if len(rr.samples) < 6 else None)
                        continue
                    # guard 2: under a test of text[base]
                    btxt = ast.unparse(base)
                    tests = [t for t in cfg.nodes if t.kind == "test" and any(isinstance(c, ast.Compare) and isinstance(c.left, ast.Subscript) and ast.unparse(c.left.slice) == btxt and isinstance(c.ops[0], (ast.Eq, ast.In)) for c in ast.walk(t.ast))]
                    if any(node not in ExcEngine._reach_without_edge(cfg, t, "T") for t in tests):
                        rr.inst(ident, True, {"site": f"{short(fi)}: {norm(node.stmt, 50)}", "guard": f"under a test of text[{btxt}]"} if len(rr.samples) < 6 else None)
                        continue
                    k = table_lookup(OFFSTEP_EXCEPTIONS, f"{short(fi)}:", node.stmt, fi.module, 80)
                    rr.inst(ident, True)
                    if k is not None:
                        rr.exceptions_used.append(f"{k}: {OFFSTEP_EXCEPTIONS[k]}")
                        continue
                    rr.add(finding("OFFSTEP", fi, node.stmt, f"`{norm(e, 40)}` moves the text offset `{btxt}` by a fixed number of bytes although the character there is not known to be one byte long (no text[{btxt}] == space test on this path, not a find() position): in encoded text the result lies inside a multi-byte character", construct=f"offset arithmetic {norm(e, 40)} in {norm(node.stmt, 50)}"))
    return rr
