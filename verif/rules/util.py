"""Helpers shared by the path rules: locating AST nodes in a function's CFG, normalising
expressions (alpha-renaming, linear canonical form), small def-use utilities."""

from __future__ import annotations

import ast
import copy

from ..cfg import CFG, Node
from ..core import walk_no_nested
from ..model import AnalysisError, FuncInfo

_CFG_CACHE: dict[int, CFG] = {}


def cfg_of(fi: FuncInfo) -> CFG:
    c = _CFG_CACHE.get(id(fi.node))
    if c is None:
        c = _CFG_CACHE[id(fi.node)] = CFG(fi.node)
    return c


def node_exprs(n: Node):
    """The AST pieces evaluated *at* a CFG node (not the bodies of compound statements)."""
    if n.ast is None:
        return []
    if n.kind == "for":
        return [n.ast.iter, n.ast.target]
    if n.kind == "with":
        out = []
        for i in n.ast.items:
            out.append(i.context_expr)
            if i.optional_vars is not None:
                out.append(i.optional_vars)
        return out
    if n.kind == "handler":
        return [n.ast.type] if n.ast.type is not None else []
    if isinstance(n.ast, (ast.FunctionDef, ast.AsyncFunctionDef, ast.ClassDef)):
        return list(n.ast.decorator_list)
    return [n.ast]


def owner_map(cfg: CFG) -> dict[int, list[Node]]:
    """id(ast node) -> CFG nodes evaluating it (several when a finally body was duplicated)."""
    m: dict[int, list[Node]] = {}
    for cn in cfg.nodes:
        for r in node_exprs(cn):
            for sub in walk_no_nested(r):
                m.setdefault(id(sub), []).append(cn)
    return m


def nodes_where(cfg: CFG, pred) -> list[Node]:
    """CFG nodes having a sub-expression satisfying pred(astnode)."""
    out = []
    for cn in cfg.nodes:
        for r in node_exprs(cn):
            if any(pred(sub) for sub in walk_no_nested(r)):
                out.append(cn)
                break
    return out


def calls_in(node_or_fi, name: str | None = None):
    """Call nodes (not descending into nested defs) optionally filtered by callee simple name."""
    it = node_or_fi.own_nodes() if isinstance(node_or_fi, FuncInfo) else walk_no_nested(node_or_fi)
    for n in it:
        if isinstance(n, ast.Call):
            f = n.func
            nm = f.id if isinstance(f, ast.Name) else f.attr if isinstance(f, ast.Attribute) else None
            if name is None or nm == name:
                yield n


def callee_name(call: ast.Call):
    f = call.func
    return f.id if isinstance(f, ast.Name) else f.attr if isinstance(f, ast.Attribute) else None


def dotted(e) -> str | None:
    """'a.b.c' for Name/Attribute chains, else None."""
    parts = []
    while isinstance(e, ast.Attribute):
        parts.append(e.attr)
        e = e.value
    if isinstance(e, ast.Name):
        parts.append(e.id)
        return ".".join(reversed(parts))
    return None


class _Renamer(ast.NodeTransformer):
    def __init__(self, mapping):
        self.mapping = mapping

    def visit_Name(self, n):
        if n.id in self.mapping:
            return ast.copy_location(ast.Name(id=self.mapping[n.id], ctx=n.ctx), n)
        return n

    def visit_arg(self, n):
        if n.arg in self.mapping:
            n = copy.copy(n)
            n.arg = self.mapping[n.arg]
        return n


def renamed(e, mapping) -> str:
    """ast.unparse of *e* with Names renamed by *mapping*."""
    return ast.unparse(_Renamer(mapping).visit(copy.deepcopy(e)))


# ---------------------------------------------------------------- linear canonical form
def linear(e, env=None, depth=0):
    """Canonical linear form of an integer expression: dict term->coeff (term '' is the constant),
    or None when *e* is not linear over +,-,unary -,constant factors.  *env* maps local names to
    their (single) defining expression for copy propagation."""
    env = env or {}
    if depth > 12:
        return None
    if isinstance(e, ast.Constant) and isinstance(e.value, (int, float)) and not isinstance(e.value, bool):
        return {"": e.value} if e.value else {}
    if isinstance(e, ast.Name):
        if e.id in env and env[e.id] is not None:
            r = linear(env[e.id], {k: v for k, v in env.items() if k != e.id}, depth + 1)
            if r is not None:
                return r
        return {e.id: 1}
    if isinstance(e, ast.UnaryOp) and isinstance(e.op, ast.USub):
        r = linear(e.operand, env, depth + 1)
        return None if r is None else {k: -v for k, v in r.items()}
    if isinstance(e, ast.BinOp) and isinstance(e.op, (ast.Add, ast.Sub)):
        a = linear(e.left, env, depth + 1)
        b = linear(e.right, env, depth + 1)
        if a is None or b is None:
            return None
        out = dict(a)
        sign = 1 if isinstance(e.op, ast.Add) else -1
        for k, v in b.items():
            out[k] = out.get(k, 0) + sign * v
        return {k: v for k, v in out.items() if v}
    if isinstance(e, ast.BinOp) and isinstance(e.op, ast.Mult):
        for c, o in ((e.left, e.right), (e.right, e.left)):
            if isinstance(c, ast.Constant) and isinstance(c.value, int):
                r = linear(o, env, depth + 1)
                return None if r is None else {k: v * c.value for k, v in r.items() if v * c.value}
        # product of two canonical forms (degree <= 2): monomials are '*'-joined sorted atoms
        a = linear(e.left, env, depth + 1)
        b = linear(e.right, env, depth + 1)
        if a is not None and b is not None and all("*" not in k for k in a) and all("*" not in k for k in b):
            out: dict = {}
            for ka, va in a.items():
                for kb, vb in b.items():
                    k = "*".join(sorted(x for x in (ka, kb) if x))
                    out[k] = out.get(k, 0) + va * vb
            return {k: v for k, v in out.items() if v}
    # opaque atom: calls, attributes, subscripts are terms by their text (after copy propagation of names inside)
    if isinstance(e, (ast.Call, ast.Attribute, ast.Subscript)):
        return {ast.unparse(_subst(e, env)): 1}
    return None


def _subst(e, env):
    class S(ast.NodeTransformer):
        def visit_Name(self, n):
            v = env.get(n.id)
            if v is not None and isinstance(n.ctx, ast.Load):
                return copy.deepcopy(v)
            return n

    return S().visit(copy.deepcopy(e))


def lin_str(d) -> str:
    if d is None:
        return "?"
    if not d:
        return "0"
    return " ".join(f"{v:+d}*{k}" if k else f"{v:+d}" for k, v in sorted(d.items()))


def single_defs(fi: FuncInfo) -> dict[str, ast.AST | None]:
    """local name -> its defining expression when the name is assigned exactly once by a plain
    `name = expr` (used for copy propagation); names with several or complex definitions map to None."""
    count: dict[str, int] = {}
    val: dict[str, ast.AST | None] = {}
    for n in fi.own_nodes():
        if isinstance(n, ast.Name) and isinstance(n.ctx, (ast.Store, ast.Del)):
            count[n.id] = count.get(n.id, 0) + 1
        if isinstance(n, ast.Assign) and len(n.targets) == 1 and isinstance(n.targets[0], ast.Name):
            val[n.targets[0].id] = n.value
        elif isinstance(n, ast.NamedExpr) and isinstance(n.target, ast.Name):
            val[n.target.id] = n.value
    for prm in fi.all_params:
        count[prm] = count.get(prm, 0) + 1
    return {k: (val.get(k) if c == 1 else None) for k, c in count.items()}


def require(cond, msg):
    if not cond:
        raise AnalysisError(msg)
