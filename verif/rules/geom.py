"""GEOM: agreement of the geometry a container/decoration uses in its different entry points.

For one class the *size handed to a child* (first argument of child.render / keypress /
mouse_event / get_cursor_coords / move_cursor_to_coords / get_pref_col / rows) is computed in
each entry point.  The rule compares them **per configuration**: a configuration (valuation)
fixes the length of the ``size`` tuple (0, 1, 2) and, for every instance attribute the class
compares with constants (``self.height_type == WHSettings.PACK`` ...), which constant it equals.
Under a valuation every branch test that only depends on these facts has a known outcome; the
CFG is walked along the remaining edges, definitions are followed (reaching definitions under
the same valuation, helper methods returning tuples are inlined), and the size expression is
brought to a canonical form (linear arithmetic canonicalised, helper calls reduced to the
helper's name + index).  Obligation: under every valuation, every canonical size an entry
point can hand to a child is one ``render`` can hand to that child under the same valuation.

This is abstract interpretation over a finite predicate domain - nothing is executed.
"""

from __future__ import annotations

import ast
import copy
import itertools

from ..core import walk_no_nested
from ..model import ClassInfo, FuncInfo, Project
from .defuse import UNKNOWN_HOW, DefUse, Elem
from .util import lin_str, linear

OTHER = "<other>"
SIZE_METHODS = ("render", "keypress", "mouse_event", "get_cursor_coords", "move_cursor_to_coords", "get_pref_col", "rows", "pack")
ENTRY_POINTS = ("render", "keypress", "mouse_event", "get_cursor_coords", "move_cursor_to_coords", "get_pref_col", "rows")


def const_text(e):
    """Text of a constant-like comparand (literal, dotted enum member), else None."""
    if isinstance(e, ast.Constant):
        return repr(e.value)
    parts = []
    x = e
    while isinstance(x, ast.Attribute):
        parts.append(x.attr)
        x = x.value
    if isinstance(x, ast.Name) and parts and x.id[:1].isupper():
        return ".".join([x.id, *reversed(parts)])
    return None


LOOP_INDEX = "<i>"


def elem_expr(iter_expr, path):
    """Expression for the loop element at tuple position *path* when iterating *iter_expr*:
    zip/enumerate/reversed are seen through, any other iterable X gives X[<i>] (one symbolic index)."""
    e = iter_expr
    path = tuple(path)
    while True:
        if isinstance(e, ast.Call) and isinstance(e.func, ast.Name) and e.func.id == "enumerate" and e.args:
            if not path:
                return None
            if path[0] == 0:
                return ast.Name(id=LOOP_INDEX, ctx=ast.Load()) if len(path) == 1 else None
            e, path = e.args[0], path[1:]
            continue
        if isinstance(e, ast.Call) and isinstance(e.func, ast.Name) and e.func.id == "zip" and e.args:
            if not path or path[0] >= len(e.args):
                return None
            e, path = e.args[path[0]], path[1:]
            continue
        if isinstance(e, ast.Call) and isinstance(e.func, ast.Name) and e.func.id in ("reversed", "list", "tuple", "iter") and len(e.args) == 1:
            e = e.args[0]
            continue
        if isinstance(e, ast.Call) and isinstance(e.func, ast.Name) and e.func.id == "range":
            return ast.Name(id=LOOP_INDEX, ctx=ast.Load()) if not path else None
        break
    if not isinstance(e, (ast.Name, ast.Attribute, ast.Subscript, ast.Call)):
        return None
    out = ast.Subscript(value=copy.deepcopy(e), slice=ast.Name(id=LOOP_INDEX, ctx=ast.Load()), ctx=ast.Load())
    for i in path:
        out = ast.Subscript(value=out, slice=ast.Constant(value=i), ctx=ast.Load())
    return out


def fold_subscripts(e):
    """(a, b, c)[1] -> b ; (a, b)[1:] -> (b,)"""

    class F(ast.NodeTransformer):
        def visit_Subscript(self, n):
            n = self.generic_visit(n)
            if isinstance(n.value, ast.Tuple) and not any(isinstance(x, ast.Starred) for x in n.value.elts):
                if isinstance(n.slice, ast.Constant) and isinstance(n.slice.value, int) and -len(n.value.elts) <= n.slice.value < len(n.value.elts):
                    return n.value.elts[n.slice.value]
            return n

    return F().visit(e)


class Valuation:
    def __init__(self, size_len, attrs):
        self.size_len = size_len
        self.attrs = attrs  # attr -> constant text | OTHER

    def __str__(self):
        a = ", ".join(f"self.{k}={v}" for k, v in sorted(self.attrs.items()))
        return f"len(size)={self.size_len}" + (f", {a}" if a else "")


class ClassGeom:
    def __init__(self, p: Project, cls: ClassInfo):
        self.p = p
        self.cls = cls
        self._du: dict[int, DefUse] = {}
        self._alias: dict[str, str] = {}
        for k in p.mro(cls):
            for name, pi in k.props.items():
                g = pi.getter
                if g is None or name in self._alias:
                    continue
                body = [s for s in g.body if not (isinstance(s, ast.Expr) and isinstance(s.value, ast.Constant))]
                if len(body) == 1 and isinstance(body[0], ast.Return) and isinstance(body[0].value, ast.Attribute) and isinstance(body[0].value.value, ast.Name) and body[0].value.value.id == g.self_name:
                    self._alias[name] = body[0].value.attr

    def du(self, fi: FuncInfo) -> DefUse:
        d = self._du.get(id(fi.node))
        if d is None:
            d = self._du[id(fi.node)] = DefUse(fi)
        return d

    def method(self, name) -> FuncInfo | None:
        r = self.p.find_member(self.cls, name)
        return r[1] if r and r[0] == "method" else None

    def attr(self, name: str) -> str:
        seen = set()
        while name in self._alias and name not in seen:
            seen.add(name)
            name = self._alias[name]
        return name

    # ------------------------------------------------------------------ tests under a valuation
    def self_attr(self, e, fi):
        if isinstance(e, ast.Attribute) and isinstance(e.value, ast.Name) and e.value.id == fi.self_name:
            return self.attr(e.attr)
        return None

    def eval_test(self, e, val: Valuation, fi: FuncInfo):
        """True / False / None (unknown) under the valuation."""
        if isinstance(e, ast.Constant):
            return bool(e.value)
        if isinstance(e, ast.NamedExpr):
            return self.eval_test(e.value, val, fi)
        if isinstance(e, ast.Name):
            if e.id == "size" and val.size_len is not None:
                return val.size_len > 0
            return None
        if isinstance(e, ast.UnaryOp) and isinstance(e.op, ast.Not):
            r = self.eval_test(e.operand, val, fi)
            return None if r is None else not r
        if isinstance(e, ast.BoolOp):
            rs = [self.eval_test(x, val, fi) for x in e.values]
            if isinstance(e.op, ast.And):
                if any(r is False for r in rs):
                    return False
                return True if all(r is True for r in rs) else None
            if any(r is True for r in rs):
                return True
            return False if all(r is False for r in rs) else None
        if isinstance(e, ast.Compare) and len(e.ops) == 1:
            op, l, r = e.ops[0], e.left, e.comparators[0]
            if isinstance(l, ast.Call) and isinstance(l.func, ast.Name) and l.func.id == "len" and l.args and isinstance(l.args[0], ast.Name) and l.args[0].id == "size" and isinstance(r, ast.Constant) and isinstance(r.value, int) and val.size_len is not None:
                n, k = val.size_len, r.value
                return {ast.Eq: n == k, ast.NotEq: n != k, ast.Lt: n < k, ast.LtE: n <= k, ast.Gt: n > k, ast.GtE: n >= k}.get(type(op))
            a = self.self_attr(l, fi)
            if a is not None and a in val.attrs:
                cur = val.attrs[a]
                if isinstance(op, (ast.Eq, ast.Is, ast.NotEq, ast.IsNot)):
                    ct = const_text(r)
                    if ct is None:
                        return None
                    eq = cur == ct
                    return eq if isinstance(op, (ast.Eq, ast.Is)) else not eq
                if isinstance(op, (ast.In, ast.NotIn)) and isinstance(r, (ast.Tuple, ast.List, ast.Set)):
                    cts = [const_text(x) for x in r.elts]
                    if any(c is None for c in cts):
                        return None
                    res = cur in cts
                    return res if isinstance(op, ast.In) else not res
            return None
        a = self.self_attr(e, fi)
        if a is not None and a in val.attrs:
            # truthiness of an attribute compared with None elsewhere: only None is known falsy
            if val.attrs[a] == "None":
                return False
        return None

    def domain(self, fis) -> dict[str, set]:
        dom: dict[str, set] = {}
        for fi in fis:
            du = self.du(fi)
            for n in du.cfg.nodes:
                if n.kind != "test":
                    continue
                t = du.expand(n.ast, n)
                for c in ast.walk(t):
                    if isinstance(c, ast.Compare) and len(c.ops) == 1:
                        a = self.self_attr(c.left, fi)
                        if a is None:
                            continue
                        r = c.comparators[0]
                        if isinstance(c.ops[0], (ast.In, ast.NotIn)) and isinstance(r, (ast.Tuple, ast.List, ast.Set)):
                            cts = [const_text(x) for x in r.elts]
                        else:
                            cts = [const_text(r)]
                        if all(x is not None for x in cts):
                            dom.setdefault(a, set()).update(cts)
        return dom

    def valuations(self, fis, size_lens=(0, 1, 2), cap=96):
        dom = self.domain(fis)
        keys = sorted(dom)
        # keep the product small: drop the attributes with the largest domains first
        while keys:
            n = len(size_lens)
            for k in keys:
                n *= len(dom[k]) + 1
            if n <= cap:
                break
            keys.remove(max(keys, key=lambda k: len(dom[k])))
        out = []
        for sl in size_lens:
            for combo in itertools.product(*[sorted(dom[k]) + [OTHER] for k in keys]):
                out.append(Valuation(sl, dict(zip(keys, combo))))
        return out, {k: sorted(dom[k]) for k in keys}

    # ------------------------------------------------------------------ CFG walking under a valuation
    def _edge_ok(self, fi, du, node, lab, val, cache):
        if node.kind != "test" or lab not in ("T", "F"):
            return True
        k = node.id
        if k not in cache:
            cache[k] = self.eval_test(du.expand(node.ast, node), val, fi)
        r = cache[k]
        if r is None:
            return True
        return (lab == "T") == r

    def reach(self, fi, starts, val, avoid=(), cache=None, include_start=False):
        du = self.du(fi)
        cache = {} if cache is None else cache
        avoid = set(avoid)
        seen = set()
        work = list(starts)
        if include_start:
            seen.update(s for s in starts if s not in avoid)
        while work:
            n = work.pop()
            for t, lab in n.succ:
                if t in avoid or t in seen:
                    continue
                if not self._edge_ok(fi, du, n, lab, val, cache):
                    continue
                seen.add(t)
                work.append(t)
        return seen

    def alts(self, fi, expr, at, val, live, cache, depth=0):
        """Expanded alternatives (list of ASTs, at most 6) of *expr* evaluated at node *at*."""
        du = self.du(fi)
        names = []
        for n in walk_no_nested(expr):
            if isinstance(n, ast.Name) and isinstance(n.ctx, ast.Load) and n.id not in names:
                names.append(n.id)
        choices = {}
        for name in names:
            ds = du.defs.get(name)
            if not ds:
                continue
            all_nodes = {d[0] for d in ds}
            opts = []
            for dn, v, how in ds:
                if dn not in live:
                    continue
                r = self.reach(fi, [dn], val, avoid=all_nodes - {dn, at}, cache=cache)
                if at in r:
                    opts.append((dn, v, how))
            if not opts:
                continue
            vals = []
            for dn, v, how in opts:
                if isinstance(v, Elem):
                    le = du._list_element(v.iter_expr, v.path, dn, depth)
                    if le is None:
                        le = elem_expr(v.iter_expr, v.path)
                        if le is not None and depth <= 8:
                            vals.append(self.alts(fi, le, dn, val, live, cache, depth + 1))
                            continue
                    vals.append([le] if le is not None else [None])
                elif v is None or how in UNKNOWN_HOW or (dn is at and how != "walrus") or depth > 8:
                    vals.append([None])
                else:
                    vals.append(self.alts(fi, v, dn, val, live, cache, depth + 1))
            flat = []
            for vs in vals:
                for x in vs:
                    if not any(x is not None and y is not None and ast.dump(x) == ast.dump(y) for y in flat) or x is None:
                        flat.append(x)
            choices[name] = flat[:4]
        if not choices:
            return [copy.deepcopy(expr)]
        out = []
        keys = list(choices)
        for combo in itertools.islice(itertools.product(*[choices[k] for k in keys]), 6):
            m = dict(zip(keys, combo))

            class X(ast.NodeTransformer):
                def visit_Name(self, n):
                    if isinstance(n.ctx, ast.Load) and m.get(n.id) is not None:
                        return copy.deepcopy(m[n.id])
                    return n

                def visit_NamedExpr(self, n):
                    return self.visit(copy.deepcopy(n.value))

                def visit_Lambda(self, n):
                    return n

            r = fold_subscripts(X().visit(copy.deepcopy(expr)))
            if not any(isinstance(n, ast.Subscript) and isinstance(n.value, ast.Constant) and n.value.value is None for n in ast.walk(r)):
                out.append(r)
        return out or [copy.deepcopy(expr)]

    # ------------------------------------------------------------------ canonical forms
    def inline(self, fi, call: ast.Call, val, depth=0):
        """If *call* is self.helper(...) with a non-API helper: the helper's return alternatives with the
        parameters substituted by the (already expanded) arguments; else None."""
        f = call.func
        if not (isinstance(f, ast.Attribute) and isinstance(f.value, ast.Name) and f.value.id == fi.self_name):
            return None
        h = self.method(f.attr)
        if h is None or f.attr in SIZE_METHODS or depth > 2 or h.is_lambda:
            return None
        rets = [n for n in h.own_nodes() if isinstance(n, ast.Return) and n.value is not None]
        if not rets or not all(isinstance(r.value, (ast.Tuple, ast.Name, ast.BinOp)) for r in rets):
            return None
        if not any(isinstance(r.value, ast.Tuple) for r in rets):
            return None
        params = h.params[1:]
        amap = {}
        i = 0
        for a in call.args:
            if isinstance(a, ast.Starred):
                for k in range(len(params) - i):
                    amap[params[i + k]] = ast.Subscript(value=a.value, slice=ast.Constant(value=k), ctx=ast.Load())
                i = len(params)
            elif i < len(params):
                amap[params[i]] = a
                i += 1
        for kw in call.keywords:
            if kw.arg:
                amap[kw.arg] = kw.value
        hdu = self.du(h)
        cache = {}
        live = self.reach(h, [hdu.cfg.entry], val, cache=cache, include_start=True)
        outs = []
        for r in rets:
            rn = hdu.node_of(r)
            if rn is None or rn not in live:
                continue
            for alt in self.alts(h, r.value, rn, val, live, cache):

                class S(ast.NodeTransformer):
                    def visit_Name(self, n):
                        if isinstance(n.ctx, ast.Load) and n.id in amap:
                            return copy.deepcopy(amap[n.id])
                        if isinstance(n.ctx, ast.Load) and n.id == h.self_name:
                            return ast.Name(id=fi.self_name, ctx=ast.Load())
                        return n

                outs.append((S().visit(alt), h))
        return outs

    def normalise(self, e, fi):
        """Reduce self.helper(args)[i] to helper[i]; resolve property aliases."""
        cg = self

        class N(ast.NodeTransformer):
            def visit_Call(self, n):
                f = n.func
                if isinstance(f, ast.Attribute) and isinstance(f.value, ast.Name) and f.value.id == fi.self_name and cg.method(f.attr) is not None:
                    return ast.Name(id=f"<{f.attr}>", ctx=ast.Load())
                return self.generic_visit(n)

            def visit_Attribute(self, n):
                if isinstance(n.value, ast.Name) and n.value.id == fi.self_name:
                    return ast.Attribute(value=n.value, attr=cg.attr(n.attr), ctx=n.ctx)
                return self.generic_visit(n)

        return N().visit(copy.deepcopy(e))

    def canon_elem(self, e) -> str:
        L = linear(e)
        if L is not None:
            return lin_str(L)
        return ast.unparse(e)

    def canon(self, e, fi, val=None) -> str:
        e = self.normalise(e, fi)
        if val is not None and val.size_len is not None:
            n = val.size_len

            class Z(ast.NodeTransformer):
                def visit_Subscript(self, s):
                    s = self.generic_visit(s)
                    if isinstance(s.value, ast.Name) and s.value.id == "size" and isinstance(s.slice, ast.Slice) and s.slice.upper is None and s.slice.step is None:
                        lo = s.slice.lower.value if isinstance(s.slice.lower, ast.Constant) else 0 if s.slice.lower is None else None
                        if lo is not None:
                            return ast.Tuple(elts=[ast.Subscript(value=ast.Name(id="size", ctx=ast.Load()), slice=ast.Constant(value=i), ctx=ast.Load()) for i in range(lo, n)], ctx=ast.Load())
                    return s

                def visit_BinOp(self, b):
                    b = self.generic_visit(b)
                    if isinstance(b.op, ast.Add) and isinstance(b.left, ast.Tuple) and isinstance(b.right, ast.Tuple):
                        return ast.Tuple(elts=[*b.left.elts, *b.right.elts], ctx=ast.Load())
                    return b

            e = fold_subscripts(Z().visit(e))
        if isinstance(e, ast.Tuple):
            return "(" + ", ".join(self.canon_elem(x) for x in e.elts) + ")"
        if isinstance(e, ast.BinOp) and isinstance(e.op, ast.Add) and isinstance(e.left, ast.Tuple):
            return "(" + ", ".join([self.canon_elem(x) for x in e.left.elts] + ["*" + ast.unparse(e.right)]) + ")"
        return ast.unparse(e)

    def unresolved_locals(self, e, fi) -> list[str]:
        local = {n.id for n in fi.own_nodes() if isinstance(n, ast.Name) and isinstance(n.ctx, ast.Store)}
        local -= set(fi.all_params)
        return sorted({n.id for n in ast.walk(e) if isinstance(n, ast.Name) and n.id in local})

    # ------------------------------------------------------------------ per entry point
    def child_sizes(self, fi: FuncInfo, val: Valuation):
        """[(receiver text, method, canonical form | None, reason-if-None, call node)] of child calls live under *val*."""
        du = self.du(fi)
        cache = {}
        live = self.reach(fi, [du.cfg.entry], val, cache=cache, include_start=True)
        out = []
        for c in fi.own_nodes():
            if not (isinstance(c, ast.Call) and isinstance(c.func, ast.Attribute) and c.func.attr in SIZE_METHODS and c.args):
                continue
            rv = c.func.value
            if isinstance(rv, ast.Name) and rv.id == fi.self_name:
                continue
            if isinstance(rv, ast.Call) and isinstance(rv.func, ast.Name) and rv.func.id == "super":
                continue
            at = du.node_of(c)
            if at is None or at not in live:
                continue
            recvs = {ast.unparse(self.normalise(x, fi)) for x in self.alts(fi, rv, at, val, live, cache)}
            for alt in self.alts(fi, c.args[0], at, val, live, cache):
                forms = None
                if isinstance(alt, ast.Call):
                    forms = self.inline(fi, alt, val)
                if forms is None:
                    forms = [(alt, fi)]
                for fe, owner in forms:
                    unres = self.unresolved_locals(fe, owner) if owner is fi else [x for x in self.unresolved_locals(fe, owner)]
                    if owner is not fi:
                        unres += self.unresolved_locals(fe, fi)
                    for recv in sorted(recvs):
                        if unres:
                            out.append((recv, c.func.attr, None, f"depends on locals the expansion cannot resolve: {', '.join(sorted(set(unres)))}", c))
                        else:
                            out.append((recv, c.func.attr, self.canon(fe, fi, val), "", c))
        return out
