"""OPTCALL: optional widget-protocol methods are called on another widget only where that widget is known to have them.

get_cursor_coords, get_pref_col, move_cursor_to_coords and mouse_event are optional: Widget does not define them,
many bundled widgets (Scrollable, ScrollBar, SolidFill, Divider; ListBox has neither move_cursor_to_coords nor
get_pref_col) do not either.  A container or decoration that calls one of them on a child must therefore have tested
`hasattr(<same receiver>, "<method>")` on every path to the call (true edge, false edge of `not hasattr`, or the
left operand of the same `and`), otherwise wrapping such a child raises AttributeError on a cursor query, a cursor
move or a click.  Receivers that are aliases of a tested expression are listed in tables.OPTCALL_EXCEPTIONS."""

from __future__ import annotations

import ast

from ..core import RuleResult, finding, short, table_lookup
from ..model import Project, norm
from ..tables import OPTCALL_EXCEPTIONS
from .exc import ExcEngine
from .util import cfg_of, nodes_where

OPTIONAL = {"get_cursor_coords", "get_pref_col", "move_cursor_to_coords", "mouse_event"}


def run_optcall(p: Project, clause: str, modules, floor: int) -> RuleResult:
    rr = RuleResult("OPTCALL", clause, "get_cursor_coords / get_pref_col / move_cursor_to_coords / mouse_event are called on a child only under hasattr(child, <method>)", floor=floor)
    for fi in p.functions.values():
        if not any(fi.module.name == m or fi.module.name.startswith(m + ".") for m in modules):
            continue
        sn = fi.self_name
        sites = [c for c in fi.own_nodes() if isinstance(c, ast.Call) and isinstance(c.func, ast.Attribute) and c.func.attr in OPTIONAL and not (isinstance(c.func.value, ast.Name) and c.func.value.id == sn) and not isinstance(c.func.value, ast.Call)]
        cfg = cfg_of(fi) if (sites or fi.cls is not None) else None
        for c in sites:
            recv, m = ast.unparse(c.func.value), c.func.attr
            if isinstance(c.func.value, ast.Name) and c.func.value.id[:1].isupper():
                continue  # Class.method(self, ...) - an explicit base-class call
            nodes = nodes_where(cfg, lambda x: x is c)
            if not nodes:
                continue
            node = nodes[0]
            pos, neg = f"hasattr({recv}, '{m}')", f"not hasattr({recv}, '{m}')"
            guarded = False
            for t in cfg.nodes:
                if t.kind != "test" or t is node:
                    continue
                txt = ast.unparse(t.ast)
                if txt == neg or (txt.startswith("not ") and txt[4:] == pos):
                    guarded |= node not in ExcEngine._reach_without_edge(cfg, t, "F")
                elif pos in txt and neg not in txt:
                    guarded |= node not in ExcEngine._reach_without_edge(cfg, t, "T")
            for b in ast.walk(node.ast) if node.ast is not None else []:
                if isinstance(b, ast.BoolOp) and isinstance(b.op, ast.And):
                    idx = next((i for i, v in enumerate(b.values) if any(x is c for x in ast.walk(v))), None)
                    if idx and any(ast.unparse(v) == pos for v in b.values[:idx]):
                        guarded = True
            ident = f"{short(fi)}:{norm(c, 50)}"
            rr.inst(ident, True, {"caller": short(fi), "call": norm(c, 60), "guarded": guarded} if len(rr.samples) < 6 else None)
            if guarded:
                continue
            k = table_lookup(OPTCALL_EXCEPTIONS, f"{short(fi)}:", c, fi.module, 90)
            if k is not None:
                rr.exceptions_used.append(f"{k}: {OPTCALL_EXCEPTIONS[k]}")
                continue
            rr.add(finding("OPTCALL", fi, c, f"`{norm(c, 70)}` calls the optional method {m}() without `hasattr({recv}, \"{m}\")` on the path: a child that does not define it (Scrollable, ScrollBar, SolidFill; ListBox lacks move_cursor_to_coords / get_pref_col) makes {fi.name}() raise AttributeError", construct=f"unguarded optional call {norm(c, 70)}"))
        # a WidgetWrap subclass that overrides an optional method as a *method* always has it (hasattr() is true for
        # every caller) and reaches the wrapped widget through super().<method>(): the wrapped widget's own lack of the
        # method then surfaces as AttributeError inside the call (GridFlow without cells wraps a Divider; fix 3f5f19c).
        # Such a super() call is guarded by hasattr(self._w / self._wrapped_widget, <method>).
        if fi.cls is not None and any(k.name in ("WidgetWrap", "DelegateToWidgetMixin") for k in p.mro(fi.cls)[1:]):
            for c in [c for c in fi.own_nodes() if isinstance(c, ast.Call) and isinstance(c.func, ast.Attribute) and c.func.attr in OPTIONAL and c.func.attr != "mouse_event" and isinstance(c.func.value, ast.Call) and isinstance(c.func.value.func, ast.Name) and c.func.value.func.id == "super"]:
                m = c.func.attr
                node = (nodes_where(cfg, lambda x: x is c) or [None])[0]
                if node is None:
                    continue
                guarded = False
                for t in cfg.nodes:
                    if t.kind != "test":
                        continue
                    txt = ast.unparse(t.ast)
                    for recv in (f"{sn}._w", f"{sn}._wrapped_widget"):
                        pos = f"hasattr({recv}, '{m}')"
                        if txt == f"not {pos}":
                            guarded |= node not in ExcEngine._reach_without_edge(cfg, t, "F")
                        elif txt == pos:
                            guarded |= node not in ExcEngine._reach_without_edge(cfg, t, "T")
                rr.inst(f"{short(fi)}:{norm(c, 50)}", True, {"caller": short(fi), "call": norm(c, 60), "guarded": guarded} if len(rr.samples) < 8 else None)
                if not guarded:
                    rr.add(finding("OPTCALL", fi, c, f"`{norm(c, 60)}` forwards {m}() to the wrapped widget without `hasattr({sn}._w, \"{m}\")`: {fi.cls.name} defines the method itself, so every caller's hasattr() test passes, and a wrapped widget without it (the Divider an empty GridFlow displays) raises AttributeError inside the call", construct=f"{fi.cls.name}.{fi.name}: optional method forwarded to the wrapped widget unguarded"))
    return rr
