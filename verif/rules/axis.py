"""AXIS: horizontal options go to horizontal parameters, vertical options to vertical ones.

The placement options of Padding / Filler / Overlay / ListBox come in two parallel families with public,
documented names (align_type, align_amount, width_type, width_amount, min_width, left, right  |  valign_type,
valign_amount, height_type, height_amount, min_height, top, bottom).  The helpers that turn them into margins
(calculate_left_right_padding, calculate_top_bottom_filler, normalize_*, simplify_*, Overlay.options ...) name
their parameters the same way.  At every call whose callee is resolved in the project and takes at least two
parameters of these families, an argument that *is* one of these options (`self.valign_amount`, `min_width`, ...)
must land on a parameter of the same axis; and an argument that carries the exact name of a *different* parameter
of the callee is a swapped argument.

The lexicon is the option vocabulary of the public API (attribute / keyword names), not a convention about local
variable names: an argument whose name is not in the lexicon creates no obligation."""

from __future__ import annotations

import ast

from ..core import RuleResult, finding, short
from ..model import Project, norm

H = {"align", "align_type", "align_amount", "width", "width_type", "width_amount", "min_width", "left", "right", "maxcol", "cols", "col"}
V = {"valign", "valign_type", "valign_amount", "height", "height_type", "height_amount", "min_height", "top", "bottom", "maxrow", "rows", "row"}


def axis(name: str | None):
    if not name:
        return None
    n = name.lstrip("_")
    return "horizontal" if n in H else "vertical" if n in V else None


def _base(a):
    if isinstance(a, ast.Name):
        return a.id
    if isinstance(a, ast.Attribute) and isinstance(a.value, ast.Name) and a.value.id in ("self", "cls"):
        return a.attr
    return None


def run_axis(p: Project, clause: str, modules, floor: int) -> RuleResult:
    rr = RuleResult("AXIS", clause, "placement options reach parameters of their own axis (align/width/left/right vs valign/height/top/bottom); no argument carries the name of a different parameter of the callee", floor=floor)
    for fi in p.functions.values():
        if not any(fi.module.name == m or fi.module.name.startswith(m + ".") for m in modules):
            continue
        for c in fi.own_nodes():
            if not isinstance(c, ast.Call):
                continue
            t = p.resolve_call(c, fi)
            if not t:
                continue
            g = t[0]
            if not hasattr(g, "params"):
                m = p.find_member(g, "__init__") if hasattr(g, "methods") else None
                if not m or m[0] != "method":
                    continue
                g = m[1]
            params = list(g.params)
            if g.cls is not None and params and params[0] in ("self", "cls"):
                params = params[1:]
            if sum(1 for x in params if axis(x)) < 2:
                continue
            pairs = [(a, params[i]) for i, a in enumerate(c.args) if i < len(params) and not isinstance(a, ast.Starred)]
            pairs += [(k.value, k.arg) for k in c.keywords if k.arg]
            for a, pn in pairs:
                b = _base(a)
                if not b or not axis(b) or not axis(pn):
                    continue
                ident = f"{short(fi)}:{norm(c, 40)}:{pn}"
                rr.inst(ident, True, {"call": f"{short(fi)}: {norm(c, 50)}", "argument": ast.unparse(a), "parameter": pn} if len(rr.samples) < 6 else None)
                if axis(b) != axis(pn):
                    rr.add(finding("AXIS", fi, c, f"`{ast.unparse(a)}` (a {axis(b)} option) is passed as parameter `{pn}` (a {axis(pn)} one) of {short(g)}(): the {axis(pn)} placement is computed from the {axis(b)} setting", construct=f"{ast.unparse(a)} passed as {pn}"))
                elif b.lstrip("_") != pn and b.lstrip("_") in params:
                    rr.add(finding("AXIS", fi, c, f"`{ast.unparse(a)}` is passed as parameter `{pn}` of {short(g)}() although the callee has a parameter named `{b.lstrip('_')}`: swapped arguments", construct=f"{ast.unparse(a)} passed as {pn}"))
    return rr
