"""E5 WRAP: callback-capture coverage for event loops.

Foreign scheduling APIs that *swallow* (log) an exception raised by the callable they are given
are listed per loop class.  Every callable handed to such an API is evaluated abstractly
(closures with their captured environment, decorators, functools.wraps/partial, methods returning
nested functions) and every invocation of *user-supplied* code reachable from it must be
lexically inside a `try` whose handlers catch Exception/BaseException (the loop's capture
wrapper).  User-supplied code = parameters of the registering method (callback) and elements of
the idle-callback collection."""

from __future__ import annotations

import ast

from ..core import RuleResult, finding, short
from ..model import ClassInfo, FuncInfo, Project, norm


class User:
    def __init__(self, desc):
        self.desc = desc

    def __repr__(self):
        return f"User({self.desc})"


class Closure:
    def __init__(self, fi: FuncInfo, env: dict, bound=True):
        self.fi = fi
        self.env = env
        self.bound = bound

    def __repr__(self):
        return f"Closure({short(self.fi)})"


class Identity:
    pass


UNKNOWN = None


class WrapEval:
    def __init__(self, p: Project, cls: ClassInfo):
        self.p = p
        self.cls = cls
        self._parents: dict[int, dict] = {}

    # ---------------------------------------------------------------- helpers
    def parents(self, fi: FuncInfo):
        m = self._parents.get(id(fi.node))
        if m is None:
            m = {}
            for n in ast.walk(fi.node):
                for ch in ast.iter_child_nodes(n):
                    m[id(ch)] = n
            self._parents[id(fi.node)] = m
        return m

    def protected(self, node, fi: FuncInfo) -> bool:
        """Is *node* lexically inside the body of a try whose handlers catch Exception/BaseException?"""
        par = self.parents(fi)
        cur = node
        while id(cur) in par:
            up = par[id(cur)]
            if isinstance(up, ast.Try) and any(cur is s or self._contains(s, cur) for s in up.body):
                for h in up.handlers:
                    names = ["BaseException"] if h.type is None else [ast.unparse(x).split(".")[-1] for x in (h.type.elts if isinstance(h.type, ast.Tuple) else [h.type])]
                    if any(nm in ("Exception", "BaseException") for nm in names):
                        return True
            if up is fi.node:
                break
            cur = up
        return False

    @staticmethod
    def _contains(root, node):
        return any(x is node for x in ast.walk(root))

    # ---------------------------------------------------------------- evaluation
    def eval(self, e, fi: FuncInfo, env: dict, depth=0):
        if depth > 10 or e is None:
            return UNKNOWN
        p = self.p
        if isinstance(e, ast.Name):
            if e.id in env:
                return env[e.id]
            loc = p.local_def(fi, e.id)
            if loc is not None:
                return self.decorated(loc, fi, env, depth)
            # loop variable of a `for` in this function -> user element
            for n in fi.own_nodes():
                if isinstance(n, (ast.For, ast.AsyncFor)) and any(isinstance(x, ast.Name) and x.id == e.id for x in ast.walk(n.target)):
                    return User(f"element `{e.id}` of {norm(n.iter, 40)}")
            r = p.resolve_name(fi.module, e.id)
            if isinstance(r, FuncInfo):
                return Closure(r, {}, bound=False)
            return UNKNOWN
        if isinstance(e, ast.Lambda):
            lam = p.func_of_node.get(id(e))
            return Closure(lam, dict(env)) if lam else UNKNOWN
        if isinstance(e, ast.Attribute):
            sn = p._self_name(fi)
            if isinstance(e.value, ast.Name) and sn and e.value.id == sn:
                r = p.find_member(self.cls, e.attr)
                if r and r[0] == "method":
                    return Closure(r[1], {})
                return UNKNOWN
            if ast.unparse(e) in ("functools.wraps",):
                return "wraps"
            if ast.unparse(e) in ("functools.partial",):
                return "partial"
            return UNKNOWN
        if isinstance(e, ast.Call):
            f = self.eval(e.func, fi, env, depth + 1)
            if f == "wraps":
                return Identity()
            if f == "partial":
                return self.eval(e.args[0], fi, env, depth + 1) if e.args else UNKNOWN
            if isinstance(f, Identity):
                return self.eval(e.args[0], fi, env, depth + 1) if e.args else UNKNOWN
            if isinstance(f, Closure):
                return self.call_result(f, e, fi, env, depth + 1)
            return UNKNOWN
        return UNKNOWN

    def decorated(self, loc: FuncInfo, fi: FuncInfo, env: dict, depth):
        val = Closure(loc, dict(env), bound=False)
        for d in reversed(loc.decorators):
            dv = self.eval(d, fi, env, depth + 1)
            if isinstance(dv, Identity):
                continue
            if isinstance(dv, Closure):
                fake = ast.Call(func=d, args=[], keywords=[])
                val = self.call_result(dv, fake, fi, env, depth + 1, extra_args=[val])
            else:
                return UNKNOWN
        return val

    def bind(self, clo: Closure, call: ast.Call, fi: FuncInfo, env: dict, depth, extra_args=None):
        g = clo.fi
        ps = g.params
        if g.cls is not None and not g.is_static and clo.bound and not g.is_lambda and g.parent is g.cls.parent_func:
            ps = ps[1:]
        new = dict(clo.env)
        vals = list(extra_args or []) + [self.eval(a, fi, env, depth + 1) for a in call.args if not isinstance(a, ast.Starred)]
        for nm, v in zip(ps, vals):
            new[nm] = v
        for kw in call.keywords:
            if kw.arg:
                new[kw.arg] = self.eval(kw.value, fi, env, depth + 1)
        return new

    def call_result(self, clo: Closure, call, fi, env, depth, extra_args=None):
        """Abstract value returned by calling the closure: a nested function it returns, if any."""
        g = clo.fi
        new = self.bind(clo, call, fi, env, depth, extra_args)
        if g.is_lambda:
            return self.eval(g.node.body, g, new, depth + 1)
        rets = [n for n in g.own_nodes() if isinstance(n, ast.Return) and n.value is not None]
        vals = [self.eval(r.value, g, new, depth + 1) for r in rets]
        vals = [v for v in vals if v is not UNKNOWN]
        return vals[0] if len(vals) == 1 or (vals and all(type(v) is type(vals[0]) for v in vals)) else UNKNOWN

    # ---------------------------------------------------------------- obligation
    def unprotected(self, val, depth=0, seen=None):
        """User-code invocations reachable by *calling* val that are not inside a capturing try."""
        seen = seen if seen is not None else set()
        if isinstance(val, User):
            return [(val.desc, None, None)]
        if not isinstance(val, Closure) or depth > 12:
            return []
        key = (id(val.fi.node), tuple(sorted((k, repr(v)) for k, v in val.env.items())))
        if key in seen:
            return []
        seen.add(key)
        g = val.fi
        out = []
        body_nodes = g.own_nodes() if not g.is_lambda else list(ast.walk(g.node.body))
        for n in body_nodes:
            if not isinstance(n, ast.Call):
                continue
            if self.protected(n, g):
                continue
            v = self.eval(n.func, g, val.env, 0)
            if isinstance(v, User):
                out.append((v.desc, n, g))
            elif isinstance(v, Closure):
                new = self.bind(v, n, g, val.env, 0)
                out += self.unprotected(Closure(v.fi, new, v.bound), depth + 1, seen)
        return out


def run_wrap(p: Project, clause: str, table: dict, floor: int, description: str, informational=()) -> RuleResult:
    """table: class qualname -> {"apis": {(receiver text, method): arg index}, "ctors": {name: arg index},
    "hook_bases": [external base substrings whose methods are swallowing contexts]}"""
    rr = RuleResult("WRAP", clause, description, floor)
    for cq, spec in table.items():
        cls = p.cls(cq)
        ev = WrapEval(p, cls)
        info = cq in informational
        funcs = []
        for fi in p.all_class_functions(cls):
            funcs.append(fi)
            funcs += [g for g in p.functions.values() if g.parent is not None and _root(g) is fi]
        for fi in funcs:
            root = _root(fi)
            # environment: parameters of the registering method and of enclosing functions are user-supplied
            env = {}
            g = fi
            while g is not None:
                for prm in g.params:
                    if prm != p._self_name(g) and prm not in env:
                        env[prm] = User(f"parameter `{prm}` of {g.name}()")
                g = g.parent
            for n in fi.own_nodes():
                if not isinstance(n, ast.Call):
                    continue
                idx = None
                if isinstance(n.func, ast.Attribute):
                    idx = spec.get("apis", {}).get((ast.unparse(n.func.value), n.func.attr))
                nm = n.func.id if isinstance(n.func, ast.Name) else None
                if nm and nm in spec.get("ctors", {}):
                    idx = spec["ctors"][nm]
                if idx is None or idx >= len(n.args):
                    continue
                arg = n.args[idx]
                val = ev.eval(arg, fi, env)
                un = ev.unprotected(val)
                ident = f"{short(fi)}:{norm(n, 70)}"
                rr.inst(ident, True, {"site": short(fi), "call": norm(n, 80), "callable": repr(val), "unprotected_user_calls": len(un)})
                if val is UNKNOWN:
                    rr.add(finding("WRAP", fi, n, f"cannot determine what callable `{norm(arg, 50)}` is; the swallowing API {norm(n.func, 40)} would hide its exceptions", construct=f"unresolved callable {norm(n, 80)}", informational=info))
                    continue
                if un:
                    d0, node0, g0 = un[0]
                    where = f" at {g0.relpath}:{node0.lineno} in {short(g0)}" if node0 is not None else ""
                    rr.add(
                        finding(
                            "WRAP",
                            fi,
                            n,
                            f"`{norm(arg, 50)}` is handed to {norm(n.func, 40)}, which logs and swallows exceptions, but it runs user code ({d0}{where}) outside the loop's capturing try: "
                            "an exception (or ExitMainLoop) raised there never reaches run()",
                            construct=f"{norm(n.func, 40)}({norm(arg, 50)}) not captured",
                            informational=info,
                        )
                    )
        # hook methods of swallowing base classes (e.g. trio Instrument)
    for cq, spec in table.items():
        for hb in spec.get("hook_bases", []):
            for c in p.classes.values():
                if c.module is not p.cls(cq).module:
                    continue
                if not any(hb in eb for eb in c.external_bases):
                    continue
                ev = WrapEval(p, c)
                for fi in c.methods.values():
                    if fi.name.startswith("__"):
                        continue
                    un = ev.unprotected(Closure(fi, {}))
                    ident = f"{short(fi)} (hook of {hb})"
                    rr.inst(ident, True, {"hook": short(fi), "unprotected_user_calls": len(un)})
                    if un:
                        d0, node0, g0 = un[0]
                        rr.add(
                            finding(
                                "WRAP",
                                fi,
                                node0 if node0 is not None else fi.node,
                                f"{fi.name}() is a {hb} hook (the host library logs and swallows exceptions raised in it) and runs user code ({d0}) unprotected: "
                                "an exception or ExitMainLoop raised by it never reaches run()",
                                construct=f"hook {fi.name} runs user code uncaptured",
                                informational=cq in informational,
                            )
                        )
    return rr


def _root(fi: FuncInfo) -> FuncInfo:
    while fi.parent is not None:
        fi = fi.parent
    return fi
