"""E3 EXC: interprocedural exception-escape analysis.

may_escape(f) = set of (exception class name, origin) that can leave function f, for the
modelled origins:
  * explicit `raise` (X(...), X, X(...).with_traceback(..), `raise` re-raising handler types,
    `raise self.attr` resolved through class attributes);
  * may-raise builtins on non-constant operands: int()/float() of a possibly-textual value
    (ValueError), strict .decode()/.encode() with a non-total codec (UnicodeDecodeError /
    UnicodeEncodeError), unpacking a variable-length value into a fixed-size target (ValueError),
    next() without default (StopIteration), .index() (ValueError), chr() of an unconstrained
    value (ValueError), subscripting a module-level dict literal with a key not dominated by an
    `in` test (KeyError);
  * argument-kind contracts: `if not isinstance(p, T): raise TypeError` escapes at a call site
    only when the argument's kind is definitely not T.
Removed by enclosing try handlers / `with suppress(..)`, using the real class hierarchy
(builtins of the analysing interpreter + project exception classes).  Propagated over the
resolved call graph to a fixpoint.  IndexError from index arithmetic, AttributeError,
RecursionError and arithmetic on None are OUT OF MODEL.
"""

from __future__ import annotations

import ast
import builtins

from ..core import table_lookup, RuleResult, finding, short, walk_no_nested
from ..model import ClassInfo, FuncInfo, Module, Project, norm
from .util import cfg_of, node_exprs

TOTAL_DECODE = {"cp437", "latin-1", "latin1", "iso8859-1", "iso-8859-1", "iso8859_1", "cp1252x"}
TOTAL_ENCODE = {"utf-8", "utf8", "utf_8"}
NUMERIC_FUNCS = {"len", "round", "abs", "min", "max", "sum", "ord", "int", "float", "divmod", "pow", "int_scale"}


class Esc:
    __slots__ = ("exc", "why", "file", "line", "via", "cond")

    def __init__(self, exc, why, file, line, via=(), cond=None):
        self.exc = exc
        self.why = why
        self.file = file
        self.line = line
        self.via = tuple(via)
        self.cond = cond  # (param index, required kind) for argument-kind contracts

    @property
    def ident(self):
        return (self.exc, self.why, self.file, self.line, self.cond, self.boundary)

    @property
    def boundary(self):
        """The function through which the exception enters from another module (or, when everything
        is in one module, the function containing the origin): the granularity of a finding."""
        pre = self.file[len("urwid/") : -3].replace("/", ".") + "."
        for v in reversed(self.via):
            if not v.startswith(pre):
                return v
        return self.via[-1] if self.via else ""

    def __repr__(self):
        return f"{self.exc}[{self.why} @{self.file}:{self.line}]"


class ExcEngine:
    def __init__(self, p: Project, infeasible: dict | None = None, family=None):
        self.p = p
        self.memo: dict = {}
        self.in_progress: set = set()
        self.hit_cycle = False
        self.infeasible = infeasible or {}
        self.infeasible_used: list[str] = []
        self.unresolved = 0
        self.resolved = 0
        self.unresolved_names: set = set()
        self.family = family  # callable(attr name, fi) -> list[FuncInfo] for unknown receivers
        self.dispatch_cache: dict = {}

    # ------------------------------------------------------------ class hierarchy of exceptions
    def exc_bases(self, name: str) -> list[str]:
        b = getattr(builtins, name, None)
        if isinstance(b, type) and issubclass(b, BaseException):
            return [k.__name__ for k in b.__mro__ if k is not object]
        # struct.error etc.
        if name == "error":
            return ["error", "Exception", "BaseException"]
        out = [name]
        for c in self.p.classes.values():
            if c.name == name:
                for k in self.p.mro(c)[1:]:
                    out.append(k.name)
                for k in self.p.mro(c):
                    for eb in k.external_bases:
                        nm = eb.split(".")[-1].split("[")[0]
                        for x in self.exc_bases(nm):
                            if x not in out:
                                out.append(x)
                return out
        out += ["Exception", "BaseException"]
        return out

    def is_sub(self, a: str, b: str) -> bool:
        return b in self.exc_bases(a)

    @staticmethod
    def handler_types(h: ast.ExceptHandler) -> list[str]:
        if h.type is None:
            return ["BaseException"]
        els = h.type.elts if isinstance(h.type, ast.Tuple) else [h.type]
        return [ast.unparse(e).split(".")[-1] for e in els]

    # ------------------------------------------------------------ kinds
    def kind(self, e, fi: FuncInfo, depth=0):
        if depth > 6 or e is None:
            return None
        if isinstance(e, ast.Constant):
            return type(e.value).__name__ if isinstance(e.value, (bytes, str, int, float)) and not isinstance(e.value, bool) else None
        if isinstance(e, ast.JoinedStr):
            return "str"
        if isinstance(e, ast.Tuple):
            return "tuple"
        if isinstance(e, (ast.List, ast.ListComp)):
            return "list"
        if isinstance(e, ast.Call):
            f = e.func
            nm = f.id if isinstance(f, ast.Name) else f.attr if isinstance(f, ast.Attribute) else None
            if nm in ("chr", "str", "repr", "format") and isinstance(f, ast.Name):
                return "str"
            if nm in ("bytes", "bytearray") and isinstance(f, ast.Name):
                return "bytes"
            if nm in ("encode", "to_bytes"):
                return "bytes"
            if nm == "decode":
                return "str"
            if nm in ("len", "ord", "int", "round") and isinstance(f, ast.Name):
                return "int"
            if nm == "float" and isinstance(f, ast.Name):
                return "float"
            if nm in ("join",) and isinstance(f, ast.Attribute):
                return self.kind(f.value, fi, depth + 1)
            if nm == "frozenset":
                return "frozenset"
            if nm == "sizing" and isinstance(f, ast.Attribute):
                return "frozenset"
            if nm == "pack" and isinstance(f, ast.Attribute):
                return "tuple"
            return None
        if isinstance(e, ast.BinOp):
            if isinstance(e.op, ast.Add):
                a, b = self.kind(e.left, fi, depth + 1), self.kind(e.right, fi, depth + 1)
                if a and a == b:
                    return a
                if {a, b} <= {"int", "float"} and a and b:
                    return "float"
                return a if a in ("str", "bytes") and b is None else b if b in ("str", "bytes") and a is None else None
            if isinstance(e.op, ast.Mod) and self.kind(e.left, fi, depth + 1) in ("str", "bytes"):
                return self.kind(e.left, fi, depth + 1)
            if isinstance(e.op, (ast.Sub, ast.Mult, ast.FloorDiv, ast.Mod, ast.BitAnd, ast.BitOr, ast.LShift, ast.RShift, ast.Pow)):
                return "int" if self.kind(e.left, fi, depth + 1) != "float" and self.kind(e.right, fi, depth + 1) != "float" else "float"
            if isinstance(e.op, ast.Div):
                return "float"
        if isinstance(e, ast.Name):
            ks = set()
            n = 0
            for nd in fi.own_nodes():
                if isinstance(nd, ast.Assign):
                    for t in nd.targets:
                        if isinstance(t, ast.Name) and t.id == e.id:
                            ks.add(self.kind(nd.value, fi, depth + 1))
                            n += 1
                elif isinstance(nd, ast.AugAssign) and isinstance(nd.target, ast.Name) and nd.target.id == e.id:
                    ks.add(self.kind(nd.value, fi, depth + 1))
                    n += 1
                elif isinstance(nd, (ast.For, ast.comprehension)) and any(isinstance(x, ast.Name) and x.id == e.id for x in ast.walk(nd.target)):
                    return None
            if n and len(ks) == 1 and e.id not in fi.all_params:
                return ks.pop()
            return None
        return None

    # ------------------------------------------------------------ module-level dict literals
    def module_dict(self, e, fi: FuncInfo):
        """If *e* names a module-level dict literal return its ast.Dict (else None)."""
        if isinstance(e, ast.Name) and not self.p._is_local(fi, e.id):
            r = self.p.resolve_name(fi.module, e.id)
            if isinstance(r, tuple) and r[0] == "assign" and isinstance(r[2], ast.Dict):
                return r[2], r[1]
        if isinstance(e, ast.Attribute) and isinstance(e.value, ast.Name) and not self.p._is_local(fi, e.value.id):
            m = self.p.resolve_name(fi.module, e.value.id)
            if isinstance(m, Module):
                r = self.p.resolve_name(m, e.attr)
                if isinstance(r, tuple) and r[0] == "assign" and isinstance(r[2], ast.Dict):
                    return r[2], r[1]
        return None

    def dict_callables(self, d: ast.Dict, m: Module) -> list[FuncInfo]:
        key = id(d)
        if key in self.dispatch_cache:
            return self.dispatch_cache[key]
        out = []
        for v in d.values:
            for n in ast.walk(v):
                if isinstance(n, ast.Lambda):
                    fi = self.p.func_of_node.get(id(n))
                    if fi:
                        out.append(fi)
        self.dispatch_cache[key] = out
        return out

    # ------------------------------------------------------------ the analysis
    def may_escape(self, fi: FuncInfo, self_cls: ClassInfo | None = None) -> list[Esc]:
        scls = self_cls or fi.cls
        key = (fi.qualname, scls.qualname if scls else None)
        if key in self.memo:
            return self.memo[key]
        if key in self.in_progress:
            self.hit_cycle = True
            return []
        self.in_progress.add(key)
        out: dict = {}

        def emit(exc, why, node, guards, via=(), cond=None, file=None, line=None):
            for g in guards:
                if any(self.is_sub(exc, t) for t in g):
                    return
            e = Esc(exc, why, file or fi.relpath, line or getattr(node, "lineno", fi.lineno), via, cond)
            ikey = table_lookup(self.infeasible, f"{short(fi)}:{exc}:", node, fi.module) if node is not None else None
            if ikey:
                note = f"{ikey} - {self.infeasible[ikey]}"
                if note not in self.infeasible_used:
                    self.infeasible_used.append(note)
                return
            out.setdefault(e.ident, e)

        def propagate(callee: FuncInfo, call: ast.Call, guards, ccls=None, self_shift=0):
            escs = self.may_escape(callee, ccls)
            for x in escs:
                if x.cond is not None:
                    idx, want = x.cond
                    ai = idx - self_shift
                    arg = call.args[ai] if 0 <= ai < len(call.args) and not any(isinstance(a, ast.Starred) for a in call.args[: ai + 1]) else None
                    k = self.kind(arg, fi) if arg is not None else None
                    if k is None or k == want:
                        continue
                    emit(x.exc, f"{x.why}: argument `{norm(arg, 50)}` is {k}, callee requires {want}", call, guards, (short(callee), *x.via), None, x.file, x.line)
                else:
                    emit(x.exc, x.why, call, guards, (short(callee), *x.via), None, x.file, x.line)

        handler_stack: list = []  # types of enclosing except handlers (for bare raise)
        owner_cfg = {}

        def key_guarded(sub, dnode=None, key=None, container=None) -> bool:
            """use of `key` with `container` dominated by `key in container` (true edge) /
            `key not in container` (false edge)?"""
            cfg = cfg_of(fi)
            ktxt = ast.unparse(key if key is not None else sub.slice)
            dtxt = ast.unparse(container if container is not None else sub.value)
            here = None
            for cn in cfg.nodes:
                for r in node_exprs(cn):
                    if any(s is sub for s in walk_no_nested(r)):
                        here = cn
                        break
                if here:
                    break
            if here is None:
                return False
            for cn in cfg.nodes:
                if cn.kind != "test":
                    continue
                for c in ast.walk(cn.ast):
                    if isinstance(c, ast.Compare) and len(c.ops) == 1 and isinstance(c.ops[0], (ast.In, ast.NotIn)):
                        if ast.unparse(c.left) == ktxt and ast.unparse(c.comparators[0]) == dtxt:
                            # only sound when the compare is the whole test or a conjunct of an `and` (for In) /
                            # disjunct of an `or` (for NotIn)
                            good = "T" if isinstance(c.ops[0], ast.In) else "F"
                            if not self._compare_decides(cn.ast, c, good):
                                continue
                            bad = "F" if good == "T" else "T"
                            r = cfg.reachable([cfg.entry], avoid=[], include_start=True, labels=None) if False else None
                            # remove the good edge: is `here` still reachable from entry only via bad edge?
                            reach = self._reach_without_edge(cfg, cn, good)
                            if here not in reach:
                                return True
            return False

        def visit(node, guards):
            if isinstance(node, (ast.FunctionDef, ast.AsyncFunctionDef, ast.Lambda, ast.ClassDef)) and node is not fi.node:
                return
            if isinstance(node, ast.Try):
                caught = [t for h in node.handlers for t in self.handler_types(h)]
                for s in node.body:
                    visit(s, [*guards, caught] if caught else guards)
                for h in node.handlers:
                    handler_stack.append((h, self.handler_types(h)))
                    for s in h.body:
                        visit(s, guards)
                    handler_stack.pop()
                for s in (*node.orelse, *node.finalbody):
                    visit(s, guards)
                return
            if isinstance(node, (ast.With, ast.AsyncWith)):
                sup = []
                for it in node.items:
                    ce = it.context_expr
                    visit(ce, guards)
                    if isinstance(ce, ast.Call):
                        nm = ce.func.id if isinstance(ce.func, ast.Name) else ce.func.attr if isinstance(ce.func, ast.Attribute) else None
                        if nm == "suppress":
                            sup += [ast.unparse(a).split(".")[-1] for a in ce.args]
                for s in node.body:
                    visit(s, [*guards, sup] if sup else guards)
                return
            if isinstance(node, ast.Raise):
                self._raise(node, fi, scls, handler_stack, lambda exc, why, cond=None: emit(exc, why, node, guards, cond=cond))
            if isinstance(node, ast.Assign) and len(node.targets) == 1 and isinstance(node.targets[0], (ast.Tuple, ast.List)):
                if not any(isinstance(t, ast.Starred) for t in node.targets[0].elts) and self._variable_length(node.value, fi):
                    emit("ValueError", f"unpacking a variable-length value into {len(node.targets[0].elts)} names", node, guards)
            if isinstance(node, ast.Subscript) and isinstance(node.ctx, ast.Load):
                md = self.module_dict(node.value, fi)
                if md is not None and not isinstance(node.slice, ast.Constant):
                    if not key_guarded(node, md[0]):
                        emit("KeyError", f"lookup in module-level dict `{ast.unparse(node.value)}` with a key not checked by `in`", node, guards)
            if isinstance(node, ast.Call):
                self._call(node, fi, scls, guards, emit, propagate, key_guarded)
            if isinstance(node, ast.Attribute) and isinstance(node.ctx, ast.Load) and isinstance(node.value, ast.Name) and scls is not None:
                if node.value.id == self.p._self_name(fi):
                    r = self.p.find_member(scls, node.attr)
                    if r and r[0] == "property" and r[1].getter is not None:
                        propagate(r[1].getter, ast.Call(func=node, args=[], keywords=[], lineno=node.lineno, col_offset=node.col_offset), guards, ccls=scls, self_shift=1)
            for ch in ast.iter_child_nodes(node):
                visit(ch, guards)

        for s in fi.body:
            visit(s, [])
        self.in_progress.discard(key)
        res = list(out.values())
        self.memo[key] = res
        return res

    @staticmethod
    def _compare_decides(test, cmp, good):
        """Is *cmp* the whole test, or a top-level conjunct (good='T') / disjunct (good='F')?"""
        if test is cmp:
            return True
        if isinstance(test, ast.BoolOp):
            if good == "T" and isinstance(test.op, ast.And):
                return any(ExcEngine._compare_decides(v, cmp, good) for v in test.values)
            if good == "F" and isinstance(test.op, ast.Or):
                return any(ExcEngine._compare_decides(v, cmp, good) for v in test.values)
        return False

    @staticmethod
    def _reach_without_edge(cfg, test_node, label):
        seen = {cfg.entry}
        work = [cfg.entry]
        while work:
            n = work.pop()
            for t, lab in n.succ:
                if n is test_node and lab == label:
                    continue
                if t not in seen:
                    seen.add(t)
                    work.append(t)
        return seen

    def _variable_length(self, v, fi) -> bool:
        if isinstance(v, (ast.GeneratorExp, ast.ListComp)):
            return True
        if isinstance(v, ast.Call) and isinstance(v.func, ast.Attribute) and v.func.attr in ("split", "rsplit", "splitlines", "findall"):
            return True
        if isinstance(v, ast.Call) and isinstance(v.func, ast.Name) and v.func.id in ("list", "tuple", "map", "filter") and v.args and self._variable_length(v.args[0], fi) is not None:
            return isinstance(v.args[0], (ast.GeneratorExp, ast.ListComp)) or (isinstance(v.args[0], ast.Call) and self._variable_length(v.args[0], fi))
        return False

    def _raise(self, node: ast.Raise, fi, scls, handler_stack, emit):
        e = node.exc
        if e is None:
            if handler_stack:
                for t in handler_stack[-1][1]:
                    emit(t, "re-raised by bare `raise`")
            return
        # argument-kind contract?
        cond = None
        # find enclosing `if not isinstance(param, T)` whose body is exactly this raise
        for n in fi.own_nodes():
            if isinstance(n, ast.If) and len(n.body) == 1 and n.body[0] is node:
                t = n.test
                if isinstance(t, ast.UnaryOp) and isinstance(t.op, ast.Not) and isinstance(t.operand, ast.Call):
                    c = t.operand
                    if isinstance(c.func, ast.Name) and c.func.id == "isinstance" and len(c.args) == 2 and isinstance(c.args[0], ast.Name) and isinstance(c.args[1], ast.Name):
                        ps = fi.params
                        if c.args[0].id in ps and c.args[1].id in ("bytes", "str", "int", "float"):
                            cond = (ps.index(c.args[0].id), c.args[1].id)
        while True:
            if isinstance(e, ast.Call):
                f = e.func
                if isinstance(f, ast.Attribute) and f.attr == "with_traceback":
                    e = f.value
                    continue
                e = f
                continue
            break
        if isinstance(e, ast.Name):
            # exception instance bound by a handler?
            for h, types in reversed(handler_stack):
                if h.name == e.id:
                    for t in types:
                        emit(t, f"re-raise of caught `{e.id}`", cond)
                    return
            emit(e.id, "explicit raise", cond)
            return
        if isinstance(e, ast.Attribute):
            sn = self.p._self_name(fi)
            if isinstance(e.value, ast.Name) and sn and e.value.id == sn and scls is not None:
                r = self.p.find_member(scls, e.attr)
                if r and r[0] == "classattr" and isinstance(r[1], ast.Call):
                    nm = r[1].func.id if isinstance(r[1].func, ast.Name) else getattr(r[1].func, "attr", "Exception")
                    emit(nm, f"explicit raise of self.{e.attr}", cond)
                    return
            emit(e.attr, "explicit raise", cond)
            return
        emit("Exception", f"raise of unresolved expression `{norm(node, 60)}`", cond)

    def _textual(self, a, fi) -> bool:
        """Could int()/float() of *a* fail with ValueError (i.e. may *a* be text)?"""
        k = self.kind(a, fi)
        if k in ("int", "float"):
            return False
        if k in ("str", "bytes"):
            return not isinstance(a, ast.Constant)
        if isinstance(a, ast.Call):
            nm = a.func.id if isinstance(a.func, ast.Name) else a.func.attr if isinstance(a.func, ast.Attribute) else None
            if nm in NUMERIC_FUNCS:
                return False
            return True
        if isinstance(a, (ast.BinOp, ast.UnaryOp)):
            if isinstance(a, ast.BinOp) and isinstance(a.op, ast.Add):
                return self._textual(a.left, fi) and self._textual(a.right, fi)
            return False
        if isinstance(a, ast.IfExp):
            return self._textual(a.body, fi) or self._textual(a.orelse, fi)
        return True  # names, attributes, subscripts of unknown kind

    def _call(self, node: ast.Call, fi, scls, guards, emit, propagate, key_guarded):
        f = node.func
        p = self.p
        # ---- builtins
        if isinstance(f, ast.Name) and not p._is_local(fi, f.id) and p.resolve_name(fi.module, f.id) is None:
            if f.id in ("int", "float") and node.args and self._textual(node.args[0], fi):
                # explicit base argument means text for sure
                emit("ValueError", f"{f.id}() of a value that may be non-numeric text", node, guards)
            elif f.id == "next" and len(node.args) == 1:
                emit("StopIteration", "next() without default", node, guards)
            elif f.id == "chr" and node.args and not self._bounded_chr(node.args[0], fi):
                emit("ValueError", "chr() of an unconstrained integer", node, guards)
        if isinstance(f, ast.Attribute):
            if f.attr in ("decode", "encode") and not isinstance(f.value, ast.Constant) and not self._foldable(f.value, fi):
                errs = None
                codec = None
                if node.args:
                    codec = node.args[0]
                if len(node.args) > 1:
                    errs = node.args[1]
                for kw in node.keywords:
                    if kw.arg == "errors":
                        errs = kw.value
                    if kw.arg == "encoding":
                        codec = kw.value
                strict = errs is None or (isinstance(errs, ast.Constant) and errs.value == "strict")
                cname = codec.value.lower() if isinstance(codec, ast.Constant) and isinstance(codec.value, str) else None
                if strict:
                    if f.attr == "decode" and cname not in TOTAL_DECODE:
                        emit("UnicodeDecodeError", f"strict .decode({cname or 'variable codec'}) of non-constant bytes", node, guards)
                    if f.attr == "encode" and cname not in TOTAL_ENCODE and not (cname is None and not node.args and not node.keywords):
                        emit("UnicodeEncodeError", f"strict .encode({cname or 'variable codec'}) of a non-constant string", node, guards)
            if f.attr == "index" and len(node.args) >= 1 and not isinstance(f.value, ast.Constant):
                if not key_guarded(node, key=node.args[0], container=f.value):
                    emit("ValueError", ".index() of a value that may be absent", node, guards)
        # ---- project callees
        targets = p.resolve_callee(f, fi, scls)
        self_shift = 0
        if targets is None and isinstance(f, ast.Name):
            # call through a local taken from a module-level dispatch table
            d = self._dispatch_dict_of_local(f.id, fi)
            if d is not None:
                lambdas = self.dict_callables(d[0], d[1])
                self.resolved += 1
                for lam in lambdas:
                    propagate(lam, node, guards, ccls=scls, self_shift=0)
                return
        if targets is None and isinstance(f, ast.Attribute):
            # receiver is the first parameter of a dispatch lambda analysed on behalf of scls
            if fi.is_lambda and scls is not None and isinstance(f.value, ast.Name) and fi.params and f.value.id == fi.params[0] and fi.cls is None:
                r = p.find_member(scls, f.attr)
                if r and r[0] == "method":
                    targets = [r[1]]
            elif self.family is not None:
                targets = self.family(f, fi) or None
        if targets is None:
            if isinstance(f, ast.Attribute) and self.p.methods_named(f.attr):
                self.unresolved += 1
                self.unresolved_names.add(f.attr)
            return
        self.resolved += 1
        for t in targets:
            if isinstance(t, ClassInfo):
                r = p.find_member(t, "__init__")
                if r and r[0] == "method":
                    propagate(r[1], node, guards, ccls=t, self_shift=1)
                continue
            shift = 0
            if t.cls is not None and not t.is_static and isinstance(f, ast.Attribute) and not (isinstance(f.value, ast.Name) and isinstance(p.resolve_name(fi.module, f.value.id), ClassInfo) and not p._is_local(fi, f.value.id)):
                shift = 1  # bound call: callee param 0 is self
            ccls = scls if (t.cls is not None and scls is not None and t.cls in p.mro(scls)) else t.cls
            propagate(t, node, guards, ccls=ccls, self_shift=shift)

    def _foldable(self, e, fi) -> bool:
        """Is *e* a compile-time constant (literal / f-string over module constants)?"""
        from ..consteval import Folder, Unfoldable

        if any(isinstance(n, ast.Name) and self.p._is_local(fi, n.id) for n in ast.walk(e)):
            return False
        try:
            Folder(self.p, fi.module).ev(e, {})
            return True
        except Unfoldable:
            return False
        except Exception:  # noqa: BLE001
            return False

    def _bounded_chr(self, a, fi) -> bool:
        if isinstance(a, ast.Constant):
            return True
        if isinstance(a, ast.BinOp) and isinstance(a.op, (ast.Mod, ast.BitAnd)) and isinstance(a.right, ast.Constant):
            return True
        if isinstance(a, ast.BinOp) and isinstance(a.op, (ast.Add, ast.Sub)):
            return self._bounded_chr(a.left, fi) or self._bounded_chr(a.right, fi)
        if isinstance(a, ast.Call) and isinstance(a.func, ast.Name) and a.func.id in ("ord", "min"):
            return True
        txt = ast.unparse(a)
        for n in fi.own_nodes():
            if isinstance(n, ast.Compare) and any(ast.unparse(x) == txt for x in (n.left, *n.comparators)):
                return True
        if isinstance(a, ast.Name):
            # bytes iteration variables and values compared against small constants are treated as bounded
            for n in fi.own_nodes():
                if isinstance(n, ast.Compare) and isinstance(n.left, ast.Name) and n.left.id == a.id:
                    return True
                if isinstance(n, ast.Compare) and any(isinstance(c, ast.Name) and c.id == a.id for c in n.comparators):
                    return True
                if isinstance(n, (ast.For, ast.comprehension)) and isinstance(n.target, ast.Name) and n.target.id == a.id:
                    return True
            return False
        return False

    def _dispatch_dict_of_local(self, name: str, fi: FuncInfo):
        """Follow the local def-use chain of *name* back to a subscript of a module-level dict literal
        (`x := D[k]`, `y = x`, `a, b, f = y`, `y = Wrapper(*x)`)."""
        defs: dict[str, list] = {}
        for n in fi.own_nodes():
            tgts, val = [], None
            if isinstance(n, ast.Assign):
                tgts, val = n.targets, n.value
            elif isinstance(n, ast.AnnAssign) and n.value is not None:
                tgts, val = [n.target], n.value
            elif isinstance(n, ast.NamedExpr):
                tgts, val = [n.target], n.value
            for t in tgts:
                for x in ast.walk(t):
                    if isinstance(x, ast.Name):
                        defs.setdefault(x.id, []).append(val)
        seen, work = set(), [name]
        while work:
            nm = work.pop()
            if nm in seen:
                continue
            seen.add(nm)
            for v in defs.get(nm, []):
                for sub in ast.walk(v):
                    if isinstance(sub, ast.Subscript):
                        d = self.module_dict(sub.value, fi)
                        if d is not None:
                            return d
                    elif isinstance(sub, ast.Name) and isinstance(sub.ctx, ast.Load):
                        work.append(sub.id)
        return None

    def solve(self, fi: FuncInfo, self_cls=None) -> list[Esc]:
        """Fixpoint driver (re-runs while recursion cycles were cut)."""
        prev = None
        for _ in range(4):
            self.memo.clear()
            self.hit_cycle = False
            self.resolved = self.unresolved = 0
            res = self.may_escape(fi, self_cls)
            cur = sorted(e.ident for e in res)
            if not self.hit_cycle or cur == prev:
                return res
            prev = cur
        return res


def run_exc(p: Project, clause: str, entry_points: list, allowed: dict, infeasible: dict, floor: int, description: str, family=None, only: set | None = None, boundary_ok: dict | None = None) -> RuleResult:
    """entry_points: list of (qualname, self class name or None).  allowed: qualname -> set of exception
    names that may escape (subclasses included).  only: restrict the obligation to these exception
    classes (and subclasses).  infeasible: origin-level table 'function:Exc:construct' -> reason.
    boundary_ok: 'entry:Exc:boundary function' -> reason (confirmed not reachable with failing values)."""
    rr = RuleResult("EXC", clause, description, floor)
    eng = ExcEngine(p, infeasible, family)
    boundary_ok = boundary_ok or {}
    for q, cname in entry_points:
        fi = p.func(q)
        scls = p.cls(cname) if cname else None
        escs = eng.solve(fi, scls)
        ok = allowed.get(q, set())
        bad = [e for e in escs if e.cond is None and not any(eng.is_sub(e.exc, a) for a in ok)]
        if only is not None:
            bad = [e for e in bad if any(eng.is_sub(e.exc, o) for o in only)]
        rr.inst(
            f"entry {short(fi)}",
            True,
            {"entry": short(fi), "may_escape": sorted({e.exc for e in escs if e.cond is None}), "allowed": sorted(ok), "calls_resolved": eng.resolved,
             "calls_on_unknown_receiver_with_project_method_name": eng.unresolved},
        )
        for e in escs:
            rr.inst(f"{short(fi)}<-{e.exc}@{e.file}:{e.line}:{e.boundary}", True)
        groups: dict = {}
        for e in bad:
            groups.setdefault((e.exc, e.boundary or short(fi)), []).append(e)
        for (exc, boundary), es in sorted(groups.items()):
            bkey = f"{short(fi)}:{exc}:{boundary}"
            if bkey in boundary_ok:
                note = f"{bkey} - {boundary_ok[bkey]}"
                if note not in rr.exceptions_used:
                    rr.exceptions_used.append(note)
                continue
            es.sort(key=lambda e: (e.file, e.line))
            e0 = es[0]
            chain = " <- ".join(e0.via) if e0.via else "(raised directly)"
            f = finding(
                "EXC",
                fi,
                None,
                f"{exc} can escape {fi.name}() through {boundary}: {e0.why} at {e0.file}:{e0.line}" + (f" (+{len(es) - 1} more origin(s))" if len(es) > 1 else "") + f"; call chain: {chain}",
                construct=f"{exc} via {boundary}",
                origins=[f"{e.file}:{e.line} {e.why}" for e in es][:10],
                allowed=sorted(ok),
            )
            f.file, f.line = e0.file, e0.line
            rr.add(f)
    rr.exceptions_used += [x for x in eng.infeasible_used if x not in rr.exceptions_used]
    rr.units = {"entry_points": len(entry_points)}
    return rr
