"""LOOKAHEAD: a read `L[i + k]` (k >= 1) of a sequence is covered by a length test that reaches as far.

Parsers that look ahead in an argument list (SGR 38;5;N / 38;2;R;G;B in TermCanvas.sgi_to_attrspec) guard the
look-ahead with `i + m < len(L)`.  The guard has to reach the furthest element the guarded code reads: under
`i + 1 < len(L)` the read `L[i + 2]` raises IndexError for a list that ends right after `L[i + 1]` - an exception
that none of the callers catches ("never raises for any byte stream").

For every subscript load `L[i + k]` with a constant k >= 1, L and i plain names: some test `i + m < len(L)`
(or `len(L) > i + m`) with m >= k holds where the read happens - as an earlier operand of the same `and`, or as a
test dominating the read on its true edge.  A read without any such test is reported only if the function guards
*another* look-ahead on the same list this way (the function shows it cannot rely on the length)."""

from __future__ import annotations

import ast

from ..core import RuleResult, finding, short, walk_no_nested
from ..model import Project, norm
from .exc import ExcEngine
from .util import cfg_of, node_exprs


def _reach(test):
    """(list name, index name, m) for `i + m < len(L)` / `len(L) > i + m` / `i < len(L)` (m = 0), else None"""
    if not (isinstance(test, ast.Compare) and len(test.ops) == 1):
        return None
    a, op, b = test.left, test.ops[0], test.comparators[0]
    if isinstance(op, ast.Gt):
        a, b, op = b, a, ast.Lt()
    if isinstance(op, ast.GtE):
        a, b, op = b, a, ast.LtE()
    if not isinstance(op, (ast.Lt, ast.LtE)):
        return None
    if not (isinstance(b, ast.Call) and isinstance(b.func, ast.Name) and b.func.id == "len" and len(b.args) == 1 and isinstance(b.args[0], ast.Name)):
        return None
    lst = b.args[0].id
    m = 0
    idx = a
    if isinstance(a, ast.BinOp) and isinstance(a.op, ast.Add) and isinstance(a.right, ast.Constant) and isinstance(a.right.value, int):
        idx, m = a.left, a.right.value
    if not isinstance(idx, ast.Name):
        return None
    if isinstance(op, ast.LtE):
        m -= 1  # i + m <= len(L)  covers index i + m - 1
    return lst, idx.id, m


def _conjuncts_true(test):
    if isinstance(test, ast.BoolOp) and isinstance(test.op, ast.And):
        return [c for v in test.values for c in _conjuncts_true(v)]
    return [test]


def run_lookahead(p: Project, clause: str, modules, floor: int) -> RuleResult:
    rr = RuleResult("BOUND", clause, "every look-ahead read L[i + k] is covered by a length test i + m < len(L) with m >= k", floor=floor)
    for fi in p.functions.values():
        if not any(fi.module.name == m or fi.module.name.startswith(m + ".") for m in modules) or fi.is_lambda:
            continue
        reads = []
        for n in fi.own_nodes():
            if isinstance(n, ast.Subscript) and isinstance(n.ctx, ast.Load) and isinstance(n.value, ast.Name) and isinstance(n.slice, ast.BinOp) and isinstance(n.slice.op, ast.Add) and isinstance(n.slice.left, ast.Name) and isinstance(n.slice.right, ast.Constant) and isinstance(n.slice.right.value, int) and n.slice.right.value >= 1:
                reads.append(n)
        if not reads:
            continue
        cfg = cfg_of(fi)
        owner = {}
        for cn in cfg.nodes:
            for e in node_exprs(cn):
                for x in ast.walk(e):
                    owner.setdefault(id(x), cn)
        parents = {id(ch): par for par in ast.walk(fi.node) for ch in ast.iter_child_nodes(par)}
        all_guards = [(t, g) for t in cfg.nodes if t.kind == "test" for c in _conjuncts_true(t.ast) for g in [_reach(c)] if g]
        for r in reads:
            lst, idx, k = r.value.id, r.slice.left.id, r.slice.right.value
            cn = owner.get(id(r))
            best = None
            # earlier operands of an enclosing `and`
            x = r
            while id(x) in parents:
                par = parents[id(x)]
                if isinstance(par, ast.BoolOp) and isinstance(par.op, ast.And):
                    pos = next(i for i, v in enumerate(par.values) if v is x)
                    for v in par.values[:pos]:
                        for c in _conjuncts_true(v):
                            g = _reach(c)
                            if g and g[0] == lst and g[1] == idx:
                                best = g[2] if best is None else max(best, g[2])
                if isinstance(par, (ast.stmt,)):
                    break
                x = par
            # dominating tests on their true edge
            if cn is not None:
                for t, g in all_guards:
                    if g[0] == lst and g[1] == idx and t is not cn and cn not in ExcEngine._reach_without_edge(cfg, t, "T"):
                        best = g[2] if best is None else max(best, g[2])
            guarded_elsewhere = any(g[0] == lst and g[2] >= 1 for _t, g in all_guards)
            ident = f"{short(fi)}: {norm(r, 30)}"
            if best is None and not guarded_elsewhere:
                rr.inst(ident, False)
                continue
            rr.inst(ident, True, {"read": ident, "needs": k, "length_test_reaches": best} if len(rr.samples) < 8 else None)
            if best is None or best < k:
                rr.add(finding("BOUND", fi, r, f"`{norm(r, 30)}` reads {k} element(s) ahead of `{idx}` but the length test on the way only shows that `{idx} + {best if best is not None else 0}` is inside `{lst}`: a list that ends right after `{lst}[{idx} + {best if best is not None else 0}]` raises IndexError here, which no caller catches", construct=f"look-ahead {norm(r, 30)} beyond the length test"))
    return rr
