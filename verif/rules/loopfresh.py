"""LOOPFRESH: per-iteration state is not carried over from the previous iteration.

Some locals describe *the current item* of a loop (the row being assembled for this shard, the padding of this
line, the running column within this row): they are (re)defined in every iteration before they are read.  Hoisting
such an initialisation out of the loop ("it is loop-invariant") or dropping it from one branch silently carries the
value of the previous item over.

The instances are frozen in tables.LOOPFRESH_TABLE (function -> variables), each confirmed by reading.  For each
variable V, with L the outermost loop of the function that contains a definition of V: no definition of V made
inside L may reach a read of V inside L *through the head of L* (def-clear path definition -> head of L -> read)."""

from __future__ import annotations

import ast

from ..core import RuleResult, finding, short
from ..model import AnalysisError, Project, norm
from ..tables import LOOPFRESH_TABLE
from .defuse import DefUse


def signature(fi, du, var):
    """name-independent description of a local: the set of its defining statements with the local itself written
    as `$` and every other local of the function as `_` (attributes, calls, constants and globals stay)"""
    import copy

    locals_ = set(du.defs) | set(fi.params)
    out = set()

    def abstract(st):
        t = copy.deepcopy(st)
        for x in ast.walk(t):
            if isinstance(x, ast.Name):
                x.id = "$" if x.id == var else "_" if x.id in locals_ else x.id
        return ast.unparse(t)[:80]

    for dn, _v, _how in du.defs.get(var, []):
        st = dn.ast if dn.kind not in ("for", "with") else (dn.ast.target if dn.kind == "for" else None)
        if st is not None:
            out.add(abstract(st))
    # the statements that read it (tests, calls it is handed to, containers it is put into)
    for n in du.cfg.nodes:
        a = n.ast
        if a is None or n.kind in ("handler", "with"):
            continue
        root = a.iter if n.kind == "for" else a
        if isinstance(root, (ast.For, ast.While, ast.If, ast.With, ast.Try, ast.FunctionDef)):
            continue
        if any(isinstance(x, ast.Name) and x.id == var for x in ast.walk(root)):
            out.add(abstract(root))
    return tuple(sorted(out))


def resolve(fi, du, name, sig):
    """locals of fi playing the role the table calls *name*: the one with that name if its signature matches (or no
    signature is recorded), else every local whose signature equals the recorded one"""
    if name in du.defs:
        return [name]  # the recorded name is still a local: it is the one meant, however its statements changed
    if sig is None:
        return []
    return [v for v in du.defs if signature(fi, du, v) == tuple(sig)]


def _reads(node, var):
    a = node.ast
    if a is None:
        return False
    roots = [a]
    if node.kind == "for":
        roots = [a.iter]
    elif node.kind == "with":
        roots = [i.context_expr for i in a.items]
    elif node.kind in ("handler",):
        return False
    for r in roots:
        for x in ast.walk(r):
            if isinstance(x, ast.Name) and x.id == var and isinstance(x.ctx, ast.Load):
                return True
            if isinstance(x, ast.AugAssign) and isinstance(x.target, ast.Name) and x.target.id == var:
                return True
    return False


def run_loopfresh(p: Project, clause: str, prop: str, floor: int) -> RuleResult:
    rr = RuleResult("LOOPFRESH", clause, "per-iteration locals (current row / line / column state) are defined anew in every iteration before they are read", floor=floor)
    missing = []
    for q, (tags, vars_, why) in LOOPFRESH_TABLE.items():
        if prop not in tags:
            continue
        fi = p.func("urwid." + q)
        du = DefUse(fi)
        cfg = du.cfg
        heads = [h for h in cfg.nodes if h.kind in ("for", "while") or (h.kind == "test" and isinstance(getattr(h, "stmt", None), ast.While))]
        resolved = []
        for entry in vars_:
            name, sig = (entry, None) if isinstance(entry, str) else entry
            got = resolve(fi, du, name, sig)
            if not got:
                missing.append(f"{q}: no local plays the role of `{name}`")
            resolved.extend(got)
        for var in resolved:
            defs = [dn for dn, _v, _how in du.defs.get(var, [])]
            if not defs:
                missing.append(f"{q}: no definition of `{var}`")
                continue
            # outermost loop statement containing a definition
            loops = [l for l in fi.own_nodes() if isinstance(l, (ast.For, ast.While)) and any(any(x is d.stmt or x is d.ast for x in ast.walk(l)) for d in defs)]
            if not loops:
                missing.append(f"{q}: `{var}` is not defined inside any loop")
                continue
            outer = min(loops, key=lambda l: (l.lineno, -getattr(l, "end_lineno", 0)))
            inside = {id(x) for x in ast.walk(outer)}
            hs = [h for h in cfg.nodes if h.ast is not None and (h.ast is outer or (isinstance(outer, ast.While) and h.ast is outer.test) or (isinstance(outer, ast.For) and h.kind == "for" and h.ast is outer))]
            if not hs:
                missing.append(f"{q}: loop head for `{var}` not found in the CFG")
                continue
            H = hs[0]
            in_defs = [d for d in defs if d.ast is not None and (id(d.ast) in inside or id(d.stmt) in inside) and d is not H]
            others = set(defs)
            rr.inst(f"{q}:{var}", True, {"function": q, "variable": var, "loop": norm(outer.iter if isinstance(outer, ast.For) else outer.test, 40), "why": why} if len(rr.samples) < 6 else None)
            carried = None
            for d in in_defs:
                r1 = cfg.reachable([d], avoid=[x for x in others if x is not d], labels=("n", "T", "F"))
                if H not in r1:
                    continue
                r2 = cfg.reachable_from_edges([(H, "T")], avoid=list(others), labels=("n", "T", "F"))
                # reads at definition nodes themselves (x = f(x), x += 1) count as reads
                front = set(r2)
                for x in others:
                    if any(x in [m for m, _l in y.succ] for y in front | {H}) or any(m is x for m, l in H.succ if l == "T"):
                        front.add(x)
                uses = [u for u in front if u.ast is not None and (id(u.ast) in inside or id(getattr(u, "stmt", None)) in inside) and _reads(u, var) and not (u in others and not _self_read(u, var))]
                if uses:
                    carried = (d, uses[0])
                    break
            if carried:
                d, u = carried
                rr.add(finding("LOOPFRESH", fi, u.stmt, f"`{var}` read in `{norm(u.stmt, 50)}` can still hold the value `{norm(d.stmt, 50)}` gave it in the previous iteration of the loop over `{norm(outer.iter if isinstance(outer, ast.For) else outer.test, 30)}` (no definition in between): {why}", construct=f"{var} carried over between iterations"))
    if missing:
        rr.notes.extend(missing)
        rr.description += " - TABLE ENTRY NO LONGER MATCHES THE CODE: " + "; ".join(missing)
        rr.floor = rr.instances + 1000
    return rr


def _self_read(node, var):
    a = node.ast
    if isinstance(a, ast.AugAssign) and isinstance(a.target, ast.Name) and a.target.id == var:
        return True
    if isinstance(a, ast.Assign):
        return any(isinstance(x, ast.Name) and x.id == var and isinstance(x.ctx, ast.Load) for x in ast.walk(a.value))
    if node.kind == "test":
        return True
    return any(isinstance(x, ast.Name) and x.id == var and isinstance(x.ctx, ast.Load) for x in ast.walk(a)) if a is not None else False
