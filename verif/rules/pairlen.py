"""PAIRLEN: a run length recorded next to a piece of output text is the length of that very piece.

apply_target_encoding() and apply_text_layout() build a byte string piece by piece (`pieces.append(T)`, joined at
the end) and, in step, run-length lists that must cover exactly the same number of bytes (character-set runs,
attribute runs).  In every statement block, the length recorded after `pieces.append(T)` has to be the length of T:
`len(T)`, `rle_len(cs)` for the cs that was returned together with T, or `n` when T is `b"".rjust(n)`.  A length taken
from a sibling variable (the unstripped segment, the column width of the segment) makes the runs longer or shorter
than the text they describe."""

from __future__ import annotations

import ast

from ..core import RuleResult, finding, short
from ..model import AnalysisError, Project, norm


def _blocks(fn):
    for owner in ast.walk(fn):
        for fld in ("body", "orelse", "finalbody"):
            blk = getattr(owner, fld, None)
            if isinstance(blk, list) and blk and isinstance(blk[0], ast.stmt):
                yield blk


def run_pairlen(p: Project, clause: str, functions, floor: int) -> RuleResult:
    rr = RuleResult("PAIRLEN", clause, "the run length recorded after appending a piece of output text is the length of that piece", floor=floor)
    for q in functions:
        fi = p.func(q)
        # the piece lists: names that are joined (b"".join(name))
        pieces = {c.args[0].id for c in fi.own_nodes() if isinstance(c, ast.Call) and isinstance(c.func, ast.Attribute) and c.func.attr == "join" and c.args and isinstance(c.args[0], ast.Name)}
        if not pieces:
            raise AnalysisError(f"{q}: no joined piece list found")
        # cs partners: `T, cs = apply_target_encoding(...)`
        partner = {}
        for n in fi.own_nodes():
            if isinstance(n, ast.Assign) and isinstance(n.targets[0], ast.Tuple) and len(n.targets[0].elts) == 2 and all(isinstance(e, ast.Name) for e in n.targets[0].elts) and isinstance(n.value, ast.Call):
                partner[n.targets[0].elts[1].id] = n.targets[0].elts[0].id
        for blk in _blocks(fi.node):
            cur = None
            for st in blk:
                if not isinstance(st, ast.Expr) or not isinstance(st.value, ast.Call):
                    if isinstance(st, (ast.If, ast.For, ast.While, ast.With, ast.Try)):
                        cur = None
                    continue
                c = st.value
                if isinstance(c.func, ast.Attribute) and c.func.attr == "append" and isinstance(c.func.value, ast.Name) and c.func.value.id in pieces and c.args:
                    cur = c.args[0]
                    continue
                if cur is None:
                    continue
                # lengths mentioned by the bookkeeping call
                lens = []
                for a in ast.walk(c):
                    if isinstance(a, ast.Call) and isinstance(a.func, ast.Name) and a.func.id in ("len", "rle_len") and a.args:
                        lens.append(a)
                bare = []
                if isinstance(c.func, ast.Attribute) and c.func.attr == "append" and c.args and isinstance(c.args[0], ast.Tuple) and len(c.args[0].elts) == 2 and not lens:
                    bare = [c.args[0].elts[1]]
                if isinstance(c.func, ast.Name) and c.func.id.endswith("range") and len(c.args) == 3 and not lens:
                    bare = [c.args[2]]
                if not lens and not bare:
                    continue
                T = ast.unparse(cur)
                rj = cur.args[0] if isinstance(cur, ast.Call) and isinstance(cur.func, ast.Attribute) and cur.func.attr in ("rjust", "ljust") and cur.args else None
                ok = True
                why = ""
                for l in lens:
                    arg = ast.unparse(l.args[0])
                    if l.func.id == "len" and arg != T:
                        ok, why = False, f"len({arg})"
                    if l.func.id == "rle_len" and partner.get(arg) != T:
                        ok, why = False, f"rle_len({arg})"
                for b in bare:
                    if rj is None or ast.unparse(b) != ast.unparse(rj):
                        ok, why = False, ast.unparse(b)
                rr.inst(f"{short(fi)}:{norm(st, 50)}", True, {"piece": T[:50], "bookkeeping": norm(st, 60)} if len(rr.samples) < 6 else None)
                if not ok:
                    rr.add(finding("PAIRLEN", fi, st, f"`{norm(st, 60)}` records the length `{why}` for the piece `{T[:50]}` that was just appended: the run lists cover a different number of bytes than the text (a run that is too short or long shifts every later attribute / character-set run of the line)", construct=f"length {why} recorded for piece {T[:40]}"))
    return rr
