"""FOCUS-FWD: a function that is told whether it is in focus (parameter `focus`) passes that on to every callee
that also takes a `focus` parameter.

Leaving the argument out silently means focus=False (every such parameter has that default): the callee then
computes the layout / rendering / scroll position of the *unfocused* widget - the focus map is not applied, the
cursor is missing, ListBox.calculate_visible() does not shift the view to the cursor - while the rest of the
caller works with the focused one.  The callee set is resolved through the project model (self / super() calls)
and, for receivers of unknown type, through the set of all widget-layer definitions of that method name: the rule
only applies when *every* candidate takes `focus`.

Sites that legitimately drop focus are listed one by one in tables.FWD_EXCEPTIONS (keyed by caller and
name-abstracted call)."""

from __future__ import annotations

import ast

from ..core import RuleResult, finding, short, table_lookup
from ..model import Project, norm
from ..tables import FWD_EXCEPTIONS


def _layers(p: Project, prefixes):
    return [fi for fi in p.functions.values() if any(fi.module.name == m or fi.module.name.startswith(m + ".") for m in prefixes)]


def run_flag_fwd(p: Project, clause: str, modules, param: str, floor: int, description: str) -> RuleResult:
    """Strict variant for an internal flag (e.g. `more_available`): every resolved callee that takes the flag gets
    the caller's own flag - not a constant, not nothing."""
    rr = RuleResult("FLAG-FWD", clause, description, floor=floor)
    for fi in _layers(p, modules):
        if param not in fi.params:
            continue
        for c in fi.own_nodes():
            if not isinstance(c, ast.Call):
                continue
            cands = [x for x in (p.resolve_call(c, fi) or []) if hasattr(x, "params") and param in x.params]
            if not cands:
                continue
            g = cands[0]
            i = g.params.index(param) - (1 if g.cls is not None and g.params and g.params[0] in ("self", "cls") else 0)
            arg = c.args[i] if len(c.args) > i else next((k.value for k in c.keywords if k.arg == param), None)
            rr.inst(f"{short(fi)}:{norm(c, 60)}", True, {"caller": short(fi), "call": norm(c, 60)} if len(rr.samples) < 6 else None)
            if not (isinstance(arg, ast.Name) and arg.id == param):
                rr.add(finding("FLAG-FWD", fi, c, f"`{norm(c, 70)}` passes `{ast.unparse(arg) if arg is not None else 'nothing'}` as `{param}` instead of the `{param}` flag {fi.name}() itself received: the callee decides differently from its caller whether more input may follow", construct=f"{param} not forwarded: {norm(c, 70)}"))
    return rr


def run_fwd(p: Project, clause: str, modules, floor: int, description: str | None = None) -> RuleResult:
    rr = RuleResult("FOCUS-FWD", clause, description or "functions that receive `focus` pass it on to every callee that takes `focus`", floor=floor)
    cand_scope = ("urwid.widget", "urwid.canvas", "urwid.vterm")
    for fi in _layers(p, modules):
        if "focus" not in fi.params:
            continue
        for c in fi.own_nodes():
            if not isinstance(c, ast.Call) or not isinstance(c.func, ast.Attribute):
                continue
            cands = [x for x in (p.resolve_call(c, fi) or []) if hasattr(x, "params")]
            how = "resolved"
            if not cands:
                cands = [x for x in p.methods_named(c.func.attr) if any(x.module.name == m or x.module.name.startswith(m + ".") for m in cand_scope)]
                how = "by method name"
            if not cands or not all("focus" in x.params for x in cands):
                continue
            idxs = {x.params.index("focus") - (1 if x.cls is not None else 0) for x in cands}
            kw = any(k.arg == "focus" or k.arg is None for k in c.keywords)
            pos = any(len(c.args) > i for i in idxs) or any(isinstance(a, ast.Starred) for a in c.args)
            ident = f"{short(fi)}:{norm(c, 60)}"
            if kw or pos:
                rr.inst(ident, True, {"caller": short(fi), "call": norm(c, 60), "callee": how} if len(rr.samples) < 6 else None)
                continue
            k = table_lookup(FWD_EXCEPTIONS, f"{short(fi)}:", c, fi.module, 80)
            if k is not None:
                rr.inst(ident, True)
                rr.exceptions_used.append(f"{k}: {FWD_EXCEPTIONS[k]}")
                continue
            rr.inst(ident, True)
            rr.add(finding("FOCUS-FWD", fi, c, f"`{norm(c, 70)}` leaves out the focus flag although {fi.name}() received one and {c.func.attr}() takes it ({how}): the callee works with focus=False - the geometry / rendering of the unfocused widget - while the caller was asked about the focused one", construct=f"focus not forwarded: {norm(c, 70)}"))
    return rr


def run_self_fwd(p: Project, clause: str, modules, floor: int) -> RuleResult:
    """A container's `focus` parameter says whether the *container* is in focus.  Helper methods of the same object that
    take a `focus` parameter mean the same flag; what a single child sees is derived from it per child
    (`focus and i == self.focus_position`).  When a method calls such a helper on `self`, the argument is therefore its
    own `focus` parameter (or a constant) - never a per-item flag computed in a loop: Pile.get_rows_sizes() handing
    `item_focus` to get_item_rows() makes the weighted rows be computed as if the focused pack item were unfocused, the
    rows no longer add up to maxrow."""
    rr = RuleResult("FLAG-FWD", clause, "a method that calls a helper of its own object taking `focus` passes its own focus flag (or a constant), not a per-item flag", floor=floor)
    for fi in _layers(p, modules):
        if "focus" not in fi.params or not fi.self_name:
            continue
        for c in fi.own_nodes():
            if not (isinstance(c, ast.Call) and isinstance(c.func, ast.Attribute) and isinstance(c.func.value, ast.Name) and c.func.value.id == fi.self_name):
                continue
            t = [x for x in (p.resolve_call(c, fi) or []) if hasattr(x, "params") and "focus" in x.params]
            if not t:
                continue
            g = t[0]
            i = g.params.index("focus") - 1
            a = c.args[i] if len(c.args) > i else next((k.value for k in c.keywords if k.arg == "focus"), None)
            if a is None:
                continue
            ok = (isinstance(a, ast.Name) and a.id == "focus") or isinstance(a, ast.Constant)
            rr.inst(f"{short(fi)}:{norm(c, 50)}", True, {"caller": short(fi), "call": norm(c, 60), "focus_argument": ast.unparse(a)} if len(rr.samples) < 6 else None)
            if not ok:
                rr.add(finding("FLAG-FWD", fi, c, f"`{norm(c, 70)}` hands `{ast.unparse(a)}` to {short(g)}() as the object's focus flag; that helper derives each child's flag from it itself - given a per-item flag it treats the whole container as (un)focused by the state of one item, and what it computes (rows of the weighted items) disagrees with what the caller computes with the real flag", construct=f"self-call passes {ast.unparse(a)} as focus"))
    return rr
