"""TRUTHY: a value for which 0 (or another falsy value) is legitimate must be tested by identity
with None, never by truthiness.  Sources of such values are given per call site (callee-name
pattern, e.g. the colour parsers which return a colour number - 0 included - or None)."""

from __future__ import annotations

import ast
import re

from ..core import RuleResult, finding, short
from ..model import Project, norm
from .defuse import DefUse


def _bool_context_names(fi):
    """(Name node, enclosing statement-ish node) for names evaluated for truthiness."""
    out = []

    def operands(e):
        if isinstance(e, ast.BoolOp):
            for v in e.values:
                yield from operands(v)
        elif isinstance(e, ast.UnaryOp) and isinstance(e.op, ast.Not):
            yield from operands(e.operand)
        elif isinstance(e, ast.NamedExpr):
            yield from operands(e.value)
        else:
            yield e

    for n in fi.own_nodes():
        tests = []
        if isinstance(n, (ast.If, ast.While, ast.IfExp, ast.Assert)):
            tests.append(n.test)
        elif isinstance(n, ast.BoolOp):
            tests.append(n)
        elif isinstance(n, ast.UnaryOp) and isinstance(n.op, ast.Not):
            tests.append(n)
        elif isinstance(n, ast.comprehension):
            tests.extend(n.ifs)
        for t in tests:
            for o in operands(t):
                if isinstance(o, ast.Name):
                    out.append((o, n))
    return out


def run_truthy(p: Project, clause: str, funcs: list[str], zero_sources: str, floor: int, description: str) -> RuleResult:
    rr = RuleResult("TRUTHY", clause, description, floor)
    pat = re.compile(zero_sources)
    for q in funcs:
        fi = p.func(q)
        du = DefUse(fi)

        def kind(name, at, seen):
            """'zero-valid' if a reaching definition comes from a zero-valid source"""
            why = []
            for v, how, dn in du.reaching(name, at):
                if (name, dn.id) in seen:
                    continue
                seen.add((name, dn.id))
                if isinstance(v, ast.Call):
                    f = v.func
                    nm = f.id if isinstance(f, ast.Name) else f.attr if isinstance(f, ast.Attribute) else ""
                    if pat.search(nm):
                        why.append(f"`{norm(v, 50)}`")
                elif isinstance(v, ast.Constant) and v.value == 0 and not isinstance(v.value, bool) and v.value is not None:
                    why.append("the literal 0")
                elif isinstance(v, ast.Name):
                    why += kind(v.id, dn, seen)
            return why

        # zero-valid locals of the function (instances): every name defined from a source
        sources = set()
        for name, ds in du.defs.items():
            for dn, v, how in ds:
                if isinstance(v, ast.Call):
                    f = v.func
                    nm = f.id if isinstance(f, ast.Name) else f.attr if isinstance(f, ast.Attribute) else ""
                    if pat.search(nm):
                        sources.add(name)
        for s in sorted(sources):
            rr.inst(f"{short(fi)}:{s}", True, {"function": short(fi), "zero_valid_local": s} if len(rr.samples) < 6 else None)
        seen_nodes = set()
        for nm, ctx_node in _bool_context_names(fi):
            if id(nm) in seen_nodes:
                continue
            seen_nodes.add(id(nm))
            at = du.node_of(nm)
            if at is None:
                continue
            why = kind(nm.id, at, set())
            src = [w for w in why if w != "the literal 0"]
            if src:
                rr.add(
                    finding(
                        "TRUTHY", fi, ctx_node,
                        f"`{nm.id}` is tested for truthiness but can hold the result of {', '.join(sorted(set(src)))}, for which 0 is a legitimate value (distinct from None = absent): the value 0 is mistaken for 'absent'",
                        construct=f"truthiness test of zero-valid `{nm.id}`",
                    )
                )
    return rr
