"""POSBOUND: a 0-based screen coordinate p lies inside an extent e exactly when 0 <= p < e.
Comparisons between a *coordinate* (an element of a canvas cursor / get_cursor_coords() answer, the
col,row parameters of mouse_event / move_cursor_to_coords, possibly translated by offsets) and an
*extent* (an element of `size`, X.rows(), X.cols(), pack() elements, len(...), possibly reduced by
margins) must therefore be half-open: `p < e` / `p >= e`; `p > e` and `p <= e` accept the first cell
outside.  Operands are expanded along reaching definitions and brought to linear form; a side is a
coordinate (extent) if it carries a coordinate (extent) atom with coefficient +1 and no atom of the
other kind."""

from __future__ import annotations

import ast
import re

from ..core import RuleResult, finding, short
from ..model import Project, norm
from .defuse import DefUse
from .util import lin_str, linear

POS = re.compile(r"(\.cursor\[[01]\]$)|(\.get_cursor_coords\(.*\)\[[01]\]$)|(^(col|row)$)|(\.coords\.get\('cursor'\)\[[01]\]$)|(\.coords\['cursor'\]\[[01]\]$)")
EXT = re.compile(r"(^size\[[01]\]$)|(\.rows\(.*\)$)|(\.cols\(\)$)|(\.pack\(.*\)\[[01]\]$)|(^len\()")


def run_posbound(p: Project, clause: str, modules: list[str], floor: int, exceptions: dict | None = None) -> RuleResult:
    rr = RuleResult("POSBOUND", clause, "comparisons between a screen coordinate and an extent are half-open (p < e / p >= e), never p > e or p <= e", floor)
    exceptions = exceptions or {}
    for mn in modules:
        m = p.modules.get(mn)
        if m is None:
            continue
        for fi in m.functions:
            if fi.is_lambda:
                continue
            cmps = [c for c in fi.own_nodes() if isinstance(c, ast.Compare)]
            if not cmps:
                continue
            du = None
            for c in cmps:
                operands = [c.left, *c.comparators]
                for i, op in enumerate(c.ops):
                    if not isinstance(op, (ast.Lt, ast.LtE, ast.Gt, ast.GtE)):
                        continue
                    if du is None:
                        du = DefUse(fi)
                    at = du.node_of(c)
                    if at is None:
                        continue
                    L = linear(du.expand(operands[i], at))
                    R = linear(du.expand(operands[i + 1], at))
                    if L is None or R is None:
                        continue

                    def kinds(d):
                        pos = [k for k, v in d.items() if POS.search(k) and v == 1]
                        ext = [k for k, v in d.items() if EXT.search(k) and v == 1]
                        return pos, ext

                    lp, le = kinds(L)
                    rp, re_ = kinds(R)
                    opn = type(op).__name__
                    if lp and not le and re_ and not rp:
                        bad = opn in ("Gt", "LtE")
                    elif rp and not re_ and le and not lp:
                        bad = opn in ("Lt", "GtE")
                    else:
                        continue
                    ident = f"{short(fi)}:{norm(c, 70)}#{i}"
                    rr.inst(ident, True, {"function": short(fi), "comparison": norm(c, 70), "left": lin_str(L), "right": lin_str(R)} if len(rr.samples) < 5 else None)
                    if bad:
                        key = f"{short(fi)}:{norm(c, 70)}"
                        if key in exceptions:
                            rr.exceptions_used.append(f"{key} - {exceptions[key]}")
                            continue
                        rr.add(finding("POSBOUND", fi, c, f"`{norm(c, 70)}` compares a 0-based coordinate ({lin_str(L if lp else R)}) with an extent ({lin_str(R if lp else L)}) using a closed bound: the first cell outside the area is treated as inside", construct=f"closed bound {norm(c, 80)}"))
    return rr
