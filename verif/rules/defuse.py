"""Position-sensitive def-use over the statement CFG: reaching definitions of locals, and
*expansion* of an expression into the values that reach it (copy propagation that follows
plain assignments, tuple unpackings, walrus bindings and tuples carried through a local list
from a single ``L.append((a, b, c))`` to a ``for a, b, c in L`` loop)."""

from __future__ import annotations

import ast
import copy

from ..cfg import CFG
from ..core import walk_no_nested
from ..model import FuncInfo
from .util import cfg_of, linear, owner_map

UNKNOWN_HOW = ("parameter", "loop element", "unpack", "with", "except", "augassign")


class Elem:
    """Synthetic value: element (at tuple position *path*) of iterating *iter_expr*."""

    def __init__(self, iter_expr, path):
        self.iter_expr = iter_expr
        self.path = path


def defs_of(cfg: CFG, fi: FuncInfo):
    """name -> list of (cfgnode, value expr | Elem | None, how)."""
    defs: dict[str, list] = {}

    def bind(target, value, node, how="assign"):
        if isinstance(target, ast.Name):
            defs.setdefault(target.id, []).append((node, value, how))
        elif isinstance(target, (ast.Tuple, ast.List)):
            for i, t in enumerate(target.elts):
                v = None
                h = how
                if isinstance(value, (ast.Tuple, ast.List)) and len(value.elts) == len(target.elts) and not any(isinstance(e, ast.Starred) for e in value.elts):
                    v = value.elts[i]
                elif isinstance(value, Elem):
                    v = Elem(value.iter_expr, (*value.path, i))
                elif isinstance(value, (ast.Name, ast.Attribute, ast.Call, ast.Subscript)) and not any(isinstance(e, ast.Starred) for e in target.elts):
                    # a, b = f(x): a is f(x)[0] - keeps the identity of unpacked helper results
                    v = ast.Subscript(value=value, slice=ast.Constant(value=i), ctx=ast.Load())
                    h = "unpack-index"
                else:
                    h = "unpack"
                bind(t, v, node, h)
        elif isinstance(target, ast.Starred):
            bind(target.value, None, node, "unpack")

    for n in cfg.nodes:
        a = n.ast
        if a is None:
            continue
        if n.kind == "for":
            bind(a.target, Elem(a.iter, ()), n, "loop element")
            continue
        if n.kind == "with":
            for it in a.items:
                if it.optional_vars is not None:
                    bind(it.optional_vars, None, n, "with")
            continue
        if n.kind == "handler":
            if a.name:
                defs.setdefault(a.name, []).append((n, None, "except"))
            continue
        if isinstance(a, ast.Assign):
            for t in a.targets:
                bind(t, a.value, n)
        elif isinstance(a, ast.AnnAssign) and a.value is not None:
            bind(a.target, a.value, n)
        elif isinstance(a, ast.AugAssign):
            bind(a.target, None, n, "augassign")
        if not isinstance(a, (ast.FunctionDef, ast.AsyncFunctionDef, ast.ClassDef)):
            for sub in walk_no_nested(a):
                if isinstance(sub, ast.NamedExpr):
                    bind(sub.target, sub.value, n, "walrus")
    for prm in fi.all_params:
        defs.setdefault(prm, []).append((cfg.entry, None, "parameter"))
    return defs


def reaching(cfg: CFG, defs, name, use_node):
    """Yield (value, how, defnode) for definitions of *name* reaching *use_node*."""
    all_def_nodes = {d[0] for d in defs.get(name, [])}
    for dn, v, how in defs.get(name, []):
        # the use node may itself redefine the name (`x = f(x)`): definitions still reach its right-hand side
        others = all_def_nodes - {dn, use_node}
        r = cfg.reachable([dn], avoid=others)
        if use_node in r:
            yield v, how, dn


class DefUse:
    def __init__(self, fi: FuncInfo):
        self.fi = fi
        self.cfg = cfg_of(fi)
        self.defs = defs_of(self.cfg, fi)
        self.owner = owner_map(self.cfg)
        self._reach_cache: dict = {}

    def node_of(self, astnode):
        ns = self.owner.get(id(astnode))
        return ns[0] if ns else None

    def reaching(self, name, at):
        k = (name, at.id)
        if k not in self._reach_cache:
            self._reach_cache[k] = list(reaching(self.cfg, self.defs, name, at))
        return self._reach_cache[k]

    def unique_def(self, name, at):
        """(value, how, defnode) when exactly one definition reaches *at*, else None."""
        r = self.reaching(name, at)
        return r[0] if len(r) == 1 else None

    # ------------------------------------------------------------------ expansion
    def _list_element(self, iter_expr, path, at, depth):
        """Element expression for iterating a local list built by one ``L.append(<tuple>)``."""
        e = iter_expr
        if isinstance(e, ast.Call) and isinstance(e.func, ast.Name) and e.func.id == "enumerate" and e.args and path and path[0] == 1:
            e = e.args[0]
            path = path[1:]
        elif isinstance(e, ast.Call) and isinstance(e.func, ast.Name) and e.func.id == "enumerate":
            return None
        if not isinstance(e, ast.Name):
            return None
        appends = []
        for n in self.fi.own_nodes():
            if isinstance(n, ast.Call) and isinstance(n.func, ast.Attribute) and isinstance(n.func.value, ast.Name) and n.func.value.id == e.id:
                if n.func.attr == "append" and len(n.args) == 1:
                    appends.append(n)
                elif n.func.attr in ("extend", "insert", "__setitem__"):
                    return None
        stores = [d for d in self.defs.get(e.id, [])]
        if len(appends) != 1 or len(stores) != 1:
            return None
        v = appends[0].args[0]
        for i in path:
            if isinstance(v, (ast.Tuple, ast.List)) and i < len(v.elts) and not any(isinstance(x, ast.Starred) for x in v.elts):
                v = v.elts[i]
            else:
                return None
        an = self.node_of(appends[0])
        if an is None:
            return None
        return self.expand(v, an, depth + 1)

    def expand(self, expr, at, depth=0):
        """Copy of *expr* with local names replaced by the (unique) value reaching CFG node *at*."""
        du = self
        if depth > 10 or at is None:
            return copy.deepcopy(expr)

        class X(ast.NodeTransformer):
            def visit_Name(self, n):
                if not isinstance(n.ctx, ast.Load):
                    return n
                u = du.unique_def(n.id, at)
                if u is None:
                    return n
                v, how, dn = u
                if isinstance(v, Elem):
                    r = du._list_element(v.iter_expr, v.path, dn, depth)
                    return r if r is not None else n
                if v is None or how in UNKNOWN_HOW:
                    return n
                if dn is at and how != "walrus":
                    return n
                return du.expand(v, dn, depth + 1)

            def visit_NamedExpr(self, n):
                return self.visit(copy.deepcopy(n.value))

            def visit_Lambda(self, n):
                return n

        return X().visit(copy.deepcopy(expr))

    def lin(self, expr, at=None):
        at = at or self.node_of(expr)
        return linear(self.expand(expr, at))

    def text(self, expr, at=None):
        at = at or self.node_of(expr)
        return ast.unparse(self.expand(expr, at))
