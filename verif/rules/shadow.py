"""SHADOW: a `for` loop whose target re-uses the name of a local that is still needed afterwards.

    x, y = self.term_cursor
    for y in range(self.height): ...      # y is now height - 1
    ... self.constrain_coords(x, y)       # meant the cursor row

Python has no block scope: after the loop the name holds the last element (or the old value when the iterable is
empty).  A read after the loop that is reached by *both* the definition before the loop and the loop target is such a
clobbered read - unless the loop was meant to search (it contains a `break`), which is the idiom for "leave with the
element found".  Decided on the CFG with reaching definitions."""

from __future__ import annotations

import ast

from ..core import RuleResult, finding, short
from ..model import Project, norm
from .defuse import DefUse


def run_shadow(p: Project, clause: str, modules, floor: int, description: str | None = None) -> RuleResult:
    rr = RuleResult("SHADOW", clause, description or "no `for` target clobbers a local that is read after the loop with its earlier meaning", floor=floor)
    for fi in p.functions.values():
        if fi.is_lambda or not any(fi.module.name == m or fi.module.name.startswith(m + ".") for m in modules):
            continue
        loops = [n for n in fi.own_nodes() if isinstance(n, ast.For)]
        if not loops:
            continue
        du = None
        for lp in loops:
            targets = {x.id for x in ast.walk(lp.target) if isinstance(x, ast.Name)}
            if not targets:
                continue
            rr.inst(f"{short(fi)}:for {norm(lp.target, 20)} in {norm(lp.iter, 30)}", True)
            if any(isinstance(x, ast.Break) for x in ast.walk(lp)):
                continue
            inside = {id(x) for x in ast.walk(lp)}
            for name in sorted(targets):
                if name.startswith("_"):
                    continue
                du = du or DefUse(fi)
                heads = du.cfg.stmt_nodes(lp)
                if not heads:
                    continue
                head = heads[0]
                # definitions of the name made before the loop that are still live at the loop head
                before = [dn for v, how, dn in du.reaching(name, head) if dn is not head and how != "for" and (dn.ast is None or id(dn.ast) not in inside)]
                if not before:
                    continue
                for use in fi.own_nodes():
                    if not (isinstance(use, ast.Name) and use.id == name and isinstance(use.ctx, ast.Load)) or id(use) in inside:
                        continue
                    at = du.node_of(use)
                    if at is None or at not in du.cfg.reachable([head]):
                        continue
                    defs = [dn for v, how, dn in du.reaching(name, at)]
                    if head in defs and any(b in defs for b in before):
                        rr.add(finding("SHADOW", fi, lp, f"`for {norm(lp.target, 20)} in {norm(lp.iter, 30)}` re-uses the local `{name}`, which was assigned before the loop (line {before[0].lineno}) and is read again after it (line {use.lineno}): after the loop `{name}` is the last element iterated, not the value the later code means", construct=f"loop target {name} clobbers a live local"))
                        break
    return rr
