"""ACCUM: a running position kept alongside a loop is advanced in every iteration that goes on to the next item.

Many loops of the canvas / layout / container code walk a sequence of items (cviews, layout segments, runs,
children, rows) while keeping the position of the *current* item in a local (`col`, `x`, `wrow`, `y`, the space
budget `shared`).  The position is only right for the next item if every iteration that continues - also the ones
that skip the item with `continue` - advances it by the item's extent.  An early `continue` added before the
update (or an update moved below a skip) shifts every later item.

The instances are frozen in tables.ACCUM_TABLE, one per (function, update statement), each confirmed by reading;
the update statement is matched literally or, after local renaming, by its name-abstracted form.  For each
instance: in every for-loop of the function that contains a matching update, no path from the loop head back to the
loop head avoids all updates of that variable."""

from __future__ import annotations

import ast

from ..core import RuleResult, abstract_text, finding, short
from ..model import AnalysisError, Project, norm
from ..tables import ACCUM_TABLE
from .util import cfg_of


def _target(st):
    if isinstance(st, ast.AugAssign) and isinstance(st.target, ast.Name):
        return st.target.id
    if isinstance(st, ast.Assign) and len(st.targets) == 1 and isinstance(st.targets[0], ast.Name):
        return st.targets[0].id
    return None


def run_accum(p: Project, clause: str, props: str, floor: int, description: str | None = None) -> RuleResult:
    """props: property id; the table entries tagged with it are checked."""
    rr = RuleResult("ACCUM", clause, description or "running positions kept alongside a loop advance in every iteration that continues (also on `continue` paths)", floor=floor)
    missing: list[str] = []
    for key, (tags, reason) in ACCUM_TABLE.items():
        if props not in tags:
            continue
        q, text = key.split(":", 1)
        fi = p.func("urwid." + q)
        want_abs = abstract_text(text, fi.module)
        cfg = cfg_of(fi)
        found = 0
        cands = [n for n in fi.own_nodes() if isinstance(n, (ast.Assign, ast.AugAssign)) and _target(n)]
        exact = [n for n in cands if norm(n, 100) == text]
        match = exact or [n for n in cands if want_abs is not None and abstract_text(n, fi.module) == want_abs]
        if len({_target(n) for n in match}) > 1:
            raise AnalysisError(f"{clause} [ACCUM]: the table entry `{text}` of {q} matches updates of several variables after renaming; cannot tell which position is meant")
        for h in cfg.nodes:
            if h.kind != "for":
                continue
            loop = h.ast
            ups = [n for n in ast.walk(loop) if any(n is m_ for m_ in match)]
            if not ups:
                continue
            # innermost loop containing the update only
            if any(isinstance(x, ast.For) and x is not loop and any(u in list(ast.walk(x)) for u in ups) for x in ast.walk(loop)):
                continue
            var = _target(ups[0])
            allups = [n for n in cfg.nodes if isinstance(n.ast, (ast.Assign, ast.AugAssign)) and _target(n.ast) == var and any(n.ast is x for x in ast.walk(loop))]
            found += 1
            rr.inst(f"{q}:{text}", True, {"function": q, "position": var, "updates_in_loop": len(allups), "why": reason} if len(rr.samples) < 6 else None)
            r = cfg.reachable_from_edges([(h, "T")], avoid=allups, labels=("n", "T", "F"))
            if h in r:
                # name the statement that skips
                skip = next((n for n in r if isinstance(n.ast, ast.Continue)), None)
                at = skip.stmt if skip is not None else loop
                rr.add(finding("ACCUM", fi, at, f"an iteration of the loop over `{norm(loop.iter, 40)}` can go on to the next item without advancing `{var}` ({'through `continue`' if skip is not None else 'falling through'}): {reason}", construct=f"{var} not advanced on every iteration of the loop over {norm(loop.iter, 40)}"))
        if not found:
            # not raised here: a finding of another rule about the same edit wins over a vanished anchor
            missing.append(f"no loop in {q} contains the update `{text}`")
    if missing:
        rr.notes.extend(missing)
        rr.description += " - TABLE ENTRY NO LONGER MATCHES THE CODE: " + "; ".join(missing)
        rr.floor = rr.instances + 1000  # fails the floor check (exit 2) unless some rule reports a finding
    return rr
