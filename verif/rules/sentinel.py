"""NONE-SENTINEL (contradiction rule): an attribute that the class itself tests with `is None` / `is not None`
somewhere uses None as its 'absent' value; testing the same attribute for *truthiness* elsewhere in the class
conflates 'absent' with every falsy value it can legitimately hold - an empty container widget (Pile([]), ListBox([])
define __len__), an empty mapping, 0.  One of the two tests is wrong (Engler et al.: inconsistent checks); the
identity test states the belief, so the truthiness test is reported.

Attributes whose non-None values are always truthy are listed, one by one, in tables.SENTINEL_EXCEPTIONS."""

from __future__ import annotations

import ast

from ..core import RuleResult, finding, short
from ..model import Project, norm
from ..tables import SENTINEL_EXCEPTIONS


def _bool_operands(t):
    if isinstance(t, ast.BoolOp):
        for v in t.values:
            yield from _bool_operands(v)
    elif isinstance(t, ast.UnaryOp) and isinstance(t.op, ast.Not):
        yield from _bool_operands(t.operand)
    else:
        yield t


def run_sentinel(p: Project, clause: str, modules, floor: int, only_classes=None) -> RuleResult:
    rr = RuleResult("SENTINEL", clause, "an attribute the class tests against None by identity is not tested for truthiness elsewhere in the class", floor=floor)
    for C in p.classes.values():
        if not any(C.module.name == m or C.module.name.startswith(m + ".") for m in modules):
            continue
        if only_classes and C.name not in only_classes:
            continue
        ident, truthy = {}, {}
        for fi in C.methods.values():
            sn = fi.self_name
            for n in fi.own_nodes():
                if isinstance(n, ast.Compare) and len(n.ops) == 1 and isinstance(n.ops[0], (ast.Is, ast.IsNot)) and isinstance(n.comparators[0], ast.Constant) and n.comparators[0].value is None:
                    l = n.left
                    if isinstance(l, ast.Attribute) and isinstance(l.value, ast.Name) and l.value.id == sn:
                        ident.setdefault(l.attr.lstrip("_"), []).append(fi)
                tests = [n.test] if isinstance(n, (ast.If, ast.While, ast.IfExp)) else []
                for t in tests:
                    for o in _bool_operands(t):
                        if isinstance(o, ast.Attribute) and isinstance(o.value, ast.Name) and o.value.id == sn:
                            truthy.setdefault(o.attr.lstrip("_"), []).append((fi, n, o))
        for a in sorted(ident):
            rr.inst(f"{C.name}.{a}", True, {"class": C.name, "attribute": a, "identity_tests_in": sorted({short(f) for f in ident[a]})[:3], "truthiness_tests": len(truthy.get(a, []))} if len(rr.samples) < 6 else None)
            for fi, n, o in truthy.get(a, []):
                key = f"{C.name}.{a}"
                if key in SENTINEL_EXCEPTIONS:
                    rr.exceptions_used.append(f"{key}: {SENTINEL_EXCEPTIONS[key]}")
                    continue
                rr.add(finding("SENTINEL", fi, n, f"`{norm(o, 40)}` is tested for truthiness here, but {C.name} treats None as its 'absent' value elsewhere ({', '.join(sorted({f.name for f in ident[a]})[:3])} test it with `is None` / `is not None`): a falsy value that is present - an empty container widget, an empty mapping - is taken for absent", construct=f"truthiness test of None-sentinel attribute {a}"))
    return rr
