"""NONE-SENTINEL (contradiction rule): an attribute that the class itself tests with `is None` / `is not None`
somewhere uses None as its 'absent' value; testing the same attribute for *truthiness* elsewhere in the class
conflates 'absent' with every falsy value it can legitimately hold - an empty container widget (Pile([]), ListBox([])
define __len__), an empty mapping, 0.  One of the two tests is wrong (Engler et al.: inconsistent checks); the
identity test states the belief, so the truthiness test is reported.

Attributes whose non-None values are always truthy are listed, one by one, in tables.SENTINEL_EXCEPTIONS."""

from __future__ import annotations

import ast

from ..core import RuleResult, finding, short
from ..model import Project, norm
from ..tables import SENTINEL_EXCEPTIONS


def _bool_operands(t):
    if isinstance(t, ast.BoolOp):
        for v in t.values:
            yield from _bool_operands(v)
    elif isinstance(t, ast.UnaryOp) and isinstance(t.op, ast.Not):
        yield from _bool_operands(t.operand)
    else:
        yield t


def run_sentinel(p: Project, clause: str, modules, floor: int, only_classes=None) -> RuleResult:
    rr = RuleResult("SENTINEL", clause, "an attribute the class tests against None by identity is not tested for truthiness elsewhere in the class", floor=floor)
    for C in p.classes.values():
        if not any(C.module.name == m or C.module.name.startswith(m + ".") for m in modules):
            continue
        if only_classes and C.name not in only_classes:
            continue
        ident, truthy = {}, {}
        for fi in C.methods.values():
            sn = fi.self_name
            for n in fi.own_nodes():
                if isinstance(n, ast.Compare) and len(n.ops) == 1 and isinstance(n.ops[0], (ast.Is, ast.IsNot)) and isinstance(n.comparators[0], ast.Constant) and n.comparators[0].value is None:
                    l = n.left
                    if isinstance(l, ast.Attribute) and isinstance(l.value, ast.Name) and l.value.id == sn:
                        ident.setdefault(l.attr.lstrip("_"), []).append(fi)
                tests = [n.test] if isinstance(n, (ast.If, ast.While, ast.IfExp)) else []
                for t in tests:
                    for o in _bool_operands(t):
                        if isinstance(o, ast.Attribute) and isinstance(o.value, ast.Name) and o.value.id == sn:
                            truthy.setdefault(o.attr.lstrip("_"), []).append((fi, n, o))
        for a in sorted(ident):
            rr.inst(f"{C.name}.{a}", True, {"class": C.name, "attribute": a, "identity_tests_in": sorted({short(f) for f in ident[a]})[:3], "truthiness_tests": len(truthy.get(a, []))} if len(rr.samples) < 6 else None)
            for fi, n, o in truthy.get(a, []):
                key = f"{C.name}.{a}"
                if key in SENTINEL_EXCEPTIONS:
                    rr.exceptions_used.append(f"{key}: {SENTINEL_EXCEPTIONS[key]}")
                    continue
                rr.add(finding("SENTINEL", fi, n, f"`{norm(o, 40)}` is tested for truthiness here, but {C.name} treats None as its 'absent' value elsewhere ({', '.join(sorted({f.name for f in ident[a]})[:3])} test it with `is None` / `is not None`): a falsy value that is present - an empty container widget, an empty mapping - is taken for absent", construct=f"truthiness test of None-sentinel attribute {a}"))
    return rr


def run_sentinel_consumers(p: Project, clause: str, class_qual: str, consumer_modules, floor: int, exceptions: dict | None = None) -> RuleResult:
    """The same contradiction across a class boundary: attributes that *class_qual* itself compares with None by
    identity, tested for truthiness on an instance (`s = Cls(..); if s.attr:`) in the modules that consume it."""
    exceptions = exceptions or {}
    C = p.cls(class_qual)
    rr = RuleResult("SENTINEL", clause, f"attributes {C.name} compares with None by identity are not tested for truthiness on its instances by the code that consumes them", floor=floor)
    ident = {}
    for fi in C.methods.values():
        sn = fi.self_name
        for n in fi.own_nodes():
            if isinstance(n, ast.Compare) and len(n.ops) == 1 and isinstance(n.ops[0], (ast.Is, ast.IsNot)) and isinstance(n.comparators[0], ast.Constant) and n.comparators[0].value is None and isinstance(n.left, ast.Attribute) and isinstance(n.left.value, ast.Name) and n.left.value.id == sn:
                ident.setdefault(n.left.attr, []).append(fi)
    rr.inst(f"{C.name}: None-sentinel attributes", True, {"class": C.name, "attributes": sorted(ident)})
    for fi in p.functions.values():
        if not any(fi.module.name == m or fi.module.name.startswith(m + ".") for m in consumer_modules):
            continue
        insts = {t.id for n in fi.own_nodes() if isinstance(n, ast.Assign) and isinstance(n.value, ast.Call) and isinstance(n.value.func, ast.Name) and n.value.func.id == C.name for t in n.targets if isinstance(t, ast.Name)}
        if fi.cls is C and fi.self_name:
            continue
        if not insts:
            continue
        for n in fi.own_nodes():
            tests = [n.test] if isinstance(n, (ast.If, ast.While, ast.IfExp)) else []
            for t in tests:
                for o in _bool_operands(t):
                    if isinstance(o, ast.Attribute) and isinstance(o.value, ast.Name) and o.value.id in insts and o.attr in ident:
                        key = f"{C.name}.{o.attr}"
                        rr.inst(f"{short(fi)}:{norm(o, 20)}", True, {"function": short(fi), "test": norm(t, 50)})
                        if key in exceptions:
                            rr.exceptions_used.append(f"{key}: {exceptions[key]}")
                            continue
                        rr.add(finding("SENTINEL", fi, n, f"`{norm(o, 30)}` is tested for truthiness, but {C.name} uses None as the 'absent' value of `{o.attr}` (it tests it with `is None` / `is not None`): the legitimate value 0 - text offset 0, the very first character - is taken for absent", construct=f"truthiness test of {C.name}.{o.attr} on an instance"))
    return rr
