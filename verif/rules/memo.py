"""MEMO helpers: which module globals can be rebound at run time (`global x` in some function of the module) and which
of them a function reads, directly or through the project functions it calls."""

from __future__ import annotations

import ast

from ..core import RuleResult, finding, short
from ..model import Project, norm


def rebindable_globals(p: Project) -> dict:
    mutable = {}
    for mn, m in p.modules.items():
        g = set()
        for fi in m.functions:
            for n in fi.own_nodes():
                if isinstance(n, ast.Global):
                    g |= set(n.names)
        if g:
            mutable[mn] = g
    return mutable


def global_reads(p: Project, fi, mutable, seen=None, depth=0, exprs=None):
    """['<function> reads <global>', ...] for fi (only the given expression nodes when *exprs* is set)"""
    seen = set() if seen is None else seen
    if exprs is None:
        if id(fi) in seen or depth > 6:
            return []
        seen.add(id(fi))
        nodes = list(fi.own_nodes())
    else:
        nodes = [x for e in exprs for x in ast.walk(e)]
    out = []
    g = mutable.get(fi.module.name, set())
    local_stores = {n.id for n in fi.own_nodes() if isinstance(n, ast.Name) and isinstance(n.ctx, ast.Store)} | set(fi.all_params)
    for n in nodes:
        if isinstance(n, ast.Name) and isinstance(n.ctx, ast.Load) and n.id in g and n.id not in local_stores:
            out.append(f"{short(fi)} reads {n.id}")
        elif isinstance(n, ast.Call):
            for t in p.resolve_call(n, fi) or []:
                if hasattr(t, "own_nodes"):
                    out += global_reads(p, t, mutable, seen, depth + 1)
    return out


def run_dict_memo(p: Project, clause: str, modules, floor: int) -> RuleResult:
    """A method that memoises by hand - `if K in self.D: return self.D[K]` ... `self.D[K] = value` - answers from D for
    every later call with the same K.  When the value depends on a module global that a setter rebinds (the target
    encoding read by apply_target_encoding()), K has to depend on the same global, otherwise the entry computed under
    the old setting is served under the new one (Font.render before fix 39ac3d2: glyph rows in UTF-8 bytes after a
    switch to another encoding - 9, 7, 7, 11 bytes in a 5-column canvas)."""
    rr = RuleResult("MEMO", clause, "a hand-written dict memo whose value depends on a rebindable module global has that global in its key", floor=floor)
    mutable = rebindable_globals(p)
    for fi in p.functions.values():
        if not any(fi.module.name == m or fi.module.name.startswith(m + ".") for m in modules) or fi.is_lambda or not fi.self_name:
            continue
        sn = fi.self_name
        # self.D[K] = V
        stores = [n for n in fi.own_nodes() if isinstance(n, ast.Assign) and len(n.targets) == 1 and isinstance(n.targets[0], ast.Subscript) and isinstance(n.targets[0].value, ast.Attribute) and isinstance(n.targets[0].value.value, ast.Name) and n.targets[0].value.value.id == sn]
        for st in stores:
            d = st.targets[0].value.attr
            key = st.targets[0].slice
            ktxt = ast.unparse(key)
            # the hit: `K in self.D` test and a return of self.D[K]
            hit = any(isinstance(c, ast.Compare) and len(c.ops) == 1 and isinstance(c.ops[0], ast.In) and ast.unparse(c.left) == ktxt and ast.unparse(c.comparators[0]) == f"{sn}.{d}" for c in fi.own_nodes())
            ret = any(isinstance(r, ast.Return) and r.value is not None and ast.unparse(r.value) == f"{sn}.{d}[{ktxt}]" for r in fi.own_nodes())
            if not (hit and ret):
                continue
            # key expression: expand a local key through its single assignment
            kexprs = [key]
            if isinstance(key, ast.Name):
                kexprs += [n.value for n in fi.own_nodes() if isinstance(n, ast.Assign) and any(isinstance(t, ast.Name) and t.id == key.id for t in n.targets)]
            value_reads = sorted(set(global_reads(p, fi, mutable)))
            key_reads = sorted(set(global_reads(p, fi, mutable, exprs=kexprs)))
            vg = {r.rsplit(" reads ", 1)[1] for r in value_reads}
            kg = {r.rsplit(" reads ", 1)[1] for r in key_reads}
            ident = f"{short(fi)}: {sn}.{d}[{ktxt}]"
            rr.inst(ident, True, {"memo": ident, "value_depends_on": sorted(vg), "key_depends_on": sorted(kg)})
            # globals rebound by one setter (named in the same `global` statement) change together: the key is
            # sensitive to that setter when it reads one of them
            groups = []
            for m in p.modules.values():
                for f2 in m.functions:
                    for n in f2.own_nodes():
                        if isinstance(n, ast.Global):
                            groups.append(set(n.names))
            covered = set(kg)
            for g in groups:
                if g & kg:
                    covered |= g
            missing = vg - covered
            if missing:
                rr.add(finding("MEMO", fi, st, f"{short(fi)}() memoises its result in `{sn}.{d}` under the key `{ktxt}` but the result depends on the rebindable module global(s) {sorted(missing)} ({value_reads[0]}) which the key does not: after the setter ran, the entry computed for the old setting is returned for the new one", construct=f"dict memo {sn}.{d} ignores {','.join(sorted(missing))}"))
    return rr
