"""NAME-PREFIX: a word of an event name that its producers can put *behind* other words is looked for by containment.

The input decoder builds event names from parts: `escape_modifier()` returns "shift " * a + "meta " * b + "ctrl " * c
and the mouse readers return f"{prefix}mouse {action}" with prefix "shift meta ctrl double triple" in that order.
So "meta " is not always the first word of a modified key ("shift meta up") and "mouse" is not always the first word of
a mouse event ("ctrl mouse press").  A consumer that classifies names by such a word has to test *containment*
(`"mouse" in name`, `name.find("meta ") >= 0`); `startswith` / a slice comparison is right only for the names without
a leading modifier - the modified ones are then treated as plain keys (process_input raises TypeError on a
"ctrl mouse press" tuple; ESC + "shift meta up" is folded into one undocumented name).

Producers are read from the code (string concatenations / f-strings in urwid.display.escape in which a literal that
contains the word follows another, non-empty operand); consumers are every startswith / slice test with a literal
beginning with the word in the given modules."""

from __future__ import annotations

import ast

from ..core import RuleResult, finding, short
from ..model import Project, norm

WORDS = ("mouse", "meta ")


def _can_be_preceded(p: Project, word: str):
    """a producing expression in which *word* follows other text, or None"""
    m = p.modules.get("urwid.display.escape")
    for fi in m.functions:
        for n in fi.own_nodes():
            if isinstance(n, ast.JoinedStr):
                seen_other = False
                for v in n.values:
                    if isinstance(v, ast.Constant) and isinstance(v.value, str) and word.strip() in v.value:
                        if seen_other or not v.value.startswith(word.strip()):
                            return fi, n
                    if isinstance(v, ast.FormattedValue) or (isinstance(v, ast.Constant) and v.value):
                        seen_other = True
            elif isinstance(n, ast.BinOp) and isinstance(n.op, ast.Add):
                # flatten the concatenation
                parts, work = [], [n]
                while work:
                    x = work.pop(0)
                    if isinstance(x, ast.BinOp) and isinstance(x.op, ast.Add):
                        work = [x.left, x.right, *work]
                    else:
                        parts.append(x)
                for i, x in enumerate(parts):
                    lit = x.left if isinstance(x, ast.BinOp) and isinstance(x.op, ast.Mult) else x
                    if isinstance(lit, ast.Constant) and isinstance(lit.value, str) and lit.value.startswith(word) and i > 0:
                        return fi, n
    return None


def run_nameprefix(p: Project, clause: str, modules, floor: int) -> RuleResult:
    rr = RuleResult("SIB", clause, "event-name words that the decoder can put behind modifier words ('mouse', 'meta ') are looked for by containment, never with startswith / a prefix slice", floor=floor)
    for w in WORDS:
        prod = _can_be_preceded(p, w)
        rr.inst(f"producers of {w!r}", True, {"word": w, "can_follow_other_words_in": f"{short(prod[0])}: {norm(prod[1], 70)}" if prod else None})
        if prod is None:
            continue
        for fi in p.functions.values():
            if not any(fi.module.name == m or fi.module.name.startswith(m + ".") for m in modules):
                continue
            for c in fi.own_nodes():
                bad = None
                if isinstance(c, ast.Call) and isinstance(c.func, ast.Attribute) and c.func.attr == "startswith" and c.args and isinstance(c.args[0], ast.Constant) and isinstance(c.args[0].value, str) and c.args[0].value.startswith(w.strip()):
                    bad = c
                elif isinstance(c, ast.Compare) and len(c.ops) == 1 and isinstance(c.ops[0], ast.Eq) and isinstance(c.left, ast.Subscript) and isinstance(c.left.slice, ast.Slice) and c.left.slice.lower is None and isinstance(c.comparators[0], ast.Constant) and isinstance(c.comparators[0].value, str) and c.comparators[0].value.startswith(w.strip()):
                    bad = c
                elif isinstance(c, ast.Compare) and len(c.ops) == 1 and isinstance(c.ops[0], ast.In) and isinstance(c.left, ast.Constant) and isinstance(c.left.value, str) and c.left.value.strip() == w.strip():
                    rr.inst(f"{short(fi)}: {norm(c, 40)}", True, {"consumer": f"{short(fi)}: {norm(c, 50)}", "form": "containment"})
                    continue
                elif isinstance(c, ast.Call) and isinstance(c.func, ast.Attribute) and c.func.attr == "find" and c.args and isinstance(c.args[0], ast.Constant) and isinstance(c.args[0].value, str) and c.args[0].value.strip() == w.strip():
                    rr.inst(f"{short(fi)}: {norm(c, 40)}", True, {"consumer": f"{short(fi)}: {norm(c, 50)}", "form": "containment"})
                    continue
                if bad is not None:
                    rr.inst(f"{short(fi)}: {norm(bad, 40)}", True)
                    rr.add(finding("SIB", fi, bad, f"`{norm(bad, 60)}` recognises {w.strip()!r} names only when the word comes first, but {short(prod[0])}() builds names in which it follows other words (`{norm(prod[1], 60)}`): events with a leading modifier ('ctrl mouse press', 'shift meta up') are misclassified", construct=f"{w.strip()!r} tested as a prefix"))
    return rr
