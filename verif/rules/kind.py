"""KIND: value-kind misuse that raises TypeError at run time for a particular path only.

Kinds (list, tuple, deque, set, frozenset, dict, str, bytes, int, float) are inferred for locals
(all definitions agree) and for `self` attributes (all stores in the class hierarchy agree), seeded
from literals, constructors and a short table of API return kinds (.sizing() -> frozenset,
.pack() -> tuple).  Obligations:
  K1  `a + b` between two *different* known container/text kinds;
  K2  item/slice store or append/extend/insert on an immutable kind (tuple, frozenset, str, bytes);
  K3  slicing a kind that does not support it (deque, set, frozenset, dict).
Unknown kinds are never reported."""

from __future__ import annotations

import ast

from ..core import RuleResult, finding, short, walk_no_nested
from ..model import ClassInfo, FuncInfo, Project, norm

SEQ = {"list", "tuple", "deque", "set", "frozenset", "dict", "str", "bytes"}
IMMUTABLE = {"tuple", "frozenset", "str", "bytes"}
NO_SLICE = {"deque", "set", "frozenset", "dict"}
CTOR = {"list": "list", "tuple": "tuple", "deque": "deque", "set": "set", "frozenset": "frozenset", "dict": "dict", "str": "str", "bytes": "bytes",
        "bytearray": "bytearray", "sorted": "list", "chr": "str", "repr": "str"}  # fmt: skip


class Kinds:
    def __init__(self, p: Project):
        self.p = p
        self._attr: dict = {}

    def of(self, e, fi: FuncInfo, scls: ClassInfo | None = None, depth=0):
        if e is None or depth > 6:
            return None
        if isinstance(e, ast.Constant):
            return type(e.value).__name__ if isinstance(e.value, (str, bytes)) else None
        if isinstance(e, ast.JoinedStr):
            return "str"
        if isinstance(e, (ast.List, ast.ListComp)):
            return "list"
        if isinstance(e, ast.Tuple):
            return "tuple"
        if isinstance(e, (ast.Set, ast.SetComp)):
            return "set"
        if isinstance(e, (ast.Dict, ast.DictComp)):
            return "dict"
        if isinstance(e, ast.Call):
            f = e.func
            if isinstance(f, ast.Name) and f.id in CTOR and not self.p._is_local(fi, f.id):
                return CTOR[f.id]
            if isinstance(f, ast.Attribute):
                if f.attr == "sizing" and not e.args:
                    return "frozenset"
                if f.attr == "pack":
                    return "tuple"
                if f.attr in ("encode", "to_bytes"):
                    return "bytes"
                if f.attr in ("decode", "format", "join") and f.attr != "join":
                    return "str"
                if f.attr == "copy":
                    return self.of(f.value, fi, scls, depth + 1)
                if f.attr in ("split", "rsplit", "splitlines"):
                    return "list"
            return None
        if isinstance(e, ast.BinOp) and isinstance(e.op, ast.Add):
            a, b = self.of(e.left, fi, scls, depth + 1), self.of(e.right, fi, scls, depth + 1)
            return a if a == b else None
        if isinstance(e, ast.Subscript) and isinstance(e.slice, ast.Slice):
            k = self.of(e.value, fi, scls, depth + 1)
            return k if k in ("list", "tuple", "str", "bytes") else None
        if isinstance(e, ast.IfExp):
            a, b = self.of(e.body, fi, scls, depth + 1), self.of(e.orelse, fi, scls, depth + 1)
            return a if a == b else None
        if isinstance(e, ast.Name):
            if e.id in fi.all_params:
                return None
            ks = []
            for n in fi.own_nodes():
                if isinstance(n, ast.Assign):
                    for t in n.targets:
                        if isinstance(t, ast.Name) and t.id == e.id:
                            ks.append(self.of(n.value, fi, scls, depth + 1))
                        elif isinstance(t, (ast.Tuple, ast.List)) and any(isinstance(x, ast.Name) and x.id == e.id for x in ast.walk(t)):
                            ks.append(None)
                elif isinstance(n, ast.AnnAssign) and isinstance(n.target, ast.Name) and n.target.id == e.id and n.value is not None:
                    ks.append(self.of(n.value, fi, scls, depth + 1))
                elif isinstance(n, ast.AugAssign) and isinstance(n.target, ast.Name) and n.target.id == e.id:
                    pass  # += keeps the kind for containers
                elif isinstance(n, ast.NamedExpr) and n.target.id == e.id:
                    ks.append(self.of(n.value, fi, scls, depth + 1))
                elif isinstance(n, (ast.For, ast.comprehension)) and any(isinstance(x, ast.Name) and x.id == e.id for x in ast.walk(n.target)):
                    ks.append(None)
                elif isinstance(n, ast.With):
                    for it in n.items:
                        if it.optional_vars is not None and any(isinstance(x, ast.Name) and x.id == e.id for x in ast.walk(it.optional_vars)):
                            ks.append(None)
            if ks and all(k is not None and k == ks[0] for k in ks):
                return ks[0]
            return None
        if isinstance(e, ast.Attribute) and isinstance(e.value, ast.Name):
            sn = self.p._self_name(fi)
            c = scls or fi.cls
            if sn and e.value.id == sn and c is not None:
                return self.attr_kind(c, e.attr)
        return None

    def attr_kind(self, c: ClassInfo, attr: str):
        key = (c.qualname, attr)
        if key in self._attr:
            return self._attr[key]
        self._attr[key] = None
        if self.p.find_member(c, attr) is not None and self.p.find_member(c, attr)[0] != "classattr":
            return None
        ks = []
        classes = [k for k in self.p.classes.values() if c in self.p.mro(k) or k in self.p.mro(c)]
        for k in classes:
            for fi in self.p.all_class_functions(k):
                sn = fi.self_name
                if not sn:
                    continue
                for n in fi.own_nodes():
                    tg = val = None
                    if isinstance(n, ast.Assign):
                        for t in n.targets:
                            if isinstance(t, ast.Attribute) and t.attr == attr and isinstance(t.value, ast.Name) and t.value.id == sn:
                                ks.append(self.of(n.value, fi, k, 1))
                            elif isinstance(t, (ast.Tuple, ast.List)) and any(isinstance(x, ast.Attribute) and x.attr == attr and isinstance(x.value, ast.Name) and x.value.id == sn for x in ast.walk(t)):
                                ks.append(None)
                    elif isinstance(n, ast.AnnAssign) and isinstance(n.target, ast.Attribute) and n.target.attr == attr and isinstance(n.target.value, ast.Name) and n.target.value.id == sn and n.value is not None:
                        ks.append(self.of(n.value, fi, k, 1))
        res = ks[0] if ks and all(x is not None and x == ks[0] for x in ks) else None
        self._attr[key] = res
        return res


def run_kind(p: Project, clause: str, modules: list[str], floor: int, exceptions: dict | None = None) -> RuleResult:
    rr = RuleResult("KIND", clause, "no `+` between different container kinds, no mutation of immutable kinds, no slicing of kinds that do not support it", floor)
    exceptions = exceptions or {}
    K = Kinds(p)
    for mn in modules:
        m = p.modules.get(mn)
        if m is None:
            continue
        for fi in m.functions:
            for n in fi.own_nodes():
                if isinstance(n, ast.BinOp) and isinstance(n.op, ast.Add):
                    a, b = K.of(n.left, fi), K.of(n.right, fi)
                    if a in SEQ and b in SEQ:
                        rr.inst(f"{short(fi)}:{norm(n, 60)}", True, {"function": short(fi), "expr": norm(n, 60), "kinds": [a, b]} if len(rr.samples) < 3 else None)
                        if a != b:
                            rr.add(finding("KIND", fi, n, f"`{norm(n, 70)}` adds a {a} and a {b}: TypeError whenever this line runs", construct=norm(n, 100)))
                elif isinstance(n, ast.Subscript):
                    k = K.of(n.value, fi)
                    if k is None:
                        continue
                    if not isinstance(n.ctx, ast.Load):
                        rr.inst(f"{short(fi)}:{norm(n, 60)}", True)
                        if k in IMMUTABLE:
                            rr.add(finding("KIND", fi, n, f"item store/delete on `{norm(n.value, 40)}`, which is a {k}: TypeError on this path", construct=f"store into {k} {norm(n, 80)}"))
                    elif isinstance(n.slice, ast.Slice) and k in NO_SLICE:
                        rr.inst(f"{short(fi)}:{norm(n, 60)}", True)
                        rr.add(finding("KIND", fi, n, f"slice of `{norm(n.value, 40)}`, which is a {k} and does not support slicing", construct=f"slice of {k} {norm(n, 80)}"))
                elif isinstance(n, ast.Call) and isinstance(n.func, ast.Attribute) and n.func.attr in ("append", "extend", "insert", "add", "remove", "pop", "clear", "update"):
                    k = K.of(n.func.value, fi)
                    if k in IMMUTABLE:
                        rr.inst(f"{short(fi)}:{norm(n, 60)}", True)
                        rr.add(finding("KIND", fi, n, f"`.{n.func.attr}()` on `{norm(n.func.value, 40)}`, which is a {k}", construct=f"{n.func.attr} on {k} {norm(n, 80)}"))
    return rr
