"""FRESHLIST: in-place list edits in urwid.canvas only on lists created in the same function.

CompositeCanvas(canv) *shares* canv.shards (and the cview lists inside the shards) with the canvas
it wraps - which is typically a finalised canvas sitting in the cache.  Appending to / editing such
a list in place changes every canvas that shares it.  Forward dataflow over the statement CFG with
the two-point lattice FRESH < SHARED per local name and for `self.shards`:
  fresh  : list/tuple displays, comprehensions, x.copy(), list(x), slices, a + b, results of calls
           to functions that never return one of their parameters unchanged
  shared : parameters, attributes of other objects (x.shards), elements / unpackings of any list,
           `self.shards` until it is re-assigned a fresh value in this method (the identity idiom
           `if orig is self.shards: self.shards = self.shards.copy()` is understood: on the other
           edge the attribute was already replaced).
Obligation: the receiver of append/extend/insert/pop/remove/clear/sort/reverse, of an item store or
delete, or of `+=` is FRESH on every path."""

from __future__ import annotations

import ast

from ..core import RuleResult, finding, short, walk_no_nested
from ..model import FuncInfo, Project, norm
from .util import cfg_of, node_exprs

FRESH, SHARED = "fresh", "shared"
MUTATORS = {"append", "extend", "insert", "pop", "remove", "clear", "sort", "reverse"}
SELF_ATTRS = {"shards"}


def _returns_param(p: Project, fi: FuncInfo) -> bool:
    params = set(fi.params)
    for n in fi.own_nodes():
        if isinstance(n, ast.Return) and isinstance(n.value, ast.Name) and n.value.id in params:
            # returning a parameter unchanged (fast path) hands the caller an alias
            stores = [x for x in fi.own_nodes() if isinstance(x, ast.Name) and isinstance(x.ctx, ast.Store) and x.id == n.value.id]
            if not stores:
                return True
    return False


class Fresh:
    def __init__(self, p: Project, fi: FuncInfo):
        self.p = p
        self.fi = fi
        self.cfg = cfg_of(fi)
        self.sn = fi.self_name
        self.reports = []
        self.instances = []

    def key_of(self, e):
        if isinstance(e, ast.Name):
            return e.id
        if isinstance(e, ast.Attribute) and isinstance(e.value, ast.Name) and e.value.id == self.sn and e.attr in SELF_ATTRS:
            return f"self.{e.attr}"
        return None

    def classify(self, e, st):
        if isinstance(e, (ast.List, ast.ListComp, ast.Tuple, ast.Dict, ast.Set, ast.GeneratorExp, ast.Constant, ast.JoinedStr)):
            return FRESH
        if isinstance(e, ast.BinOp):
            return FRESH
        if isinstance(e, ast.IfExp):
            a, b = self.classify(e.body, st), self.classify(e.orelse, st)
            return SHARED if SHARED in (a, b) else FRESH
        if isinstance(e, ast.Subscript):
            if isinstance(e.slice, ast.Slice):
                return FRESH
            return SHARED
        if isinstance(e, ast.Call):
            f = e.func
            if isinstance(f, ast.Attribute) and f.attr == "copy":
                return FRESH
            if isinstance(f, ast.Name) and f.id in ("list", "sorted", "tuple", "dict", "set", "reversed", "zip", "enumerate", "range", "len", "max", "min", "sum", "int"):
                return FRESH
            tg = self.p.resolve_call(e, self.fi)
            if tg and all(isinstance(t, FuncInfo) for t in tg):
                if any(_returns_param(self.p, t) for t in tg):
                    # alias of an argument: shared if any list argument is shared
                    return SHARED if any(self.classify(a, st) == SHARED for a in e.args) else FRESH
                return FRESH
            return FRESH
        k = self.key_of(e)
        if k is not None:
            return st.get(k, SHARED if (k in self.fi.all_params or k.startswith("self.")) else FRESH)
        if isinstance(e, ast.Attribute):
            return SHARED
        return FRESH

    def transfer(self, n, st):
        st = dict(st)
        a = n.ast
        if a is None:
            return st
        if n.kind == "for":
            for t in ast.walk(a.target):
                if isinstance(t, ast.Name):
                    st[t.id] = SHARED
            return st
        if isinstance(a, ast.Assign):
            v = a.value
            for t in a.targets:
                self._bind(t, v, st)
        elif isinstance(a, ast.AnnAssign) and a.value is not None:
            self._bind(a.target, a.value, st)
        for r in node_exprs(n):
            for x in walk_no_nested(r):
                if isinstance(x, ast.NamedExpr):
                    self._bind(x.target, x.value, st)
        return st

    def _bind(self, t, v, st):
        k = self.key_of(t)
        if k is not None:
            st[k] = self.classify(v, st)
        elif isinstance(t, (ast.Tuple, ast.List)):
            if isinstance(v, (ast.Tuple, ast.List)) and len(v.elts) == len(t.elts):
                for te, ve in zip(t.elts, v.elts):
                    self._bind(te, ve, st)
            else:
                for x in ast.walk(t):
                    if isinstance(x, ast.Name):
                        st[x.id] = SHARED if not isinstance(v, ast.Call) or self.classify(v, st) == SHARED or True else FRESH
                        # elements of any sequence may be shared lists (cview lists inside shards)

    def run(self):
        cfg = self.cfg
        entry_alias = {}  # name -> attribute key it aliased at function entry
        IN: dict[int, dict] = {cfg.entry.id: {}}
        work = [cfg.entry]
        out_cache: dict[int, dict] = {}
        it = 0
        while work and it < 5000:
            it += 1
            n = work.pop()
            st = IN.get(n.id, {})
            out = self.transfer(n, st)
            for t, lab in n.succ:
                o = out
                # identity idiom: `X is self.shards` with X an alias taken before any re-assignment
                if n.kind == "test" and lab in ("T", "F"):
                    c = n.ast
                    if isinstance(c, ast.Compare) and len(c.ops) == 1 and isinstance(c.ops[0], (ast.Is, ast.IsNot)):
                        ks = [self.key_of(c.left), self.key_of(c.comparators[0])]
                        if "self.shards" in ks and all(ks):
                            replaced_edge = "F" if isinstance(c.ops[0], ast.Is) else "T"
                            if lab == replaced_edge:
                                o = dict(out)
                                o["self.shards"] = FRESH
                prev = IN.get(t.id)
                if prev is None:
                    IN[t.id] = dict(o)
                    work.append(t)
                else:
                    new = dict(prev)
                    changed = False
                    for k in set(prev) | set(o):
                        a, b = prev.get(k), o.get(k)
                        j = SHARED if SHARED in (a, b) or a is None or b is None and k in prev else a
                        if a is None and b is not None:
                            j = b if False else (SHARED if b == SHARED else b)
                        if j != prev.get(k):
                            new[k] = j
                            changed = True
                    if changed:
                        IN[t.id] = new
                        work.append(t)
        # check mutations
        for n in cfg.nodes:
            st = IN.get(n.id)
            if st is None or n.ast is None:
                continue
            for r in node_exprs(n):
                for x in walk_no_nested(r):
                    recv = what = None
                    if isinstance(x, ast.Call) and isinstance(x.func, ast.Attribute) and x.func.attr in MUTATORS:
                        recv, what = x.func.value, f".{x.func.attr}()"
                    elif isinstance(x, ast.Subscript) and isinstance(x.ctx, (ast.Store, ast.Del)):
                        recv, what = x.value, "[...] ="
                    elif isinstance(x, ast.AugAssign) and isinstance(x.op, ast.Add) and isinstance(x.value, (ast.List, ast.ListComp)):
                        recv, what = x.target, "+="
                    if recv is None:
                        continue
                    k = self.key_of(recv)
                    if k is None:
                        if isinstance(recv, ast.Attribute) and recv.attr in ("shards",):
                            self.instances.append((n, x, ast.unparse(recv), SHARED))
                            self.reports.append((n, x, ast.unparse(recv), what))
                        continue
                    state = st.get(k, SHARED if (k in self.fi.all_params or k.startswith("self.")) else FRESH)
                    self.instances.append((n, x, k, state))
                    if state == SHARED:
                        self.reports.append((n, x, k, what))
        if isinstance(getattr(self.cfg.func_node, "body", None), list):
            for s in self.cfg.func_node.body:
                pass
        return self


def run_fresh(p: Project, clause: str, modules: list[str], floor: int, exceptions: dict | None = None, only_classes=None) -> RuleResult:
    rr = RuleResult("FRESHLIST", clause, "in-place list edits in the canvas module only touch lists created in the same function (never a shard / cview list shared with a wrapped, possibly cached canvas)", floor)
    exceptions = exceptions or {}
    for mn in modules:
        m = p.modules.get(mn)
        if m is None:
            continue
        for fi in m.functions:
            if fi.is_lambda:
                continue
            if not any(isinstance(n, ast.Call) and isinstance(n.func, ast.Attribute) and n.func.attr in MUTATORS or isinstance(n, ast.Subscript) and isinstance(n.ctx, (ast.Store, ast.Del)) for n in fi.own_nodes()):
                continue
            fr = Fresh(p, fi).run()
            seen = set()
            for n, x, k, state in fr.instances:
                ident = f"{short(fi)}:{k}:{norm(x, 50)}"
                if ident in seen:
                    continue
                seen.add(ident)
                rr.inst(ident, True, {"function": short(fi), "edit": norm(x, 60), "receiver": k, "state": state} if len(rr.samples) < 6 and state == FRESH and k in ("self.shards", "new_top_cviews") else None)
            for n, x, k, what in fr.reports:
                key = f"{short(fi)}:{k}{what}"
                if key in exceptions:
                    if f"{key} - {exceptions[key]}" not in rr.exceptions_used:
                        rr.exceptions_used.append(f"{key} - {exceptions[key]}")
                    continue
                rr.add(finding("FRESHLIST", fi, x, f"`{norm(x, 60)}` edits `{k}` in place, but on some path `{k}` is still a list shared with another canvas (parameter, element of a shard list, or the shards of the wrapped canvas): the operand canvas - possibly a cached one - changes too", construct=f"in-place edit of shared {k}{what}"))
    return rr
