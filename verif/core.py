"""Plumbing shared by all rules: findings, rule results, floors, keys."""

from __future__ import annotations

import ast
import hashlib
import typing

from .model import AnalysisError, FuncInfo, Project, norm


class Finding:
    """One reported construct.  key = rule + qualified function + normalised construct text;
    line numbers are for the reader only and never part of the key."""

    def __init__(self, rule: str, where: str, construct: str, message: str, file: str = "", line: int = 0, detail=None, informational=False):
        self.rule = rule
        self.where = where  # qualified function / class / table
        self.construct = construct  # normalised statement / expression text
        self.message = message
        self.file = file
        self.line = line
        self.detail = detail or {}
        self.informational = informational

    @property
    def key(self) -> str:
        return f"{self.rule}|{self.where}|{self.construct}"

    @property
    def slug(self) -> str:
        return hashlib.sha1(self.key.encode()).hexdigest()[:12]

    def to_json(self):
        return {
            "rule": self.rule,
            "where": self.where,
            "construct": self.construct,
            "message": self.message,
            "file": self.file,
            "line": self.line,
            "key": self.key,
            "detail": self.detail,
        }

    def __str__(self):
        return f"{self.file}:{self.line}: [{self.rule}] {self.where}: {self.message}  <<{self.construct}>>"


def short(fi_or_str) -> str:
    """Short qualified name: drop the 'urwid.' package prefix."""
    q = fi_or_str if isinstance(fi_or_str, str) else fi_or_str.qualname
    return q[len("urwid.") :] if q.startswith("urwid.") else q


def finding(rule: str, fi, node, message: str, construct: str | None = None, **detail) -> Finding:
    """Finding located at AST *node* inside function/class *fi*."""
    where = short(fi) if not isinstance(fi, str) else fi
    file = getattr(fi, "relpath", "") if not isinstance(fi, str) else detail.pop("file", "")
    line = getattr(node, "lineno", 0) if node is not None else getattr(fi, "lineno", 0)
    if construct is None:
        construct = norm(node) if node is not None else ""
    info = detail.pop("informational", False)
    return Finding(rule, where, construct, message, file, line, detail, info)


class RuleResult:
    def __init__(self, rule: str, clause: str, description: str, floor: int = 1):
        self.rule = rule  # e.g. "INV"
        self.clause = clause  # e.g. "C06.1"
        self.description = description
        self.floor = floor
        self.floor_nontrivial = 0  # optional second floor on the number of distinct non-trivial instances
        self.instances = 0  # rule instances evaluated
        self.nontrivial: set = set()  # distinct instances carrying a non-trivial obligation
        self.findings: list[Finding] = []
        self.samples: list = []
        self.notes: list[str] = []
        self.exceptions_used: list[str] = []
        self.units: dict = {}

    def inst(self, ident: str, nontrivial: bool = True, sample=None):
        self.instances += 1
        if nontrivial:
            self.nontrivial.add(ident)
        if sample is not None and len(self.samples) < 6:
            self.samples.append(sample)

    def add(self, f: Finding):
        if not any(x.key == f.key for x in self.findings):
            self.findings.append(f)

    def check_floor(self):
        # a rule that already reports a construct has seen the code: the finding wins over the floor
        if self.instances < self.floor and not [f for f in self.findings if not f.informational]:
            raise AnalysisError(
                f"{self.clause} [{self.rule}] matched {self.instances} instance(s), fewer than the floor {self.floor} "
                f"confirmed by hand: an anchor vanished or the rule no longer sees the code ({self.description})"
            )

        if len(self.nontrivial) < self.floor_nontrivial and not [f for f in self.findings if not f.informational]:
            raise AnalysisError(
                f"{self.clause} [{self.rule}] has {len(self.nontrivial)} comparable instance(s), fewer than the {self.floor_nontrivial} "
                f"confirmed by hand: the rule no longer sees the constructs it decides ({self.description})"
            )

    def to_json(self):
        return {
            "clause": self.clause,
            "rule": self.rule,
            "description": self.description,
            "floor": self.floor,
            "instances": self.instances,
            "nontrivial": len(self.nontrivial),
            "findings": [f.to_json() for f in self.findings],
            "samples": self.samples,
            "notes": self.notes,
            "exceptions_used": self.exceptions_used,
            "units": self.units,
        }


class Ctx:
    def __init__(self, project: Project, tier: str = "quick"):
        self.p = project
        self.tier = tier


def is_self_attr(n, self_name: str | None, attr: str | None = None) -> bool:
    return (
        isinstance(n, ast.Attribute)
        and isinstance(n.value, ast.Name)
        and n.value.id == self_name
        and (attr is None or n.attr == attr)
    )


def call_name(call: ast.Call) -> str | None:
    f = call.func
    if isinstance(f, ast.Name):
        return f.id
    if isinstance(f, ast.Attribute):
        return f.attr
    return None


def walk_no_nested(node):
    """ast.walk that does not descend into nested function / lambda / class bodies."""
    stack = [node]
    first = True
    while stack:
        n = stack.pop()
        yield n
        if not first and isinstance(n, (ast.FunctionDef, ast.AsyncFunctionDef, ast.Lambda, ast.ClassDef)):
            continue
        first = False
        stack.extend(ast.iter_child_nodes(n))


import builtins as _builtins


def abstract_text(text_or_node, module) -> str | None:
    """Construct text with every bare identifier that is neither a builtin nor a module-level name of *module*
    replaced by `_`: lets table entries survive a renaming of locals / parameters.  None if not parseable."""
    try:
        tree = ast.parse(text_or_node) if isinstance(text_or_node, str) else ast.parse(ast.unparse(text_or_node))
    except SyntaxError:
        return None
    keep = set(dir(_builtins)) | set(getattr(module, "bindings", {}))

    class A(ast.NodeTransformer):
        def visit_Name(self, n):
            if n.id not in keep:
                return ast.copy_location(ast.Name(id="_", ctx=n.ctx), n)
            return n

        def visit_arg(self, n):
            n.arg = "_"
            return n

    return " ".join(ast.unparse(A().visit(tree)).split())


def table_lookup(table: dict, prefix: str, node, module, limit: int = 100):
    """Find `prefix + norm(node)` in *table*; falls back to comparing name-abstracted constructs, so an entry keeps
    matching when local variables are renamed.  Returns the matching key or None."""
    key = prefix + norm(node, limit)
    if key in table:
        return key
    mine = abstract_text(node, module)
    if mine is None:
        return None
    for k in table:
        if not k.startswith(prefix):
            continue
        theirs = abstract_text(k[len(prefix):], module)
        if theirs is not None and theirs == mine:
            return k
    return None
