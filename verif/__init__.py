"""Static-analysis machinery for the urwid properties (see /verif/DESIGN.md)."""
