"""C14 - signals reach every connected handler exactly once per emit."""

from __future__ import annotations

import ast

from ..core import Ctx, RuleResult, finding, short, walk_no_nested
from ..model import AnalysisError, norm
from ..rules import exc, snap
from ..rules.defuse import DefUse
from ..rules.exc import ExcEngine
from ..rules.util import callee_name, calls_in, cfg_of, node_exprs, nodes_where

EXPLANATION = (
    "Decided (necessary structural conditions of C14): (1) SNAP: Signals.emit iterates a snapshot of the handler list (handlers and weak-reference callbacks edit the list in place); "
    "(2) CLOS: the weak-reference callback stored with the handlers captures neither the sender nor the weak/user arguments strongly, weak arguments are stored only as weakref.ref, "
    "and the handler tuple holds no reference to the sender; (3) EXC/ORDER: disconnect and disconnect_by_key cannot raise (modelled origins), connect rejects an unregistered name with "
    "NameError before the handler is appended; (4) a dead weak argument returns False before the callback is called, and liveness is tested by identity with None, not by truthiness; "
    "(5) emit visits every handler: the dispatch is a plain loop with no early exit or short-circuit, the result is accumulated and returned; (7) disconnect() identifies the handler by every field connect() stores except the key; (6) ALIAS: the handler list registered for (sender, signal) is only edited in place and never replaced - connect() holds an alias to it across the creation of the weak references, whose callbacks may disconnect at that very moment."
    ' Added after seed round 3: (8) _prepare_user_args returns tuples it built itself (a snapshot of the connect-time arguments).'
    " Round 4: (9) callbacks are compared by equality, never identity; (10) MetaSignals.__init__ extends only the class's own signal list (from the class dict) or a fresh one."
    " Round-4 triage: (11) every loop over a handler list whose body compares (==) or calls iterates a snapshot - emit and disconnect; every dereferenced weak reference in the module is tested by identity with None (a live sender may be falsy). Round 5: (12) disconnect() by arguments ends its search at the first match. Round 7: (12) ... and removes the match by key, never by an index counted on the snapshot it iterates; (13) SENTINEL: the deprecated user_arg is tested against None by identity before it is passed on; (14) ATOMIC: handler lists are edited in single list operations, never rewritten from a traversal of themselves (a GC-run weak-argument disconnect re-enters between bytecodes; fix 543d613)."
    ' Round 8: (5) extended: the dispatch loop lies on every path through emit() - no return in front of it.'
)
NOT_DECIDED = "Call order and argument order for all histories (list semantics), garbage-collection timing, behaviour for handlers connected/disconnected mid-emit beyond 'handlers that stay connected are called once'."
ASSUMPTIONS = []

SIG = "urwid.signals.Signals"


def _enclosing(fi, node):
    par = {}
    for n in ast.walk(fi.node):
        for ch in ast.iter_child_nodes(n):
            par[id(ch)] = n
    out = []
    cur = node
    while id(cur) in par:
        cur = par[id(cur)]
        out.append(cur)
    return out


def rule_closure(ctx: Ctx) -> RuleResult:
    p = ctx.p
    rr = RuleResult("CLOS", "C14.2", "the weak-reference callback and the handler tuple hold no strong reference to the sender or the weak arguments", floor=4)
    conn = p.func(f"{SIG}.connect")
    params = set(conn.params)
    sender = conn.params[1] if len(conn.params) > 1 else "obj"
    strong = {sender, "weak_args", "user_args", "callback", "user_arg"} & params
    # the callback is what connect() hands to _prepare_user_args as third argument (it ends up as the callback of
    # the weakref.ref objects stored in the sender's own handler list)
    pua = [c for c in calls_in(conn, "_prepare_user_args")]
    if not pua or len(pua[0].args) < 3:
        raise AnalysisError("Signals.connect: the call _prepare_user_args(weak_args, user_args, <callback>) was not found")
    cb_expr = pua[0].args[2]
    cb = None
    if isinstance(cb_expr, ast.Name):
        cb = p.local_def(conn, cb_expr.id)
    if cb is None:
        # not a nested function: a partial / bound method / lambda built in connect() - whatever expression defines it
        # must not mention the sender (or the other strongly held arguments): it would be stored, through the
        # weak-reference objects, in the sender's own handler list
        exprs = [cb_expr]
        if isinstance(cb_expr, ast.Name):
            exprs = [n.value for n in conn.own_nodes() if isinstance(n, ast.Assign) and any(isinstance(t, ast.Name) and t.id == cb_expr.id for t in n.targets)]
        names = {x.id for e in exprs for x in ast.walk(e) if isinstance(x, ast.Name) and isinstance(x.ctx, ast.Load)}
        captured = sorted(names & strong)
        rr.inst("weakref_callback free variables", True, {"callback_expression": [norm(e, 80) for e in exprs], "forbidden": sorted(strong)})
        if captured or not exprs:
            rr.add(finding("CLOS", conn, exprs[0] if exprs else conn.node, f"the weak-reference callback `{norm(exprs[0], 70) if exprs else '?'}` holds {captured} strongly; it is stored (as the callback of the weakref objects) in the sender's own handler list: sender -> handlers -> weakref -> callback -> sender is a cycle, the sender is no longer freed by reference counting when its last user drops it", construct=f"strong capture of {', '.join(captured)}"))
        return rr
    local = set(cb.all_params) | {n.id for n in cb.own_nodes() if isinstance(n, ast.Name) and isinstance(n.ctx, ast.Store)}
    free = {n.id for n in ast.walk(cb.node) if isinstance(n, ast.Name) and isinstance(n.ctx, ast.Load)} - local
    captured = sorted(free & strong)
    rr.inst("weakref_callback free variables", True, {"free_variables": sorted(free), "forbidden": sorted(strong)})
    if captured:
        rr.add(finding("CLOS", cb, cb.node, f"the weak-reference callback stored in the sender's own handler list captures {captured} strongly: the sender / its arguments are kept alive by their own signal handler", construct=f"strong capture of {', '.join(captured)}"))
    # the sender reaches the closure only through weakref.ref(sender)
    refs = [n for n in conn.own_nodes() if isinstance(n, ast.Assign) and isinstance(n.value, ast.Call) and ast.unparse(n.value.func) in ("weakref.ref", "ref") and n.value.args and isinstance(n.value.args[0], ast.Name) and n.value.args[0].id == sender]
    rr.inst("sender weakly referenced", True)
    if not refs:
        rr.add(finding("CLOS", conn, conn.node, "connect() no longer takes a weakref.ref of the sender for use by the weak-reference callback", construct="sender not weakly referenced"))
    # handler tuple
    apps = [c for c in calls_in(conn, "append")]
    rr.inst("handler tuple contents", True, {"appended": [norm(a, 80) for a in apps]})
    for a in apps:
        names = {n.id for x in a.args for n in ast.walk(x) if isinstance(n, ast.Name)}
        if sender in names or "weak_args" in names:
            rr.add(finding("CLOS", conn, a, f"the handler record appended to the sender's handler list references {sorted(names & {sender, 'weak_args'})} strongly", construct="handler tuple holds sender/weak args"))
    # _prepare_user_args: weak args only as weakref.ref
    pu = p.func(f"{SIG}._prepare_user_args")
    ok = False
    for n in pu.own_nodes():
        if isinstance(n, (ast.GeneratorExp, ast.ListComp)) and isinstance(n.elt, ast.Call) and ast.unparse(n.elt.func) in ("weakref.ref", "ref"):
            if any(isinstance(g.iter, ast.Name) and g.iter.id == "weak_args" for g in n.generators):
                ok = True
    rr.inst("weak args stored as weakref.ref", True)
    loads = [n for n in pu.own_nodes() if isinstance(n, ast.Name) and n.id == "weak_args" and isinstance(n.ctx, ast.Load)]
    if not ok or len(loads) != 1:
        rr.add(finding("CLOS", pu, pu.node, "weak_args are not stored exclusively as weakref.ref(...) objects", construct="weak args stored strongly"))
    return rr


def rule_connect_disconnect(ctx: Ctx) -> RuleResult:
    p = ctx.p
    rr = RuleResult("ORDER", "C14.3", "connect rejects an unregistered name with NameError before appending", floor=2)
    conn = p.func(f"{SIG}.connect")
    cfg = cfg_of(conn)
    apps = [n for c in calls_in(conn, "append") for n in nodes_where(cfg, lambda s, c=c: s is c)]
    if not apps:
        raise AnalysisError("Signals.connect: handlers.append(...) not found")
    tests = [
        n for n in cfg.nodes
        if n.kind == "test" and any(isinstance(x, ast.Compare) and isinstance(x.ops[0], ast.NotIn) and "_supported" in ast.unparse(x.comparators[0]) for x in ast.walk(n.ast))
        and any(lab == "T" and t.kind == "raisestmt" and "NameError" in ast.unparse(t.ast) for t, lab in n.succ)
    ]
    rr.inst("registration test", True, {"tests": [norm(t.stmt, 80) for t in tests]})
    rr.inst("append dominated by the test", True)
    if not tests:
        rr.add(finding("ORDER", conn, conn.node, "connect() no longer raises NameError for a signal name that is not registered for the sender's class", construct="no registration test"))
    elif not all(cfg.dominated(a, tests) for a in apps):
        rr.add(finding("ORDER", conn, apps[0].stmt, "the handler can be appended on a path that has not checked that the signal name is registered", construct="append before registration test"))
    return rr


def rule_dead_weak(ctx: Ctx) -> RuleResult:
    p = ctx.p
    rr = RuleResult("PASS", "C14.4", "a dead weak argument returns False before the callback is called; liveness is tested by identity with None", floor=3)
    cc = p.func(f"{SIG}._call_callback")
    cfg = cfg_of(cc)
    call_nodes = nodes_where(cfg, lambda s: isinstance(s, ast.Call) and isinstance(s.func, ast.Name) and s.func.id == "callback")
    if not call_nodes:
        raise AnalysisError("_call_callback no longer calls `callback(...)`")
    # names holding a dereferenced weak reference: x = w() where w iterates weak_args
    loopvars = set()
    for n in cc.own_nodes():
        if isinstance(n, (ast.For, ast.comprehension)) and isinstance(n.iter, ast.Name) and n.iter.id == "weak_args":
            loopvars |= {x.id for x in ast.walk(n.target) if isinstance(x, ast.Name)}
    derefs = {}
    for n in cc.own_nodes():
        if isinstance(n, ast.Assign) and isinstance(n.value, ast.Call) and isinstance(n.value.func, ast.Name) and n.value.func.id in loopvars and not n.value.args:
            for t in n.targets:
                if isinstance(t, ast.Name):
                    derefs[t.id] = n
    rr.inst("weak references dereferenced", True, {"deref_names": sorted(derefs), "loop_variables": sorted(loopvars)})
    if not derefs:
        # comprehension style: [w() for w in weak_args]
        rr.add(finding("PASS", cc, cc.node, "weak arguments are not dereferenced one by one into a local that is tested against None before the callback runs", construct="weak args not checked individually"))
        return rr
    for name in derefs:
        tests = [n for n in cfg.nodes if n.kind == "test" and any(isinstance(x, ast.Name) and x.id == name for x in ast.walk(n.ast))]
        rr.inst(f"liveness test of {name}", True, {"tests": [norm(t.stmt, 60) for t in tests]})
        ident_tests = []
        for t in tests:
            a = t.ast
            if isinstance(a, ast.Compare) and len(a.ops) == 1 and isinstance(a.ops[0], (ast.Is, ast.IsNot)) and isinstance(a.comparators[0], ast.Constant) and a.comparators[0].value is None:
                ident_tests.append((t, "T" if isinstance(a.ops[0], ast.IsNot) else "F"))
            else:
                rr.add(finding("PASS", cc, t.stmt, f"the dereferenced weak argument `{name}` is tested by truthiness (`{norm(a, 40)}`): a live but falsy argument (empty list walker, 0-length container) would be treated as dead and the handler silently skipped", construct=f"truthiness test of weak argument {name}"))
        if not tests:
            rr.add(finding("PASS", cc, derefs[name], f"`{name}` (a dereferenced weak argument) is never tested against None: a collected argument would be passed to the handler as None", construct=f"weak argument {name} unchecked"))
        for t, alive in ident_tests:
            dead = "F" if alive == "T" else "T"
            r = cfg.reachable_from_edges([(t, dead)])
            rr.inst(f"dead branch of {name} skips the callback", True)
            if any(c in r for c in call_nodes):
                rr.add(finding("PASS", cc, t.stmt, "the callback can still be called on the path where a weak argument is dead", construct="callback reachable from dead branch"))
    return rr


def rule_emit_total(ctx: Ctx) -> RuleResult:
    p = ctx.p
    rr = RuleResult("ORDER", "C14.5", "emit dispatches to every handler (plain loop, no early exit or short-circuit) and returns the accumulated result", floor=3)
    em = p.func(f"{SIG}.emit")
    calls = [c for c in calls_in(em, "_call_callback")]
    # calls inside comprehensions are nested scopes for calls_in? comprehension bodies are part of own_nodes
    if not calls:
        calls = [n for n in ast.walk(em.node) if isinstance(n, ast.Call) and callee_name(n) == "_call_callback"]
    if not calls:
        raise AnalysisError("Signals.emit no longer calls _call_callback")
    for c in calls:
        enc = _enclosing(em, c)
        loops = [e for e in enc if isinstance(e, (ast.For, ast.While))]
        gens = [e for e in enc if isinstance(e, (ast.GeneratorExp,))]
        boolops = [e for e in enc if isinstance(e, ast.BoolOp)]
        rr.inst("dispatch form", True, {"in_for_loop": bool(loops), "in_generator": bool(gens)})
        if gens:
            rr.add(finding("ORDER", em, c, "handlers are dispatched from a generator expression (consumed lazily by any()/all()/next()): dispatch stops at the first handler that decides the result, later handlers are never called", construct="lazy/short-circuit dispatch"))
            continue
        if boolops:
            rr.add(finding("ORDER", em, c, "the handler call is an operand of `and`/`or`: it is skipped once the result is known", construct="short-circuit dispatch"))
        if not loops and not any(isinstance(e, ast.ListComp) for e in enc):
            rr.add(finding("ORDER", em, c, "handlers are not dispatched from a loop over the handler list", construct="no dispatch loop"))
            continue
        # the dispatch loop is reached on every way through emit(): a return in front of it (an 'optimisation' that
        # looks the name up in the class registration first) silences handlers that are connected - the registration
        # of a class can be replaced after handlers were connected (seed C14-r8b)
        cfg = cfg_of(em)
        heads = [n for n in cfg.nodes if n.kind == "for" and any(n.stmt is lp for lp in loops)]
        rr.inst("dispatch loop on every path", True, {"loop_heads": len(heads)})
        if heads and not cfg.must_pass(cfg.entry, heads, ends=[cfg.exit], labels=("n", "T", "F")):
            path = cfg.witness_path(cfg.entry, [cfg.exit], avoid=heads, labels=("n", "T", "F"))
            ret = next((n for n in (path or []) if n.kind == "return"), None)
            rr.add(finding("ORDER", em, ret.stmt if ret is not None else em.node, f"emit() can return (`{norm(ret.stmt, 40) if ret is not None else '?'}`) without looking at the handlers connected to the sender: handlers that are connected and were never disconnected are not called, and emit() answers False where a handler would have returned True", construct="emit returns before the dispatch loop"))
        for lp in loops:
            rr.inst("no early exit", True)
            early = [n for st in lp.body for n in walk_no_nested(st) if isinstance(n, (ast.Return, ast.Break))]
            if early:
                rr.add(finding("ORDER", em, early[0], "the dispatch loop can stop before all handlers were called", construct=f"early exit `{norm(early[0], 40)}` in dispatch loop"))
    # accumulated result is what is returned
    rets = [n for n in em.own_nodes() if isinstance(n, ast.Return) and n.value is not None]
    rr.inst("result returned", True, {"returns": [norm(r, 60) for r in rets]})
    acc = set()
    for n in em.own_nodes():
        if isinstance(n, ast.AugAssign) and isinstance(n.op, ast.BitOr) and isinstance(n.target, ast.Name) and any(x in calls for x in ast.walk(n.value)):
            acc.add(n.target.id)
        if isinstance(n, ast.Assign) and any(x in calls for x in ast.walk(n.value)) and isinstance(n.value, ast.BoolOp):
            pass
    if acc and not any(isinstance(r.value, ast.Name) and r.value.id in acc for r in rets):
        rr.add(finding("ORDER", em, rets[0] if rets else em.node, "emit does not return the value accumulated over all handlers", construct="accumulator not returned"))
    if not acc and not any(isinstance(e, ast.GeneratorExp) for c in calls for e in _enclosing(em, c)):
        rr.add(finding("ORDER", em, em.node, "handler results are not accumulated with `|=` over all handlers", construct="no accumulation"))
    return rr


def rule_single_step_edits(ctx: Ctx) -> RuleResult:
    """A weak argument's reference callback calls disconnect_by_key() whenever the garbage collector happens to run -
    between any two bytecodes of a method that is editing the very same handler list.  An edit is therefore safe
    only as a single list operation (append / remove / pop / del of one element); a read-modify-write
    `handlers[:] = [h for h in handlers if ...]` traverses the list while it may shrink under it (an element is
    skipped: a live handler is lost) and writes back what it read before (a handler the re-entrant call removed
    is back).  Every store into a handler list in Signals whose value is computed from a traversal of that same
    list is reported; the single-step edits are counted.  Before fix 543d613 disconnect_by_key() was such a store."""
    from ..rules.defuse import DefUse

    p = ctx.p
    rr = RuleResult("ATOMIC", "C14.14", "handler lists are edited in single list operations, never by writing back a filtered traversal of the same list", floor=2)
    cls = p.cls(SIG)
    for fi in p.all_class_functions(cls):
        dfu = DefUse(fi)

        def is_handler_list(e, at):
            x = ast.unparse(dfu.expand(e, at)) if at is not None else ast.unparse(e)
            return "_signal_attr" in x

        for n in fi.own_nodes():
            if isinstance(n, ast.Call) and isinstance(n.func, ast.Attribute) and n.func.attr in ("append", "remove", "pop", "insert") and isinstance(n.func.value, ast.Name):
                at = next((c for c in dfu.cfg.nodes for e in node_exprs(c) for x in walk_no_nested(e) if x is n), None)
                if at is not None and is_handler_list(n.func.value, at):
                    rr.inst(f"{short(fi)}: {norm(n, 40)}", True, {"site": f"{short(fi)}: {norm(n, 60)}", "edit": "single step"})
            if isinstance(n, (ast.Assign, ast.AugAssign)):
                tgts = n.targets if isinstance(n, ast.Assign) else [n.target]
                for t in tgts:
                    base = t.value if isinstance(t, ast.Subscript) and isinstance(t.slice, ast.Slice) else None
                    if base is None or not isinstance(base, ast.Name):
                        continue
                    at = dfu.node_of(n)
                    if at is None or not is_handler_list(base, at):
                        continue
                    reads_self = any(isinstance(x, ast.Name) and x.id == base.id and isinstance(x.ctx, ast.Load) for x in ast.walk(n.value))
                    rr.inst(f"{short(fi)}: {norm(n, 40)}", True, {"site": f"{short(fi)}: {norm(n, 60)}", "edit": "write-back of a traversal" if reads_self else "slice store"})
                    if reads_self:
                        rr.add(finding("ATOMIC", fi, n, f"`{norm(n, 70)}` reads the handler list `{base.id}` and writes the result back: a garbage collection between the two (any bytecode boundary of the traversal) runs a dead weak argument's disconnect_by_key() on the same list - the traversal skips the element after the removed one (a live handler is dropped) and the write-back restores the removed one", construct=f"{fi.name}: handler list rewritten from a traversal of itself"))
    return rr


def rule_list_identity(ctx: Ctx) -> RuleResult:
    """connect() fetches the handler list, then creates weak references (whose callbacks may run
    disconnect_by_key at that very moment), then appends to the list it fetched.  That is only correct
    if the list object registered for (sender, name) is never replaced: edits must be in place."""
    from ..rules.defuse import DefUse

    p = ctx.p
    rr = RuleResult("ALIAS", "C14.6", "the handler list registered for (sender, signal) is only edited in place, never replaced, while connect() holds an alias to it across weak-reference creation", floor=3)
    cls = p.cls(SIG)
    conn = p.func(f"{SIG}.connect")
    # precondition that makes the clause necessary: connect holds an alias across the weakref creation
    du = DefUse(conn)
    appends = [c for c in conn.own_nodes() if isinstance(c, ast.Call) and isinstance(c.func, ast.Attribute) and c.func.attr == "append" and isinstance(c.func.value, ast.Name)]
    if not appends:
        raise AnalysisError("Signals.connect no longer appends to a local alias of the handler list")
    alias = appends[0].func.value.id
    rr.inst("connect holds alias", True, {"alias": alias, "append": norm(appends[0], 70)})

    def is_registry(e, fi, dfu, at) -> bool:
        x = ast.unparse(dfu.expand(e, at))
        return "_signal_attr" in x

    for fi in p.all_class_functions(cls):
        dfu = DefUse(fi)
        for n in fi.own_nodes():
            tgts = []
            if isinstance(n, ast.Assign):
                tgts = [(t, n) for t in n.targets]
            elif isinstance(n, ast.AugAssign):
                tgts = [(n.target, n)]
            elif isinstance(n, ast.Delete):
                tgts = [(t, n) for t in n.targets]
            for t, st in tgts:
                if not isinstance(t, ast.Subscript) or isinstance(t.slice, ast.Slice):
                    continue
                at = dfu.node_of(st)
                if at is None or not is_registry(t.value, fi, dfu, at):
                    continue
                # stores one level below the registry dict (registry[name] = ...) replace a handler list
                base = ast.unparse(dfu.expand(t.value, at))
                depth_ok = base.rstrip().endswith(")") or base.endswith("}")  # the dict itself, not dict[name]
                rr.inst(f"{short(fi)}:{norm(st, 60)}", True, {"function": short(fi), "store": norm(st, 70)})
                if depth_ok:
                    rr.add(finding("ALIAS", fi, st, f"`{norm(st, 70)}` replaces the handler list registered for a signal; connect() appends to the list object it fetched before creating the weak references, so a handler connected while a weak argument of another handler dies is appended to an orphaned list and never called", construct=f"handler list replaced: {norm(st, 70)}"))
            if isinstance(n, ast.Call) and isinstance(n.func, ast.Attribute) and n.func.attr in ("pop", "clear", "update", "popitem") and not isinstance(n.func.value, ast.Name):
                at = dfu.node_of(n)
                if at is not None and is_registry(n.func.value, fi, dfu, at) and ast.unparse(dfu.expand(n.func.value, at)).rstrip().endswith(")"):
                    rr.inst(f"{short(fi)}:{norm(n, 60)}", True)
                    rr.add(finding("ALIAS", fi, n, f"`{norm(n, 70)}` removes or replaces handler lists of the per-sender registry while connect()/emit() may hold aliases to them", construct=f"registry edited: {norm(n, 70)}"))
        # in-place edits of the list are the accepted idiom: count them as instances
        for n in fi.own_nodes():
            if isinstance(n, ast.Assign) and any(isinstance(t, ast.Subscript) and isinstance(t.slice, ast.Slice) and isinstance(t.value, ast.Name) for t in n.targets):
                rr.inst(f"{short(fi)}:{norm(n, 60)}", True, {"function": short(fi), "in_place_edit": norm(n, 70)})
            elif isinstance(n, ast.Call) and isinstance(n.func, ast.Attribute) and n.func.attr in ("append", "remove") and isinstance(n.func.value, ast.Name) and is_registry(n.func.value, fi, dfu, dfu.node_of(n)):
                rr.inst(f"{short(fi)}:{norm(n, 60)}", True)
    return rr


def rule_disconnect_fields(ctx: Ctx) -> RuleResult:
    """connect() stores (key, callback, user_arg, user_args); disconnect() must identify the handler by *all*
    fields but the key, in the stored order - comparing fewer fields removes a different handler."""
    p = ctx.p
    rr = RuleResult("TAB", "C14.7", "disconnect() matches a handler on every field connect() stores except the key", floor=2)
    conn = p.func(f"{SIG}.connect")
    disc = p.func(f"{SIG}.disconnect")
    stored = None
    for c in conn.own_nodes():
        if isinstance(c, ast.Call) and isinstance(c.func, ast.Attribute) and c.func.attr == "append" and c.args and isinstance(c.args[0], ast.Tuple):
            stored = [ast.unparse(e) for e in c.args[0].elts]
    if not stored or len(stored) < 2:
        raise AnalysisError("Signals.connect: handlers.append((key, ...)) not found")
    rr.inst("stored record", True, {"stored": stored})
    want = stored[1:]
    ok = False
    got = None
    for n in disc.own_nodes():
        if isinstance(n, ast.Compare) and len(n.ops) == 1 and isinstance(n.ops[0], ast.Eq):
            l, r = n.left, n.comparators[0]
            for a, b in ((l, r), (r, l)):
                if isinstance(a, ast.Subscript) and isinstance(a.slice, ast.Slice) and isinstance(a.slice.lower, ast.Constant) and a.slice.lower.value == 1 and a.slice.upper is None and isinstance(b, ast.Tuple):
                    got = [ast.unparse(e) for e in b.elts]
                    ok = got == want
    rr.inst("disconnect comparison", True, {"compared": got, "expected": want})
    if not ok:
        rr.add(finding("TAB", disc, disc.node, f"disconnect() does not compare the stored record minus the key, `h[1:] == ({', '.join(want)})`" + (f" (it compares {got})" if got else " (no whole-record comparison found)") + ": handlers that differ only in an uncompared field are confused - the wrong one is removed, or a never-connected combination removes a connected handler", construct="disconnect does not compare all stored fields"))
    return rr


def rule_args_snapshot(ctx: Ctx) -> RuleResult:
    """What connect() stores with a handler is a snapshot of the arguments given at connect time: an immutable
    tuple built from the caller's iterable.  Storing the caller's own object lets a later mutation (or a one-pass
    iterator, or a list at connect and an equal tuple at disconnect) change which arguments are delivered / matched."""
    from ..rules.defuse import DefUse

    p = ctx.p
    rr = RuleResult("SNAP", "C14.8", "_prepare_user_args returns tuples it built itself from the caller's weak_args / user_args", floor=2)
    fi = p.func(f"{SIG}._prepare_user_args")
    du = DefUse(fi)
    rets = [n for n in du.cfg.nodes if n.kind == "return" and isinstance(n.ast.value, ast.Tuple)]
    if not rets:
        raise AnalysisError("_prepare_user_args: the returned pair was not found")

    def fresh_tuple(e, at, depth=0):
        if depth > 5:
            return False
        if isinstance(e, ast.Call) and isinstance(e.func, ast.Name) and e.func.id == "tuple":
            return True
        if isinstance(e, ast.Tuple):
            return True
        if isinstance(e, ast.BoolOp) and isinstance(e.op, ast.Or):
            return all(fresh_tuple(v, at, depth + 1) for v in e.values)
        if isinstance(e, ast.IfExp):
            return fresh_tuple(e.body, at, depth + 1) and fresh_tuple(e.orelse, at, depth + 1)
        if isinstance(e, ast.Name):
            defs = du.reaching(e.id, at)
            return bool(defs) and all(isinstance(v, ast.AST) and fresh_tuple(v, dn, depth + 1) for v, how, dn in defs)
        return False

    for r in rets:
        for i, e in enumerate(r.ast.value.elts):
            rr.inst(f"returned component {i}", True, {"component": i, "expression": du.text(e, r)[:80]})
            if not fresh_tuple(e, r):
                rr.add(finding("SNAP", fi, r.stmt, f"component {i} of the stored arguments (`{du.text(e, r)[:70]}`) can be the caller's own object rather than a tuple built here: mutating or reusing the list passed as user_args changes what the handler receives, an iterator is consumed by the first emit, and disconnect(user_args=(...)) no longer matches a handler connected with an equal list", construct=f"stored arguments component {i} not a fresh tuple"))
    return rr


def rule_callback_equality(ctx: Ctx) -> RuleResult:
    """disconnect() finds the handler by *equality* of (callback, user_arg, user_args): every `obj.method` access makes
    a new bound-method object, so identity never matches what connect() stored.  No test in the Signals class may
    compare a callback by identity (`is`), except against None."""
    p = ctx.p
    rr = RuleResult("KIND", "C14.9", "Signals compares callbacks by equality, never by identity", floor=1)
    cls = p.cls(SIG)
    n_cmp = 0
    for fi in p.all_class_functions(cls):
        cbs = {a for a in fi.params if a == "callback"}
        if not cbs:
            continue
        for c in fi.own_nodes():
            if isinstance(c, ast.Compare):
                ops = [c.left, *c.comparators]
                if any(isinstance(o, ast.Name) and o.id in cbs for o in ops):
                    n_cmp += 1
                    rr.inst(f"{short(fi)}:{norm(c, 40)}", True)
                    for i, op in enumerate(c.ops):
                        a, b = ops[i], ops[i + 1]
                        if isinstance(op, (ast.Is, ast.IsNot)) and not any(isinstance(x, ast.Constant) and x.value is None for x in (a, b)):
                            rr.add(finding("KIND", fi, c, f"`{norm(c, 50)}` compares the callback by identity: a bound method handed to disconnect_signal() is a different object from the equal one connect stored, so the handler is never found and keeps being called", construct=f"callback compared by identity: {norm(c, 50)}"))
        rr.inst(f"{short(fi)}", True)
    return rr


def rule_meta_fresh(ctx: Ctx) -> RuleResult:
    """MetaSignals.__init__ collects the signal names of a class and its bases by extending a list in place.  That list
    must be the class's own declaration (taken from the class dict) or a fresh one - a list reached through getattr() on
    the class may be *inherited*, and extending it rewrites the signal list of a base class (and of every subclass
    of that base defined later)."""
    from ..rules.defuse import DefUse

    p = ctx.p
    rr = RuleResult("FRESH", "C14.10", "MetaSignals.__init__ extends only a fresh list (a copy of the class body's declaration), never a list object another class may hold", floor=1)
    fi = p.func("urwid.signals.MetaSignals.__init__")
    du = DefUse(fi)
    dparam = fi.params[-1]
    for node in du.cfg.nodes:
        if node.ast is None or node.kind in ("for", "with", "handler"):
            continue
        for c in walk_no_nested(node.ast):
            if isinstance(c, ast.Call) and isinstance(c.func, ast.Attribute) and c.func.attr in ("extend", "append", "insert") and isinstance(c.func.value, ast.Name):
                for v, how, dn in du.reaching(c.func.value.id, node):
                    if not isinstance(v, ast.AST):
                        continue
                    txt = ast.unparse(v)
                    # a fresh list only: the list object written in the class body can be shared between classes
                    # (signals = COMMON), and extending it leaks inherited names into the other class
                    own = isinstance(v, (ast.List, ast.ListComp)) or (isinstance(v, ast.Call) and isinstance(v.func, ast.Name) and v.func.id == "list")
                    rr.inst(f"{norm(c, 40)}<-{txt[:40]}", True, {"mutation": norm(c, 50), "list_is": txt[:60]})
                    if not own:
                        rr.add(finding("FRESH", fi, c, f"`{norm(c, 50)}` extends a list obtained as `{txt[:60]}`: for a class that declares no signals of its own this is the list object of a base class, which is rewritten in place - after `class AB(A, B)` A.signals contains B's names and every later subclass of A accepts them", construct=f"inherited signal list extended in place: {txt[:50]}"))
    return rr


def rule_disconnect_one(ctx: Ctx) -> RuleResult:
    """disconnect() by arguments undoes *one* connect(): a handler connected twice with the same arguments and
    disconnected once stays connected once.  The loop over the handlers therefore ends at the first match - after
    the matching entry was handed to disconnect_by_key() the loop head must not be reachable again."""
    p = ctx.p
    rr = RuleResult("PASS", "C14.12", "Signals.disconnect removes one matching connection: the search loop ends at the first match", floor=1)
    fi = p.func(f"{SIG}.disconnect")
    cfg = cfg_of(fi)
    calls = nodes_where(cfg, lambda x: isinstance(x, ast.Call) and isinstance(x.func, ast.Attribute) and x.func.attr == "disconnect_by_key")
    heads = [n for n in cfg.nodes if n.kind == "for"]
    if not heads:
        raise AnalysisError("Signals.disconnect: the search loop was not found")
    # the search runs over a *snapshot* of the handler list (comparing may run foreign code that changes the list);
    # an index into the snapshot says nothing about the live list - the matching entry is removed by its key
    for h in heads:
        it = h.ast.iter
        snap = isinstance(it, ast.Call) and ((isinstance(it.func, ast.Name) and it.func.id in ("list", "tuple")) or (isinstance(it.func, ast.Name) and it.func.id == "enumerate" and it.args and isinstance(it.args[0], ast.Call) and isinstance(it.args[0].func, ast.Name) and it.args[0].func.id in ("list", "tuple")))
        idx = h.ast.target.elts[0].id if isinstance(h.ast.target, ast.Tuple) and isinstance(it, ast.Call) and isinstance(it.func, ast.Name) and it.func.id == "enumerate" and isinstance(h.ast.target.elts[0], ast.Name) else None
        if snap and idx:
            for n in ast.walk(h.ast):
                positional = (isinstance(n, ast.Delete) and any(isinstance(t, ast.Subscript) and isinstance(t.slice, ast.Name) and t.slice.id == idx for t in n.targets)) or (isinstance(n, ast.Call) and isinstance(n.func, ast.Attribute) and n.func.attr == "pop" and n.args and isinstance(n.args[0], ast.Name) and n.args[0].id == idx)
                if positional:
                    rr.inst(f"positional removal {norm(n, 40)}", True)
                    rr.add(finding("PASS", fi, n, f"`{norm(n, 50)}` removes from the live handler list by an index counted on a snapshot of it: comparing entries can run foreign code (__eq__, weak-reference callbacks fired by a collection) that removes an earlier entry in the meantime - the index is stale, the handler *after* the intended one is removed and the one asked for stays connected", construct="handler removed by snapshot index"))
    if not calls:
        if rr.findings:
            return rr
        raise AnalysisError("Signals.disconnect: the disconnect_by_key() call was not found")
    for c in calls:
        r = cfg.reachable([c], labels=("n", "T", "F"))
        again = [h for h in heads if h in r]
        rr.inst(norm(c.stmt, 50), True, {"removal": norm(c.stmt, 60), "loop_continues": bool(again)})
        if again:
            rr.add(finding("PASS", fi, c.stmt, f"after `{norm(c.stmt, 50)}` the search loop goes on: one disconnect_signal() removes every connection made with the same arguments, so a handler that was connected twice and disconnected once is no longer called although it is still connected once", construct="disconnect continues after the first match"))
    return rr


def rule_user_arg_sentinel(ctx: Ctx) -> RuleResult:
    """The deprecated positional `user_arg` uses None for 'not given': connect() and disconnect() store and compare the
    value as it is, so 0, False, '' and () are legitimate user arguments.  Wherever a method of Signals decides whether
    to pass it on, the test is the identity test with None - a truthiness test drops the falsy ones
    (Button(.., on_press=cb, user_data=0) calls cb without its argument)."""
    p = ctx.p
    rr = RuleResult("SENTINEL", "C14.13", "the deprecated user_arg is tested against None by identity, never for truthiness, before it is passed to the handler", floor=1)
    cls = p.cls(SIG)
    for fi in cls.methods.values():
        if "user_arg" not in fi.all_params:
            continue
        for n in fi.own_nodes():
            tests = []
            if isinstance(n, (ast.If, ast.IfExp, ast.While)):
                tests.append(n.test)
            for t in tests:
                names_truthy = [x for x in ([t] if isinstance(t, ast.Name) else (t.values if isinstance(t, ast.BoolOp) else ([t.operand] if isinstance(t, ast.UnaryOp) and isinstance(t.op, ast.Not) else []))) if isinstance(x, ast.Name) and x.id == "user_arg"]
                ident = any(isinstance(c, ast.Compare) and isinstance(c.left, ast.Name) and c.left.id == "user_arg" and isinstance(c.ops[0], (ast.Is, ast.IsNot)) for c in ast.walk(t))
                if ident:
                    rr.inst(f"{short(fi)}: {norm(t, 40)}", True, {"test": f"{short(fi)}: {norm(t, 50)}", "form": "identity with None"})
                for x in names_truthy:
                    rr.inst(f"{short(fi)}: {norm(t, 40)}", True)
                    rr.add(finding("SENTINEL", fi, t, f"`{norm(t, 40)}` decides by truthiness whether the deprecated user_arg is passed on; None is the 'not given' marker, 0 / False / '' / () are values a caller may have given (connect and disconnect treat them as present): the handler is called without its argument", construct="user_arg tested for truthiness"))
    return rr


def rule_foreign_code(ctx: Ctx) -> RuleResult:
    """Two places where Signals runs code it does not control:
    (a) comparing stored handlers with == (disconnect) can call a callback's __eq__, and any allocation can start a
        garbage collection whose weak-reference callbacks edit the handler list in place (disconnect_by_key):
        every loop over a handler list whose body compares or calls iterates a snapshot, as emit() does;
    (b) a dereferenced weak reference (`o = ref()`) is `None` when dead - and possibly *falsy* when alive (an empty
        list walker is a sender): the liveness test is an identity test with None, in every function of the module."""
    p = ctx.p
    rr = RuleResult("SNAP", "C14.11", "loops over a handler list that compare or call iterate a snapshot; dereferenced weak references are tested by identity with None", floor=3)
    cls = p.cls(SIG)
    for fi in p.all_class_functions(cls):
        du = None
        for n in fi.own_nodes():
            if not isinstance(n, ast.For):
                continue
            it = n.iter
            inner = it
            snap_ = False
            if isinstance(it, ast.Call) and isinstance(it.func, ast.Name) and it.func.id in ("list", "tuple") and it.args:
                inner, snap_ = it.args[0], True
            elif isinstance(it, ast.Subscript) and isinstance(it.slice, ast.Slice):
                inner, snap_ = it.value, True
            if not isinstance(inner, ast.Name):
                continue
            du = du or DefUse(fi)
            heads = du.cfg.stmt_nodes(n)
            at = du.node_of(n) or (heads[0] if heads else None)
            src = ast.unparse(du.expand(inner, at)) if at is not None else ""
            if "_signal_attr" not in src:
                continue
            foreign = [x for b in n.body for x in ast.walk(b) if (isinstance(x, ast.Compare) and any(isinstance(o, (ast.Eq, ast.NotEq)) for o in x.ops)) or isinstance(x, ast.Call)]
            if not foreign:
                continue
            rr.inst(f"{short(fi)}: for over {norm(inner, 30)}", True, {"function": short(fi), "loop": norm(n, 70), "snapshot": snap_, "foreign": norm(foreign[0], 50)})
            if not snap_:
                rr.add(finding("SNAP", fi, n, f"`{norm(n, 60)}` iterates the live handler list while its body runs `{norm(foreign[0], 50)}`: a callback's __eq__ or a garbage collection firing weak-reference callbacks (disconnect_by_key edits the list in place) shifts the entries under the loop, which then skips the handler it was looking for", construct=f"{fi.name}: live handler list iterated while comparing / calling"))
    # (b)
    for fi in p.functions.values():
        if fi.module.name != "urwid.signals":
            continue
        refs = set()
        scope = fi
        while scope is not None:
            for a in scope.own_nodes():
                if isinstance(a, ast.Assign) and isinstance(a.value, ast.Call) and ast.unparse(a.value.func) in ("weakref.ref", "ref"):
                    refs |= {t.id for t in a.targets if isinstance(t, ast.Name)}
            scope = getattr(scope, "parent", None)
        derefs = {}
        for a in fi.own_nodes():
            if isinstance(a, ast.Assign) and isinstance(a.value, ast.Call) and isinstance(a.value.func, ast.Name) and a.value.func.id in refs and not a.value.args:
                for t in a.targets:
                    if isinstance(t, ast.Name):
                        derefs[t.id] = a
        for name, a in derefs.items():
            for t in fi.own_nodes():
                test = t.test if isinstance(t, (ast.If, ast.While, ast.IfExp)) else None
                if test is None:
                    continue
                truthy = [x for x in ([test] + (list(test.values) if isinstance(test, ast.BoolOp) else []) + ([test.operand] if isinstance(test, ast.UnaryOp) and isinstance(test.op, ast.Not) else [])) if isinstance(x, ast.Name) and x.id == name]
                ident = any(isinstance(x, ast.Compare) and isinstance(x.left, ast.Name) and x.left.id == name and isinstance(x.ops[0], (ast.Is, ast.IsNot)) for x in ast.walk(test))
                if not truthy and not ident:
                    continue
                rr.inst(f"{short(fi)}: liveness of {name}", True, {"function": short(fi), "deref": norm(a, 40), "test": norm(test, 40)})
                if truthy:
                    rr.add(finding("SNAP", fi, t, f"`{norm(test, 40)}` tests the dereferenced weak reference `{name}` by truthiness: a live sender that is falsy (an empty list walker, an empty container) is taken for dead - here the handler of a dead weak argument is never removed from it", construct=f"truthiness test of dereferenced weak reference {name}"))
    return rr


def run(ctx: Ctx):
    p = ctx.p
    out = [
        snap.run_snap(p, "C14.1", [SIG], floor=1, description="Signals.emit iterates a snapshot of the handler list while handlers may connect/disconnect"),
        rule_closure(ctx),
        exc.run_exc(p, "C14.3a", [(f"{SIG}.disconnect", None), (f"{SIG}.disconnect_by_key", None)], allowed={}, infeasible={}, floor=2,
                    description="disconnect / disconnect_by_key cannot raise (modelled origins): disconnecting something unknown does nothing"),
        rule_connect_disconnect(ctx),
        rule_dead_weak(ctx),
        rule_args_snapshot(ctx),
        rule_callback_equality(ctx),
        rule_meta_fresh(ctx),
        rule_emit_total(ctx),
        rule_list_identity(ctx),
        rule_single_step_edits(ctx),
        rule_disconnect_fields(ctx),
        rule_foreign_code(ctx),
        rule_disconnect_one(ctx),
        rule_user_arg_sentinel(ctx),
    ]
    return out


from ..mutants import Mut  # noqa: E402

_F = "urwid/signals.py"
MUTANTS = [
    Mut("twin-disconnect-by-key-try-except", "urwid/signals.py", "Signals.disconnect_by_key", "                with contextlib.suppress(ValueError):\n                    handlers.remove(h)\n", "                try:\n                    handlers.remove(h)\n                except ValueError:\n                    pass\n", twin=True),
    Mut("twin-emit-result-after-lookup", "urwid/signals.py", "Signals.emit", "        result = False\n        handlers = getattr(obj, self._signal_attr, {}).get(name, [])\n", "        handlers = getattr(obj, self._signal_attr, {}).get(name, [])\n        result = False\n", twin=True),
    Mut("disconnect-by-key-rewrites-list", "urwid/signals.py", "Signals.disconnect_by_key", "        for h in list(handlers):\n            if h[0] is key:\n                with contextlib.suppress(ValueError):\n                    handlers.remove(h)\n", "        handlers[:] = [h for h in handlers if h[0] is not key]\n", "ATOMIC|signals.Signals.disconnect_by_key|disconnect_by_key: handler list rewritten from a traversal of itself"),
    Mut("disconnect-by-key-filter-writeback", "urwid/signals.py", "Signals.disconnect_by_key", "        for h in list(handlers):\n            if h[0] is key:\n                with contextlib.suppress(ValueError):\n                    handlers.remove(h)\n", "        handlers[:] = list(filter(lambda h: h[0] is not key, handlers))\n", "ATOMIC|signals.Signals.disconnect_by_key|disconnect_by_key: handler list rewritten from a traversal of itself"),
    Mut("disconnect-by-snapshot-index", "urwid/signals.py", "Signals.disconnect", "        for h in list(handlers):  # comparing may run foreign code (__eq__, weak reference callbacks)\n            if h[1:] == (callback, user_arg, user_args):\n                return self.disconnect_by_key(obj, name, h[0])\n", "        for index, h in enumerate(list(handlers)):\n            if h[1:] == (callback, user_arg, user_args):\n                del handlers[index]\n                return None\n", "PASS|signals.Signals.disconnect|handler removed by snapshot index"),
    Mut("user-arg-dropped-when-falsy", "urwid/signals.py", "Signals._call_callback", "(user_arg,) if user_arg is not None else ()", "(user_arg,) if user_arg else ()", "SENTINEL|signals.Signals._call_callback|user_arg tested for truthiness"),
    Mut("weak-arg-callback-partial-holds-sender", "urwid/signals.py", "Signals.connect", "        user_args = self._prepare_user_args(weak_args, user_args, weakref_callback)", "        import functools\n\n        user_args = self._prepare_user_args(weak_args, user_args, functools.partial(self.disconnect_by_key, obj, name, key))", "CLOS|signals.Signals.connect|strong capture of obj"),
    Mut("meta-signals-extends-class-body-list", "urwid/signals.py", "MetaSignals.__init__", "signals = list(d.get(\"signals\", []))", "signals = d.get(\"signals\", [])", "FRESH|signals.MetaSignals.__init__"),
    Mut("disconnect-removes-every-match", "urwid/signals.py", "Signals.disconnect", "                return self.disconnect_by_key(obj, name, h[0])", "                self.disconnect_by_key(obj, name, h[0])", "PASS|signals.Signals.disconnect"),
    Mut("twin-disconnect-break-form", "urwid/signals.py", "Signals.disconnect", "                return self.disconnect_by_key(obj, name, h[0])", "                self.disconnect_by_key(obj, name, h[0])\n                break", twin=True),
    Mut("disconnect-iterates-live-list", "urwid/signals.py", "Signals.disconnect", "for h in list(handlers):", "for h in handlers:", "SNAP|signals.Signals.disconnect"),
    Mut("weakref-callback-truthiness", "urwid/signals.py", "Signals.connect", "            if o is not None:\n", "            if o:\n", "SNAP|signals.Signals.connect.<locals>.weakref_callback"),
    Mut("twin-disconnect-tuple-snapshot", "urwid/signals.py", "Signals.disconnect", "for h in list(handlers):", "for h in tuple(handlers):", twin=True),
    Mut("disconnect-prefilter-by-identity", "urwid/signals.py", "Signals.disconnect", "        handlers = signals[name]\n", "        handlers = signals[name]\n        if not any(h[1] is callback for h in handlers):\n            return None\n", "KIND|signals.Signals.disconnect"),
    Mut("meta-signals-extends-inherited-list", "urwid/signals.py", "MetaSignals.__init__", "signals = list(d.get(\"signals\", []))", "signals = getattr(cls, \"signals\", [])", "FRESH|signals.MetaSignals.__init__"),
    Mut("user-args-not-copied", "urwid/signals.py", "Signals._prepare_user_args", "args = tuple(user_args) or ()", "args = user_args or ()", "SNAP|signals.Signals._prepare_user_args"),
    Mut("twin-user-args-tuple-only", "urwid/signals.py", "Signals._prepare_user_args", "args = tuple(user_args) or ()", "args = tuple(user_args)", twin=True),
    Mut("emit-live-list", _F, "Signals.emit", "in list(handlers):", "in handlers:", "SNAP|signals.Signals.emit"),
    Mut("callback-captures-sender", _F, "Signals.connect", "o = obj_weak()", "o = obj", "CLOS|"),
    Mut("weak-args-stored-strongly", _F, "Signals._prepare_user_args", "tuple(weakref.ref(w_arg, callback) for w_arg in weak_args)", "tuple(weak_args)", "CLOS|"),
    Mut("liveness-by-truthiness", _F, "Signals._call_callback", "if real_arg is not None:", "if real_arg:", "PASS|"),
    Mut("emit-short-circuit", _F, "Signals.emit", "result |= self._call_callback(", "result = result or self._call_callback(", "ORDER|"),
    Mut("emit-early-return", _F, "Signals.emit", "result |= self._call_callback(callback, user_arg, weak_args, user_args, args)", "if self._call_callback(callback, user_arg, weak_args, user_args, args):\n                return True", "ORDER|"),
    Mut("disconnect-by-key-raises", _F, "Signals.disconnect_by_key", "        for h in list(handlers):\n            if h[0] is key:\n                with contextlib.suppress(ValueError):\n                    handlers.remove(h)\n", "        handlers.remove(next(h for h in handlers if h[0] is key))\n", "EXC|"),
    Mut("connect-append-before-check", _F, "Signals.connect", "raise NameError(f\"No such signal {name!r} for object {obj!r}\")", "pass", ("EXC|", "ORDER|")),
    Mut("handler-list-replaced", _F, "Signals.disconnect_by_key", "        for h in list(handlers):\n            if h[0] is key:\n                with contextlib.suppress(ValueError):\n                    handlers.remove(h)\n", "        signals = setdefaultattr(obj, self._signal_attr, {})\n        if name in signals:\n            signals[name] = [h for h in signals[name] if h[0] is not key]\n", "ALIAS|"),
    Mut("disconnect-ignores-user-arg", _F, "Signals.disconnect", "        for h in list(handlers):  # comparing may run foreign code (__eq__, weak reference callbacks)\n            if h[1:] == (callback, user_arg, user_args):\n                return self.disconnect_by_key(obj, name, h[0])", "        for key, h_callback, _h_user_arg, h_user_args in list(handlers):\n            if h_callback == callback and h_user_args == user_args:\n                return self.disconnect_by_key(obj, name, key)", "TAB|signals.Signals.disconnect"),
    Mut("twin-tuple-snapshot", _F, "Signals.emit", "in list(handlers):", "in tuple(handlers):", twin=True),
    Mut("twin-rename-accumulator", _F, "Signals.emit", "result = False", "result = False  # accumulator", twin=True),
    Mut("twin-slice-snapshot", _F, "Signals.emit", "in list(handlers):", "in handlers[:]:", twin=True),
]
