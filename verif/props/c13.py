"""C13 - every event loop honours the alarm / watch / idle / exception contract."""

from __future__ import annotations

import ast

from ..core import Ctx, RuleResult, finding, short, walk_no_nested
from ..model import AnalysisError, norm
from ..rules import sib, snap, wrap
from ..rules.defuse import DefUse
from ..rules.util import callee_name, calls_in, cfg_of, node_exprs, nodes_where
from ..tables import C13_SIB_EXCEPTIONS

EXPLANATION = (
    "Decided for the six loop classes that run here (glib_loop.py is analysed with the same rules but reported as informational): (1) WRAP: every callable handed to an "
    "exception-swallowing scheduling API (tornado add_timeout/call_later/add_handler, twisted callLater / reader descriptors, trio Instrument hooks) runs user code only inside the "
    "loop's capturing try; asyncio installs its exception handler before run_forever(); the stored exception is cleared before it is re-raised; ExitMainLoop is absorbed by run(); "
    "(2) SNAP: idle callbacks are iterated over a snapshot; (3) idle arming: every alarm/watch registration goes through the idle-arming wrapper, or every callback invocation in the "
    "select/zmq _loop is followed by _did_something = True; a cancelled idle/timeout handle is forgotten (reset to None) on every path; (4) RET: remove_alarm / remove_watch_file / "
    "remove_enter_idle return a bool on every path, with both outcomes present; (5) SIB: the select and zmq loops (same state machine) agree on guards, helpers and results."
    ' Added after seed round 3: (7) a registry whose stored values are int parameters (file descriptors) is queried with `in` / `is not None`, never by the truthiness of the stored value.'
    " Round 4: the Twisted wrapper catches BaseException (the reactor swallows everything else); (8) self-made registry handles come from a counter, never from the registry's size; (9) the Twisted idle timer callback lowers its flag on every normal path."
    " Round-4 triage: (10) an idle pass calls a callback only while it is still registered; (11) a dispatch batch (select, zmq) calls a watch only while it is still the registered one; (12) twisted's doRead returns nothing; (13) the zmq poll time-out is rounded up and an empty poller sleeps; (5, restated) select / zmq dispatch an alarm after a time-out or under an explicit due test, and do not require `not ready` (no starvation); (14) fdopen()/open() of a descriptor parameter passes closefd=False (the descriptor stays its caller's); (1, extended) the tornado wrapper catches BaseException like the twisted one (asyncio re-raises only SystemExit / KeyboardInterrupt itself); (15) every loop forgets an alarm - in the terms its remove_alarm() consults - before the callback runs; (16) a loop with a watch table plus per-watch objects registered with its host unregisters the old object when a descriptor is watched again. Round-5 triage: (1, sharpened) a handler in run() of select / zmq swallows unless its body ends in an unconditional raise (zmq's `if errno != EINTR: raise` around the whole iteration is reported); (3, extended) run() of select / zmq raises _did_something before the first iteration; (17) TrioEventLoop._cancel_scope forgets a never-started task before it touches the trio scope; (18) the trio watch task re-checks its scope between the await and the callback, and a group consisting of ExitMainLoop only ends run() normally."
    ' (19) GUARD: the loops that park a callback exception for run() to re-raise (asyncio, tornado, twisted, glib) store it only under `self._exc is None` - the first exception wins (fixes da31b14, c29ea35: a second callback raising in the same iteration replaced the first exception).'
)
NOT_DECIDED = "Exactly-once, not-before-due and due-order of alarms, watch repetition, idle-before-quiescence under all interleavings - scheduler semantics under time."
ASSUMPTIONS = ["The behaviour of the foreign scheduling APIs on a raising callable (log and continue) is taken from their documentation and recorded in the per-class table."]

EL = "urwid.event_loop."
LOOPS = {
    "select": EL + "select_loop.SelectEventLoop",
    "asyncio": EL + "asyncio_loop.AsyncioEventLoop",
    "tornado": EL + "tornado_loop.TornadoEventLoop",
    "twisted": EL + "twisted_loop.TwistedEventLoop",
    "trio": EL + "trio_loop.TrioEventLoop",
    "zmq": EL + "zmq_loop.ZMQEventLoop",
}
GLIB = EL + "glib_loop.GLibEventLoop"

WRAP_TABLE = {
    LOOPS["tornado"]: {"apis": {("self._loop", "add_timeout"): 1, ("self._loop", "call_later"): 1, ("self._loop", "add_handler"): 1, ("self._loop", "add_callback"): 0, ("self._loop", "call_at"): 1}},
    LOOPS["twisted"]: {"apis": {("self.reactor", "callLater"): 1, ("self.reactor", "callFromThread"): 0, ("self.reactor", "callWhenRunning"): 0}, "ctors": {"_TwistedInputDescriptor": 2}},
    LOOPS["trio"]: {"hook_bases": ["Instrument"]},
    GLIB: {"apis": {("GLib", "idle_add"): 0, ("GLib", "timeout_add"): 1, ("GLib", "io_add_watch"): 2}},
}


def rule_wrap(ctx: Ctx, clause="C13.1") -> RuleResult:
    p = ctx.p
    rr = wrap.run_wrap(
        p, clause, WRAP_TABLE, floor=7,
        description="callables handed to exception-swallowing scheduling APIs run user code only inside the loop's capturing try",
        informational=(GLIB,),
    )
    # asyncio: handler installed before run_forever
    a = p.func(LOOPS["asyncio"] + ".run")
    cfg = cfg_of(a)
    seth = nodes_where(cfg, lambda s: isinstance(s, ast.Call) and callee_name(s) == "set_exception_handler" and s.args and ast.unparse(s.args[0]) == "self._exception_handler")
    runf = nodes_where(cfg, lambda s: isinstance(s, ast.Call) and callee_name(s) in ("run_forever", "run_until_complete"))
    rr.inst("asyncio: exception handler installed before the loop runs", True)
    if not runf:
        raise AnalysisError("AsyncioEventLoop.run no longer calls run_forever()")
    if not seth or not all(cfg.dominated(r, seth) for r in runf):
        rr.add(finding("WRAP", a, a.node, "run_forever() can start without self._exception_handler installed: an exception raised by a callback would only be logged by asyncio", construct="exception handler not installed before run_forever"))
    eh = p.func(LOOPS["asyncio"] + "._exception_handler")
    stores = [n for n in eh.own_nodes() if isinstance(n, ast.Assign) and any(isinstance(t, ast.Attribute) and t.attr == "_exc" for t in n.targets)]
    stops = list(calls_in(eh, "stop"))
    rr.inst("asyncio: handler stores the exception and stops the loop", True)
    if not stores or not stops:
        rr.add(finding("WRAP", eh, eh.node, "_exception_handler no longer stores the exception in self._exc and stops the loop", construct="handler does not capture"))
    # stored exception cleared before re-raise, for every loop that stores one
    for key in ("asyncio", "tornado", "twisted"):
        r = p.func(LOOPS[key] + ".run")
        cfg = cfg_of(r)
        raises = [n for n in cfg.nodes if n.kind == "raisestmt"]
        clears = nodes_where(
            cfg,
            lambda s: isinstance(s, ast.Assign)
            and any(isinstance(t, ast.Attribute) and t.attr == "_exc" or (isinstance(t, ast.Tuple) and any(isinstance(x, ast.Attribute) and x.attr == "_exc" for x in t.elts)) for t in s.targets)
            and (isinstance(s.value, ast.Constant) and s.value.value is None or (isinstance(s.value, ast.Tuple) and any(isinstance(x, ast.Constant) and x.value is None for x in s.value.elts))),
        )
        rr.inst(f"{key}: stored exception cleared before re-raise", True, {"loop": key, "raise_sites": len(raises)})
        if not raises:
            rr.add(finding("WRAP", r, r.node, f"{r.cls.name}.run() never re-raises the exception captured in self._exc", construct="captured exception not re-raised"))
        for x in raises:
            if not clears or not cfg.dominated(x, clears):
                rr.add(finding("WRAP", r, x.stmt, "the captured exception is re-raised without self._exc being cleared first: the next run() would raise it again", construct="re-raise before clearing _exc"))
    # twisted: the reactor catches and logs *everything* a callback raises (SystemExit and KeyboardInterrupt included),
    # so the capturing wrapper has to catch BaseException; a narrower handler lets those end up in the reactor's log
    # while run() goes on.  (tornado sits on asyncio, which re-raises SystemExit / KeyboardInterrupt by itself.)
    # The same holds for tornado: the asyncio handle under it re-raises SystemExit / KeyboardInterrupt only and hands
    # every other BaseException to the loop's exception handler, i.e. logs and drops it.
    for key, host in (("twisted", "the Twisted reactor logs and swallows whatever else a callback raises (SystemExit from sys.exit(), KeyboardInterrupt)"), ("tornado", "the asyncio handle under tornado logs and drops every BaseException it does not re-raise itself (anything but SystemExit / KeyboardInterrupt)")):
        he = p.func(LOOPS[key] + ".handle_exit")
        wrappers = [f for f in p.functions.values() if f.parent is he]
        caught = set()
        for w_ in wrappers:
            for n in w_.own_nodes():
                if isinstance(n, ast.Try) and any(isinstance(x, ast.Call) and isinstance(x.func, ast.Name) and x.func.id == he.params[1] for b in n.body for x in ast.walk(b)):
                    for h in n.handlers:
                        caught |= {"<bare>"} if h.type is None else {ast.unparse(x).split(".")[-1] for x in (h.type.elts if isinstance(h.type, ast.Tuple) else [h.type])}
        rr.inst(f"{key}: wrapper catches BaseException", True, {"loop": key, "caught": sorted(caught)})
        if not caught:
            raise AnalysisError(f"{key} handle_exit: the try around the wrapped callback was not found")
        if not (caught & {"BaseException", "<bare>"}):
            rr.add(finding("WRAP", he, he.node, f"the capturing wrapper of {he.cls.name}.handle_exit catches only {sorted(caught)}: {host}, so run() carries on instead of ending with that exception", construct=f"{key} wrapper narrower than BaseException"))
    # ExitMainLoop absorbed by run() of select/zmq (direct callbacks)
    for key in ("select", "zmq"):
        r = p.func(LOOPS[key] + ".run")
        sup = set()
        for n in r.own_nodes():
            if isinstance(n, ast.With):
                for it in n.items:
                    c = it.context_expr
                    if isinstance(c, ast.Call) and callee_name(c) == "suppress":
                        sup |= {ast.unparse(a).split(".")[-1] for a in c.args}
            if isinstance(n, ast.Try):
                for h in n.handlers:
                    # a handler swallows unless its body *ends* in an unconditional raise (`if errno != EINTR: raise`
                    # still swallows the other case)
                    if h.type is not None and not (h.body and isinstance(h.body[-1], ast.Raise)):
                        sup |= {ast.unparse(x).split(".")[-1] for x in (h.type.elts if isinstance(h.type, ast.Tuple) else [h.type])}
        rr.inst(f"{key}: run() absorbs ExitMainLoop and nothing broader", True, {"absorbed": sorted(sup)})
        if "ExitMainLoop" not in sup:
            rr.add(finding("WRAP", r, r.node, "run() does not absorb ExitMainLoop", construct="ExitMainLoop not absorbed"))
        broad = sup - {"ExitMainLoop"}
        if broad:
            rr.add(finding("WRAP", r, r.node, f"run() swallows {sorted(broad)} around the whole iteration - the callbacks included: a callback raising it does not stop the loop and the exception is never re-raised from run()", construct="run() swallows more than ExitMainLoop"))
    # trio: run() routes everything through _handle_main_loop_exception, which returns only for ExitMainLoop
    t = p.func(LOOPS["trio"] + "._handle_main_loop_exception")
    rr.inst("trio: only ExitMainLoop is absorbed", True)
    cfg = cfg_of(t)
    rets = [n for n in cfg.nodes if n.kind == "return"]
    tests = [n for n in cfg.nodes if n.kind == "test" and "ExitMainLoop" in ast.unparse(n.ast) and "isinstance" in ast.unparse(n.ast)]
    ok = bool(tests) and all(any((r_, "T") in [(x, l) for x, l in tt.succ] for tt in tests) for r_ in rets) and cfg.exit not in cfg.reachable([cfg.entry], avoid=rets + [n for n in cfg.nodes if n.kind == "raisestmt"], include_start=True)
    if not ok:
        rr.add(finding("WRAP", t, t.node, "_handle_main_loop_exception can return normally for an exception other than ExitMainLoop", construct="trio swallows exceptions"))
    return rr


def rule_snap(ctx: Ctx) -> RuleResult:
    p = ctx.p
    classes = list(LOOPS.values()) + [EL + "trio_loop._TrioIdleCallbackInstrument", GLIB]
    return snap.run_snap(p, "C13.2", classes, floor=6, description="idle callbacks are iterated over a snapshot (they may call enter_idle/remove_enter_idle)", informational_classes=(GLIB,))


def _is_arming(p, cls, e, fi) -> bool:
    """e is self._also_call_idle(...) / self.handle_exit(...) without enable_idle=False, or a nested def decorated with it"""
    if isinstance(e, ast.Call) and isinstance(e.func, ast.Attribute) and e.func.attr in ("_also_call_idle", "handle_exit"):
        if any(k.arg == "enable_idle" and isinstance(k.value, ast.Constant) and k.value.value is False for k in e.keywords):
            return False
        return True
    if isinstance(e, ast.Name):
        loc = p.local_def(fi, e.id)
        if loc is not None:
            return any(isinstance(d, ast.Attribute) and d.attr in ("_also_call_idle", "handle_exit") for d in loc.decorators)
    return False


def rule_idle_arming(ctx: Ctx) -> RuleResult:
    p = ctx.p
    rr = RuleResult("PASS", "C13.3", "alarm/watch callbacks arm the idle run; a cancelled idle/timeout handle is forgotten on every path", floor=10)
    regs = {
        "asyncio": {"alarm": ("call_later", 1), "watch_file": ("add_reader", 1)},
        "tornado": {"alarm": ("add_timeout", 1), "watch_file": ("add_handler", 1)},
        "twisted": {"alarm": ("callLater", 1), "watch_file": ("_TwistedInputDescriptor", 2)},
    }
    for key, spec in regs.items():
        cls = p.cls(LOOPS[key])
        for meth, (api, idx) in spec.items():
            fi = p.func(f"{LOOPS[key]}.{meth}")
            calls = [c for c in calls_in(fi, api)]
            ident = f"{key}.{meth}"
            rr.inst(ident, True, {"loop": key, "method": meth, "registration": [norm(c, 70) for c in calls]})
            if not calls:
                rr.add(finding("PASS", fi, fi.node, f"{meth}() no longer registers its callback through {api}()", construct=f"{api} registration missing"))
                continue
            for c in calls:
                if idx >= len(c.args) or not _is_arming(p, cls, c.args[idx], fi):
                    rr.add(finding("PASS", fi, c, f"the callable registered by {meth}() does not go through the idle-arming wrapper: after this callback runs the idle callbacks (screen redraw) are not scheduled", construct=f"{api}(...) without idle arming"))
    # wrappers really arm
    for key in ("asyncio", "tornado"):
        w = p.func(f"{LOOPS[key]}._also_call_idle.<locals>.wrapper")
        cfg = cfg_of(w)
        arm = nodes_where(cfg, lambda s: isinstance(s, ast.Assign) and any(isinstance(t, ast.Attribute) and t.attr == "_idle_asyncio_handle" for t in s.targets) and isinstance(s.value, ast.Call) and callee_name(s.value) == "call_later")
        tests = [n for n in cfg.nodes if n.kind == "test" and "_idle_asyncio_handle" in ast.unparse(n.ast)]
        cb = nodes_where(cfg, lambda s: isinstance(s, ast.Call) and isinstance(s.func, ast.Name) and s.func.id == "callback")
        rr.inst(f"{key}: wrapper arms idle unless already armed", True)
        ok = bool(arm) and bool(tests) and all(cfg.dominated(c, tests) for c in cb)
        if ok:
            # the only way to skip arming is the test's "already armed" edge
            r = cfg.reachable([cfg.entry], avoid=arm + tests, include_start=True)
            ok = not any(c in r for c in cb)
        if not ok:
            rr.add(finding("PASS", w, w.node, "the idle-arming wrapper can run the callback without having scheduled _entering_idle (other than when it is already scheduled)", construct="wrapper does not arm idle"))
        # the decision is taken *before* the user callback runs: it may depend on "already armed" only.  A test that
        # also looks at the idle callbacks registered so far misses a callback that registers one (enter_idle() from
        # inside an alarm / watch callback): the loop then goes quiescent without the idle pass
        for t in tests:
            other = sorted({x.attr for x in ast.walk(t.ast) if isinstance(x, ast.Attribute) and isinstance(x.value, ast.Name) and x.value.id == "self" and x.attr != "_idle_asyncio_handle"})
            rr.inst(f"{key}: arming decided by the handle alone", True, {"test": norm(t.ast, 70), "other_state_read": other})
            if other:
                rr.add(finding("PASS", w, t.stmt, f"the idle pass is armed under `{norm(t.ast, 70)}`, which also reads self.{'/'.join(other)} before the callback has run: an idle callback registered by that very callback gets no idle pass before the loop goes quiescent", construct=f"idle arming depends on {'/'.join(other)}"))
    tw = p.func(f"{LOOPS['twisted']}.handle_exit.<locals>.wrapper")
    rr.inst("twisted: wrapper re-enables idle", True)
    if not list(calls_in(tw, "_enable_twisted_idle")):
        rr.add(finding("PASS", tw, tw.node, "handle_exit's wrapper no longer calls _enable_twisted_idle()", construct="twisted idle not re-enabled"))
    # select / zmq: run() itself starts with the flag raised - a callback that ended the previous run by raising never
    # got to raise it, and the idle callbacks have to run after that callback before the loop first waits
    for key in ("select", "zmq"):
        r = p.func(f"{LOOPS[key]}.run")
        rcfg = cfg_of(r)
        arm = nodes_where(rcfg, lambda s: isinstance(s, ast.Assign) and any(isinstance(t, ast.Attribute) and t.attr == "_did_something" for t in s.targets) and isinstance(s.value, ast.Constant) and s.value.value is True)
        loops_ = nodes_where(rcfg, lambda s: isinstance(s, ast.Call) and isinstance(s.func, ast.Attribute) and s.func.attr == "_loop")
        ok = bool(arm) and bool(loops_) and all(rcfg.dominated(l_, arm) for l_ in loops_)
        rr.inst(f"{key}: run() starts with an idle pass armed", True, {"loop": key, "armed_before_first_iteration": ok})
        if not ok:
            rr.add(finding("PASS", r, r.node, f"{r.cls.name}.run() does not raise _did_something before its first iteration: after a run that a callback ended by raising, the next run() goes straight into waiting without the idle callbacks (the screen redraw) having run after that callback", construct=f"{key}: run() does not arm the idle pass"))
    # select / zmq: every callback invocation in _loop is followed by _did_something = True
    for key in ("select", "zmq"):
        lp = p.func(f"{LOOPS[key]}._loop")
        cfg = cfg_of(lp)
        sets = nodes_where(cfg, lambda s: isinstance(s, ast.Assign) and any(isinstance(t, ast.Attribute) and t.attr == "_did_something" for t in s.targets) and isinstance(s.value, ast.Constant) and s.value.value is True)
        inv = []
        for n in cfg.nodes:
            if n.kind != "stmt" or not isinstance(n.ast, ast.Expr) or not isinstance(n.ast.value, ast.Call):
                continue
            f = n.ast.value.func
            txt = ast.unparse(f)
            if txt.startswith(("self.logger", "selector.", "self._entering_idle")):
                continue
            if isinstance(f, ast.Name) or isinstance(f, ast.Subscript) or (isinstance(f, ast.Attribute) and f.attr == "data"):
                inv.append(n)
        heads = [n for n in cfg.nodes if n.kind == "for"]
        for n in inv:
            rr.inst(f"{key}._loop: {norm(n.stmt, 40)} sets _did_something", True, {"loop": key, "invocation": norm(n.stmt, 50)})
            r = cfg.reachable([n], avoid=sets, labels=("n", "T", "F"))
            if cfg.exit in r or any(h in r for h in heads):
                rr.add(finding("PASS", lp, n.stmt, f"after `{norm(n.stmt, 40)}` the loop can go on without `self._did_something = True`: the idle callbacks would not run before the loop blocks again", construct=f"{norm(n.stmt, 40)} not followed by _did_something = True"))
        if len(inv) < 2:
            raise AnalysisError(f"{key}._loop: expected at least two callback invocation sites, found {len(inv)}")
        # idle resets the flag
        idle = nodes_where(cfg, lambda s: isinstance(s, ast.Call) and callee_name(s) == "_entering_idle")
        clr = nodes_where(cfg, lambda s: isinstance(s, ast.Assign) and any(isinstance(t, ast.Attribute) and t.attr == "_did_something" for t in s.targets) and isinstance(s.value, ast.Constant) and s.value.value is False)
        rr.inst(f"{key}._loop: idle run clears _did_something", True)
        if not idle or not clr or not all(cfg.must_pass(i, clr, ends=[cfg.exit], labels=("n", "T", "F")) for i in idle):
            rr.add(finding("PASS", lp, lp.node, "_entering_idle() is not followed by `self._did_something = False`: the loop would spin calling idle callbacks", construct="_did_something not cleared after idle"))
    # cancelled handle is forgotten
    for q, attr in (
        (LOOPS["asyncio"] + "._exception_handler", "_idle_asyncio_handle"),
        (LOOPS["tornado"] + ".handle_exit.<locals>.wrapper", "_idle_asyncio_handle"),
        (LOOPS["asyncio"] + "._entering_idle", "_idle_asyncio_handle"),
        (LOOPS["tornado"] + "._entering_idle", "_idle_asyncio_handle"),
    ):
        fi = p.func(q)
        cfg = cfg_of(fi)
        resets = nodes_where(cfg, lambda s: isinstance(s, ast.Assign) and any(isinstance(t, ast.Attribute) and t.attr == attr for t in s.targets) and isinstance(s.value, ast.Constant) and s.value.value is None)
        cancels = nodes_where(cfg, lambda s: isinstance(s, ast.Call) and ((callee_name(s) == "cancel" and attr in ast.unparse(s.func)) or (callee_name(s) in ("remove_timeout", "remove_alarm") and s.args and attr in ast.unparse(s.args[0]))))
        rr.inst(f"{short(fi)}: {attr} reset", True, {"function": short(fi), "cancel_sites": len(cancels), "reset_sites": len(resets)})
        if fi.name == "_entering_idle":
            # the handle that triggered this run must be forgotten on every path, including exceptional ones
            if not resets or not cfg.must_pass(cfg.entry, resets, ends=[cfg.exit, cfg.raise_exit]):
                rr.add(finding("PASS", fi, fi.node, f"_entering_idle() can finish (normally or by an exception from an idle callback) without resetting self.{attr}: idle would never be scheduled again", construct=f"{attr} not reset after idle run"))
            continue
        if not cancels:
            rr.add(finding("PASS", fi, fi.node, f"the pending idle handle self.{attr} is no longer cancelled when the loop is stopped by an exception", construct=f"{attr} not cancelled"))
        for c in cancels:
            if not resets or not cfg.must_pass(c, resets, ends=[cfg.exit], labels=("n", "T", "F")):
                rr.add(finding("PASS", fi, c.stmt, f"self.{attr} is cancelled but not reset to None on every path: the arming test `if not self.{attr}` stays false and idle callbacks never run again after a restart", construct=f"{attr} cancelled but not forgotten"))
    return rr


def rule_remove_returns(ctx: Ctx) -> RuleResult:
    p = ctx.p
    rr = RuleResult("RET", "C13.4", "remove_alarm / remove_watch_file / remove_enter_idle return a bool on every path and have both outcomes", floor=18)
    BOOLISH = (ast.Compare, ast.BoolOp)
    for key, cq in LOOPS.items():
        for meth in ("remove_alarm", "remove_watch_file", "remove_enter_idle"):
            fi = p.func(f"{cq}.{meth}")
            cfg = cfg_of(fi)
            rets = [n for n in fi.own_nodes() if isinstance(n, ast.Return)]
            ident = f"{key}.{meth}"
            kinds = set()
            bad = None
            for r in rets:
                v = r.value
                if isinstance(v, ast.Constant) and isinstance(v.value, bool):
                    kinds.add(v.value)
                elif isinstance(v, BOOLISH) or (isinstance(v, ast.UnaryOp) and isinstance(v.op, ast.Not)):
                    kinds |= {True, False}
                elif isinstance(v, ast.Name):
                    # a local computed from a boolean expression
                    defs = [n.value for n in fi.own_nodes() if isinstance(n, ast.Assign) and any(isinstance(t, ast.Name) and t.id == v.id for t in n.targets)]
                    if defs and all(isinstance(d, BOOLISH) or (isinstance(d, ast.UnaryOp) and isinstance(d.op, ast.Not)) for d in defs):
                        kinds |= {True, False}
                    else:
                        bad = r
                elif isinstance(v, ast.Call) and callee_name(v) in ("remove_reader", "_cancel_scope"):
                    kinds |= {True, False}  # delegated to a bool-returning API / helper checked on its own
                else:
                    bad = r
            fall = cfg.exit in cfg.reachable([cfg.entry], avoid=[n for n in cfg.nodes if n.kind in ("return", "raisestmt")], include_start=True, labels=("n", "T", "F"))
            rr.inst(ident, True, {"method": ident, "returns": [norm(r, 40) for r in rets]} if len(rr.samples) < 4 else None)
            if bad is not None:
                rr.add(finding("RET", fi, bad, f"{meth}() returns `{norm(bad.value, 40) if bad.value is not None else 'None'}`, which is not a boolean expression", construct=f"non-bool return {norm(bad, 50)}"))
            if fall:
                rr.add(finding("RET", fi, fi.node, f"{meth}() can fall off the end (returns None) instead of reporting success/failure", construct="implicit None return"))
            if kinds != {True, False} and bad is None:
                rr.add(finding("RET", fi, fi.node, f"{meth}() can only ever report {sorted(kinds)}: removing something that does not exist and removing something that exists are indistinguishable", construct="only one outcome"))
    t = p.func(LOOPS["trio"] + "._cancel_scope")
    rr.inst("trio._cancel_scope", True)
    rets = [n for n in t.own_nodes() if isinstance(n, ast.Return)]
    # a name (the liveness read before cancelling) or a boolean constant (pending task forgotten / run is over)
    if not rets or not all(isinstance(r.value, ast.Name) or (isinstance(r.value, ast.Constant) and isinstance(r.value.value, bool)) for r in rets) or not any(isinstance(r.value, ast.Name) for r in rets):
        rr.add(finding("RET", t, t.node, "_cancel_scope no longer returns whether the scope was still live", construct="_cancel_scope return"))
    return rr


def rule_select_zmq(ctx: Ctx) -> RuleResult:
    p = ctx.p
    rr = RuleResult("SIB", "C13.5", "SelectEventLoop and ZMQEventLoop (same state machine) agree on guards, helpers and results", floor=8)
    rename = [(r"_alarm_break", "_tie_break"), (r"alarm_callback", "callback")]
    for meth in ("alarm", "remove_alarm", "enter_idle", "remove_enter_idle"):
        sib.compare_twins(rr, p.func(f"{LOOPS['select']}.{meth}"), p.func(f"{LOOPS['zmq']}.{meth}"), rename, C13_SIB_EXCEPTIONS)
    # _loop: the alarm is popped only on the empty-ready path, idle only when _did_something
    for key in ("select", "zmq"):
        lp = p.func(f"{LOOPS[key]}._loop")
        pops = None
        du = DefUse(lp)
        cfg = du.cfg
        pops = nodes_where(cfg, lambda s: isinstance(s, ast.Call) and ast.unparse(s.func) == "heapq.heappop")
        idle = nodes_where(cfg, lambda s: isinstance(s, ast.Call) and callee_name(s) == "_entering_idle")
        # the ready set by role: the local whose definition calls the selector's select() / the poller's poll()
        ready = {nm for nm, ds in du.defs.items() for _dn, v, _how in ds if isinstance(v, ast.AST) and any(isinstance(x, ast.Call) and isinstance(x.func, ast.Attribute) and x.func.attr.lstrip("_") in ("select", "poll") for x in ast.walk(v))}
        empties = [n for n in cfg.nodes if n.kind == "test" and isinstance(n.ast, ast.UnaryOp) and isinstance(n.ast.op, ast.Not) and isinstance(n.ast.operand, ast.Name) and n.ast.operand.id in ready]
        rr.inst(f"{key}._loop: alarm/idle only when nothing is ready", True, {"loop": key, "pop_sites": len(pops), "idle_sites": len(idle)})
        if not pops or not idle or not empties:
            raise AnalysisError(f"{key}._loop: heappop / _entering_idle / `if not ready` not found")
        from ..rules.exc import ExcEngine

        def is_empty_test(e):
            return isinstance(e, ast.UnaryOp) and isinstance(e.op, ast.Not) and isinstance(e.operand, ast.Name) and e.operand.id in ready

        def is_due_test(e):
            """time.time() >= <alarm time>  /  <alarm time> <= time.time()"""
            if not (isinstance(e, ast.Compare) and len(e.ops) == 1):
                return False
            l, r, op = e.left, e.comparators[0], e.ops[0]
            now_l, now_r = ast.unparse(l) == "time.time()", ast.unparse(r) == "time.time()"
            return (now_l and isinstance(op, (ast.GtE, ast.Gt))) or (now_r and isinstance(op, (ast.LtE, ast.Lt)))

        def requires(e, pred):
            if pred(e):
                return True
            return isinstance(e, ast.BoolOp) and isinstance(e.op, ast.And) and any(requires(v, pred) for v in e.values)

        def timed_out_or_due(e):
            return is_empty_test(e) or (isinstance(e, ast.BoolOp) and isinstance(e.op, ast.Or) and all(is_empty_test(v) or is_due_test(v) for v in e.values))

        tests = [n for n in cfg.nodes if n.kind == "test"]
        # idle: only when nothing is ready (the loop is about to go quiescent)
        for x in idle:
            if not any(requires(t.ast, is_empty_test) and x not in ExcEngine._reach_without_edge(cfg, t, "T") for t in tests):
                rr.add(finding("SIB", lp, x.stmt, f"`{norm(x.stmt, 50)}` can run although input is ready: the idle callbacks would run while the loop is not about to go quiescent", construct=f"{norm(x.stmt, 50)} outside `if not ready`"))
        # alarm: select()/poll() returning early with input proves nothing about the clock - the alarm is dispatched
        # either after a time-out (nothing ready) or under an explicit due test
        for x in pops:
            if not any(requires(t.ast, timed_out_or_due) and x not in ExcEngine._reach_without_edge(cfg, t, "T") for t in tests):
                rr.add(finding("SIB", lp, x.stmt, f"`{norm(x.stmt, 50)}` can run although input is ready and nothing has compared the clock with the alarm's due time: the wait was cut short by the input, so the alarm fires before it is due", construct=f"{norm(x.stmt, 50)} neither under `not ready` nor under a due test"))
        # ... and a due alarm must not wait for the input to dry up: the dispatch is reachable with input ready
        for x in pops:
            starving = [t for t in tests if requires(t.ast, is_empty_test) and x not in ExcEngine._reach_without_edge(cfg, t, "T")]
            rr.inst(f"{key}._loop: a due alarm is dispatched while input keeps arriving", True, {"loop": key, "dispatch_requires_no_input": bool(starving)})
            if starving:
                rr.add(finding("SIB", lp, x.stmt, f"`{norm(x.stmt, 50)}` runs only when no descriptor is ready (`{norm(starving[0].ast, 40)}`): a descriptor that stays readable (a pipe that is written faster than it is read) starves every alarm - its callback never runs", construct=f"alarm dispatch requires `not ready`"))
    return rr


def rule_trio_checkpoint(ctx: Ctx) -> RuleResult:
    """A Trio alarm is removed by cancelling its scope; cancellation is only delivered at a checkpoint.  The
    callback must therefore be preceded, inside `with scope:`, by an unconditional await."""
    from ..rules.util import cfg_of, nodes_where

    p = ctx.p
    rr = RuleResult("PASS", "C13.6", "TrioEventLoop._alarm_task reaches the callback only through an unconditional checkpoint (await) inside the cancel scope", floor=1)
    fi = p.func("urwid.event_loop.trio_loop.TrioEventLoop._alarm_task")
    cfg = cfg_of(fi)
    cb = fi.params[-1]
    calls = nodes_where(cfg, lambda x: isinstance(x, ast.Call) and isinstance(x.func, ast.Name) and x.func.id == cb)
    awaits = nodes_where(cfg, lambda x: isinstance(x, ast.Await))
    withs = [n for n in cfg.nodes if n.kind == "with" and "scope" in ast.unparse(n.ast.items[0].context_expr)]
    if not calls or not withs:
        raise AnalysisError("TrioEventLoop._alarm_task: callback call / `with scope:` not found")
    inside = [a for a in awaits if a in cfg.reachable(withs)]
    for c in calls:
        rr.inst(f"callback call {norm(c.stmt, 30)}", True, {"awaits_in_scope": len(inside)})
        if not inside or not cfg.dominated(c, inside):
            rr.add(finding("PASS", fi, c.stmt, f"`{norm(c.stmt, 30)}` can run inside the cancel scope without passing a checkpoint (`await`): an alarm removed before the task's first step is not cancelled and its callback still runs", construct="alarm callback without a dominating checkpoint"))
    return rr


def rule_presence(ctx: Ctx) -> RuleResult:
    """remove_alarm / remove_watch_file / remove_enter_idle answer 'did it exist'.  Where the registry of an event
    loop stores plain integers (file descriptors, counters - 0 is a valid one: stdin) the lookup result must be
    tested with `in` / `is not None`, not by truthiness: `if fd := handles.pop(h, None):` forgets fd 0."""
    p = ctx.p
    rr = RuleResult("TRUTHY", "C13.7", "a registry entry that can be the integer 0 (a file descriptor, a counter) is detected by `in` / `is not None`, never by truthiness", floor=3)
    for key, cq in LOOPS.items():
        C = p.cls(cq)
        # registries whose stored values are integers: self.D[k] = <parameter annotated int> or an int counter
        int_regs = {}
        for fi in C.methods.values():
            ann = {a.arg: ast.unparse(a.annotation) for a in fi.node.args.args if a.annotation is not None}
            for n in fi.own_nodes():
                if isinstance(n, ast.Assign) and len(n.targets) == 1 and isinstance(n.targets[0], ast.Subscript) and isinstance(n.targets[0].value, ast.Attribute) and isinstance(n.targets[0].value.value, ast.Name) and n.targets[0].value.value.id == fi.self_name:
                    reg = n.targets[0].value.attr
                    v = n.value
                    if isinstance(v, ast.Name) and ann.get(v.id) == "int":
                        int_regs[reg] = f"{fi.name}() stores its int parameter `{v.id}`"
        for m in ("remove_alarm", "remove_watch_file", "remove_enter_idle"):
            fi = C.methods.get(m)
            if fi is None:
                continue
            du = DefUse(fi)

            def lookup_reg(e):
                if isinstance(e, ast.NamedExpr):
                    return lookup_reg(e.value)
                if isinstance(e, ast.Call) and isinstance(e.func, ast.Attribute) and e.func.attr in ("pop", "get") and isinstance(e.func.value, ast.Attribute) and isinstance(e.func.value.value, ast.Name) and e.func.value.value.id == fi.self_name:
                    return e.func.value.attr
                return None

            def bool_operands(t):
                if isinstance(t, ast.BoolOp):
                    for v in t.values:
                        yield from bool_operands(v)
                elif isinstance(t, ast.UnaryOp) and isinstance(t.op, ast.Not):
                    yield from bool_operands(t.operand)
                else:
                    yield t

            for node in du.cfg.nodes:
                if node.kind != "test":
                    continue
                for o in bool_operands(node.ast):
                    regs = set()
                    r = lookup_reg(o)
                    if r:
                        regs.add(r)
                    elif isinstance(o, ast.Name):
                        for v, how, dn in du.reaching(o.id, node):
                            r = lookup_reg(v) if isinstance(v, ast.AST) else None
                            if r:
                                regs.add(r)
                    for r in regs:
                        rr.inst(f"{short(fi)}:{norm(node.ast, 40)}", True, {"loop": key, "method": m, "test": norm(node.ast, 60), "registry": r, "stores_int": r in int_regs})
                        if r in int_regs:
                            rr.add(finding("TRUTHY", fi, node.stmt, f"`{norm(node.ast, 60)}` decides whether the entry existed by the truthiness of the value stored in self.{r}, but {int_regs[r]}: 0 (standard input) is a valid descriptor, it is taken for 'not registered', {m}() returns False and the reader stays installed", construct=f"truthiness of an int registry entry: {norm(node.ast, 60)}"))
            # `(x := reg.pop(k, None)) is not None` and `k in reg` are the accepted forms: count them as instances
            for node in du.cfg.nodes:
                if node.kind == "test" and any(isinstance(c, ast.Compare) and isinstance(c.ops[0], (ast.IsNot, ast.Is, ast.In, ast.NotIn)) for c in ast.walk(node.ast)):
                    rr.inst(f"{short(fi)}:{norm(node.ast, 40)}", True)
    return rr


def rule_handle_unique(ctx: Ctx) -> RuleResult:
    """Handles returned by alarm() / watch_file() / enter_idle() name one registration for as long as the loop lives.
    Where a loop keeps its registrations in a dict keyed by a handle it makes up itself and entries can be removed
    again, the handle must come from a counter that only grows - a value derived from the current size of the dict
    (`len(self._reg) + 1`) is handed out twice once an older entry was removed, and removing one registration then
    removes another."""
    p = ctx.p
    rr = RuleResult("TAB", "C13.8", "self-made registry handles come from a counter, never from the registry's current size", floor=3)
    for key, cq in LOOPS.items():
        C = p.cls(cq)
        for fi in C.methods.values():
            du = DefUse(fi)
            for node in du.cfg.nodes:
                a = node.ast
                if not (isinstance(a, ast.Assign) and len(a.targets) == 1 and isinstance(a.targets[0], ast.Subscript) and isinstance(a.targets[0].value, ast.Attribute) and isinstance(a.targets[0].value.value, ast.Name) and a.targets[0].value.value.id == fi.self_name):
                    continue
                reg = a.targets[0].value.attr
                k = a.targets[0].slice
                if not isinstance(k, ast.Name) or k.id in fi.params:
                    continue  # keyed by something the caller supplied (fd, scope)
                txt = du.text(k, node)
                rr.inst(f"{short(fi)}:{reg}", True, {"loop": key, "registry": reg, "handle_is": txt[:60]})
                if f"len(self.{reg})" in txt or f"len({fi.self_name}.{reg})" in txt:
                    rr.add(finding("TAB", fi, a, f"the handle stored in self.{reg} is `{txt[:60]}`, derived from the registry's current size: after an older registration was removed the next one gets a handle that is still in use, and removing either of them hits the other", construct=f"handle of {reg} derived from len({reg})"))
    return rr


def rule_twisted_idle_flag(ctx: Ctx) -> RuleResult:
    """TwistedEventLoop emulates idle callbacks with a zero-delay timer guarded by _twisted_idle_enabled; the timer
    callback must lower the flag on every normal path - also when no idle callback is registered at that moment -
    otherwise _enable_twisted_idle() returns early for ever and idle callbacks registered later never run."""
    p = ctx.p
    rr = RuleResult("PASS", "C13.9", "TwistedEventLoop._twisted_idle_callback lowers _twisted_idle_enabled on every normal path and when an idle callback raises", floor=2)
    fi = p.func(LOOPS["twisted"] + "._twisted_idle_callback")
    cfg = cfg_of(fi)
    stores = [n for n in cfg.nodes if isinstance(n.ast, ast.Assign) and any(isinstance(t, ast.Attribute) and t.attr == "_twisted_idle_enabled" for t in n.ast.targets) and isinstance(n.ast.value, ast.Constant) and n.ast.value.value is False]
    rr.inst("flag lowered", True, {"stores": len(stores)})
    if not stores or cfg.exit in cfg.reachable([cfg.entry], avoid=stores, labels=("n", "T", "F")):
        rr.add(finding("PASS", fi, stores[0].stmt if stores else fi.node, "a normal path through _twisted_idle_callback (no idle callback registered when the timer fires) leaves _twisted_idle_enabled set: _enable_twisted_idle() then never schedules the timer again and idle callbacks registered later are never called", construct="idle flag not lowered on every path"))
        return rr
    # ... and on the exceptional way out: the idle callbacks are user code (MainLoop.entering_idle redraws); when one
    # raises, run() ends - but the loop object lives on, and a flag left raised means no idle run in any later session
    calls = nodes_where(cfg, lambda c: isinstance(c, ast.Call) and isinstance(c.func, ast.Name) and c.func.id not in ("list", "len", "isinstance"))
    for c in calls:
        ok = cfg.must_pass(c, stores, ends=[cfg.raise_exit], labels=("e", "n", "T", "F"))
        rr.inst(f"flag lowered when {norm(c.stmt, 30)} raises", True, {"call": norm(c.stmt, 40), "lowered_on_the_exceptional_exit": ok})
        if not ok:
            rr.add(finding("PASS", fi, c.stmt, f"when the idle callback `{norm(c.stmt, 30)}` raises, _twisted_idle_callback is left with _twisted_idle_enabled still set: run() ends with the exception, and in every later session on this loop _enable_twisted_idle() returns early - the idle callbacks (the redraw after input) never run again", construct="idle flag not lowered when a callback raises"))
    return rr


def rule_idle_removed(ctx: Ctx) -> RuleResult:
    """'A removed idle callback is not called again' also holds *during* an idle pass: the pass iterates a snapshot
    (C13.2 demands that), so it has to check, before each call, that the entry is still registered - otherwise a
    callback removed by an earlier callback of the same pass is called once more although remove_enter_idle()
    returned True."""
    p = ctx.p
    rr = RuleResult("SNAP", "C13.10", "every idle pass calls a callback only if its handle is still in the registry", floor=6)
    sites = []
    for key, cq in list(LOOPS.items()) + [("glib", GLIB), ("trio-instrument", EL + "trio_loop._TrioIdleCallbackInstrument")]:
        try:
            C = p.cls(cq)
        except AnalysisError:
            continue
        for fi in C.methods.values():
            for loop in [n for n in fi.own_nodes() if isinstance(n, ast.For) and "idle_callbacks" in ast.unparse(n.iter)]:
                calls = [c for c in ast.walk(loop) if isinstance(c, ast.Call) and isinstance(c.func, ast.Name) and any(isinstance(t, ast.Name) and t.id == c.func.id for t in ast.walk(loop.target))]
                if not calls:
                    continue
                sites.append((key, fi, loop, calls))
    for key, fi, loop, calls in sites:
        reg = next((ast.unparse(x) for x in ast.walk(loop.iter) if isinstance(x, ast.Attribute) and x.attr.endswith("idle_callbacks")), None)
        guarded = False
        for n in ast.walk(loop):
            if isinstance(n, ast.If) and isinstance(n.test, ast.Compare) and isinstance(n.test.ops[0], ast.In) and ast.unparse(n.test.comparators[0]) == reg and any(c in list(ast.walk(n)) for c in calls):
                guarded = isinstance(n.test.left, ast.Name) and any(isinstance(t, ast.Name) and t.id == n.test.left.id for t in ast.walk(loop.target))
        rr.inst(f"{short(fi)}", True, {"loop": key, "pass": short(fi), "iterates": norm(loop.iter, 50), "membership_test": guarded})
        if not guarded:
            rr.add(finding("SNAP", fi, loop, f"the idle pass of {short(fi)} calls every callback of its snapshot `{norm(loop.iter, 50)}` without checking that the handle is still in {reg}: a callback removed by an earlier callback of the same pass (remove_enter_idle returned True) is called once more", construct="idle pass without membership test"))
    return rr


def rule_batch_dispatch(ctx: Ctx) -> RuleResult:
    """SelectEventLoop._loop and ZMQEventLoop._loop first collect every ready descriptor and then call the callbacks
    one after the other.  'After the watch is removed its callback never runs' therefore needs a check at call time:
    inside the dispatch loop over the ready set the callback is called only under a test that the watch is still in
    the registry (it may have been removed by an earlier callback of the same batch)."""
    from ..rules.exc import ExcEngine

    p = ctx.p
    rr = RuleResult("SNAP", "C13.11", "select / zmq call the callback of a ready descriptor only if its watch is still registered", floor=2)
    for key, reg in (("select", "_watch_files"), ("zmq", "_queue_callbacks")):
        lp = p.func(f"{LOOPS[key]}._loop")
        du = DefUse(lp)
        cfg = du.cfg
        ready = {nm for nm, ds in du.defs.items() for _dn, v, _how in ds if isinstance(v, ast.AST) and any(isinstance(x, ast.Call) and isinstance(x.func, ast.Attribute) and x.func.attr.lstrip("_") in ("select", "poll") for x in ast.walk(v))}
        loops = [h for h in cfg.nodes if h.kind == "for" and isinstance(h.ast.iter, ast.Name) and h.ast.iter.id in ready]
        if not loops:
            raise AnalysisError(f"{key}._loop: the dispatch loop over the ready set was not found")
        for h in loops:
            body_calls = [n for n in cfg.nodes if n.ast is not None and n.kind not in ("for", "test") and any(x is n.ast or x is getattr(n, "stmt", None) for x in ast.walk(h.ast)) and any(isinstance(c, ast.Call) and (isinstance(c.func, ast.Subscript) or (isinstance(c.func, ast.Attribute) and c.func.attr == "data")) for c in ast.walk(n.ast))]
            tests = [t for t in cfg.nodes if t.kind == "test" and reg in ast.unparse(t.ast) and any(x is t.ast for x in ast.walk(h.ast))]
            rr.inst(f"{key}._loop dispatch", True, {"loop": key, "calls": [norm(c.stmt, 40) for c in body_calls], "membership_tests": [norm(t.ast, 60) for t in tests]})
            for c in body_calls:
                if not any(c not in ExcEngine._reach_without_edge(cfg, t, "T") for t in tests):
                    rr.add(finding("SNAP", lp, c.stmt, f"`{norm(c.stmt, 50)}` calls the callback of a descriptor from the ready batch without testing that its watch is still in self.{reg}: a watch removed by an earlier callback of the same batch still runs once ({'KeyError out of run()' if key == 'zmq' else 'after remove_watch_file returned True'})", construct="ready batch dispatched without membership test"))
                    continue
                # a callback *carried in the snapshot* (record.data) - not looked up afresh in the registry - is the
                # one registered when the descriptors were polled: the descriptor being watched *again* is not enough,
                # the registry's current entry has to be this very callback
                for call in [x for x in ast.walk(c.ast) if isinstance(x, ast.Call) and isinstance(x.func, ast.Attribute) and x.func.attr == "data"]:
                    carried = ast.unparse(call.func)
                    ident_ok = any(
                        c not in ExcEngine._reach_without_edge(cfg, t, "T")
                        and any(isinstance(q, ast.Compare) and len(q.ops) == 1 and isinstance(q.ops[0], ast.Is) and {True} == {reg in ast.unparse(a) or ast.unparse(a) == carried for a in (q.left, q.comparators[0])} and any(ast.unparse(a) == carried for a in (q.left, q.comparators[0])) and any(reg in ast.unparse(a) for a in (q.left, q.comparators[0])) for q in ast.walk(t.ast))
                        for t in tests
                    )
                    rr.inst(f"{key}._loop carried callback identity", True, {"carried": carried, "identity_test": ident_ok})
                    if not ident_ok:
                        rr.add(finding("SNAP", lp, c.stmt, f"`{norm(c.stmt, 50)}` calls the callback recorded when the descriptors were polled under a test that only asks whether the descriptor is (again) in self.{reg}, not whether the registered callback is still `{carried}`: when an earlier callback of the batch removed this watch and watched the descriptor anew, the removed callback still runs (after remove_watch_file returned True) and consumes the input", construct="carried callback dispatched without identity test"))
    return rr


def rule_doread_result(ctx: Ctx) -> RuleResult:
    """Twisted calls IReadDescriptor.doRead() and treats a true result as 'connection lost' (the reader is removed).
    The descriptor that wraps a urwid watch callback must therefore not return the callback's result: the watch has to
    stay until remove_watch_file()."""
    p = ctx.p
    rr = RuleResult("WRAP", "C13.12", "_TwistedInputDescriptor.doRead does not hand the user callback's result to the reactor", floor=1)
    fi = p.func(EL + "twisted_loop._TwistedInputDescriptor.doRead")
    rr.inst("doRead", True, {"returns": [norm(r, 40) for r in fi.own_nodes() if isinstance(r, ast.Return)]})
    for r in [n for n in fi.own_nodes() if isinstance(n, ast.Return) and n.value is not None]:
        if any(isinstance(c, ast.Call) for c in ast.walk(r.value)):
            rr.add(finding("WRAP", fi, r, f"`{norm(r, 40)}` returns the watch callback's result to the Twisted reactor, which takes any true value for 'connection lost' and removes the reader: a callback returning True is called once and never again although the watch was not removed", construct="doRead returns the callback's result"))
    return rr


def rule_zmq_wait(ctx: Ctx) -> RuleResult:
    """ZMQEventLoop waits for the next alarm with Poller.poll(milliseconds).  poll() truncates a float to whole
    milliseconds - the timeout must be rounded *up* - and returns immediately when no socket is registered, so that
    case needs an explicit sleep: otherwise alarms run before they are due."""
    from ..rules.exc import ExcEngine

    p = ctx.p
    rr = RuleResult("BOUND", "C13.13", "ZMQEventLoop rounds the poll timeout up and sleeps when the poller is empty", floor=1)
    lp = p.func(f"{LOOPS['zmq']}._loop")
    cfg = cfg_of(lp)
    polls = nodes_where(cfg, lambda x: isinstance(x, ast.Call) and isinstance(x.func, ast.Attribute) and x.func.attr.lstrip("_") == "poll" and x.args)
    if not polls:
        raise AnalysisError("zmq._loop: the timed poll() call was not found")
    for n in polls:
        call = next(x for x in ast.walk(n.ast) if isinstance(x, ast.Call) and isinstance(x.func, ast.Attribute) and x.func.attr.lstrip("_") == "poll" and x.args)
        a = call.args[0]
        rr.inst(norm(call, 50), True, {"poll": norm(call, 60)})
        if not (isinstance(a, ast.Call) and callee_name(a) == "ceil"):
            rr.add(finding("BOUND", lp, call, f"`{norm(call, 60)}` hands poll() a float number of milliseconds, which it truncates: up to a millisecond of every wait is skipped and the alarm callback runs before its due time", construct="poll timeout not rounded up"))
        guards = [t for t in cfg.nodes if t.kind == "test" and "sockets" in ast.unparse(t.ast) and n not in ExcEngine._reach_without_edge(cfg, t, "T")]
        sleeps = nodes_where(cfg, lambda x: isinstance(x, ast.Call) and ast.unparse(x.func) == "time.sleep")
        if not guards or not sleeps:
            rr.add(finding("BOUND", lp, call, "the timed poll() is not guarded by a test that sockets are registered (with a sleep for the empty case): a Poller without sockets returns at once, so with no watch installed every alarm fires immediately", construct="empty poller not handled"))
    return rr


def rule_descriptor_ownership(ctx: Ctx) -> RuleResult:
    """watch_file() is handed a descriptor that belongs to its caller (MainLoop.watch_pipe closes the pipe itself on
    removal, the screen owns the terminal descriptors).  An event loop that needs a file object for it must not
    take ownership: os.fdopen(fd) / open(fd) close the descriptor when the object is collected - behind the caller's
    back, and once more when the caller closes it (by then possibly another file's number).  Every fdopen()/open()
    of a parameter in the event-loop layer passes closefd=False."""
    p = ctx.p
    rr = RuleResult("OWN", "C13.14", "event loops never wrap a caller's descriptor in an owning file object (fdopen/open of a parameter passes closefd=False)", floor=1)
    for fi in p.functions.values():
        if not fi.module.name.startswith("urwid.event_loop"):
            continue
        for c in fi.own_nodes():
            if not (isinstance(c, ast.Call) and ((isinstance(c.func, ast.Attribute) and c.func.attr == "fdopen") or (isinstance(c.func, ast.Name) and c.func.id == "open")) and c.args and isinstance(c.args[0], ast.Name) and c.args[0].id in fi.all_params):
                continue
            kw = next((k.value for k in c.keywords if k.arg == "closefd"), None)
            ok = isinstance(kw, ast.Constant) and kw.value is False
            rr.inst(f"{short(fi)}:{norm(c, 40)}", True, {"function": short(fi), "call": norm(c, 60), "closefd_false": ok})
            if not ok:
                rr.add(finding("OWN", fi, c, f"`{norm(c, 60)}` wraps the descriptor `{c.args[0].id}` that {fi.name}() was handed in a file object that owns it: when the handle is dropped the descriptor is closed behind its owner's back (after remove_watch_file the caller's pipe is closed; MainLoop.remove_watch_pipe then closes the number a second time)", construct=f"{fi.name}: owning file object around a caller's descriptor"))
    return rr


def rule_fired_alarm_forgotten(ctx: Ctx) -> RuleResult:
    """`remove_alarm()` answers "did the alarm (still) exist".  An alarm that has fired does not: select / zmq pop it
    from the heap, tornado deletes it from its pending table, twisted's DelayedCall raises AlreadyCalled.  Every
    loop has to forget the alarm *before* its callback runs (the callback itself may ask), in the terms its own
    remove_alarm() consults: a removal from the registry attribute remove_alarm() edits, or - where remove_alarm()
    asks the handle (`cancelled()`, `cancel_called`) - a cancel() of that handle."""
    p = ctx.p
    rr = RuleResult("ORDER", "C13.15", "an alarm is forgotten - in the terms remove_alarm() consults - before its callback is called", floor=6)
    loops = dict(LOOPS)
    loops["glib"] = GLIB
    for key, q in loops.items():
        cls = p.cls(q)
        rm = cls.methods.get("remove_alarm")
        al = cls.methods.get("alarm")
        if rm is None or al is None:
            raise AnalysisError(f"{q}: alarm / remove_alarm not found")
        # what remove_alarm consults
        registry = {n.value.attr for n in rm.own_nodes() if isinstance(n, ast.Subscript) and isinstance(n.ctx, ast.Del) and isinstance(n.value, ast.Attribute)}
        registry |= {c.func.value.attr for c in rm.own_nodes() if isinstance(c, ast.Call) and isinstance(c.func, ast.Attribute) and c.func.attr in ("remove", "pop") and isinstance(c.func.value, ast.Attribute)}
        by_exception = any(isinstance(h.type, (ast.Tuple, ast.Name)) and "AlreadyCalled" in ast.unparse(h.type) for n in rm.own_nodes() if isinstance(n, ast.Try) for h in n.handlers)
        if by_exception:
            rr.inst(f"{key}: the library's handle knows it was called", True, {"loop": key, "remove_alarm_handles": "AlreadyCalled"})
            continue
        cb_param = al.params[-1]
        cands = [al] + [f for f in p.functions.values() if f.parent is al] + [f for f in p.all_class_functions(cls) if f.name in ("_loop", "_alarm_task")]
        sites = []
        for f in cands:
            cfg = cfg_of(f)
            popped = set()
            for n in f.own_nodes():
                if isinstance(n, ast.Assign) and isinstance(n.value, ast.Call) and ast.unparse(n.value.func) == "heapq.heappop" and isinstance(n.targets[0], ast.Tuple):
                    popped |= {e.id for e in n.targets[0].elts if isinstance(e, ast.Name)}
            for c in f.own_nodes():
                if not isinstance(c, ast.Call):
                    continue
                direct = isinstance(c.func, ast.Name) and (c.func.id == cb_param and (f is al or f.parent is al) or c.func.id in popped or (f.name == "_alarm_task" and c.func.id == f.params[-1]))
                wrapped = isinstance(c.func, ast.Call) and isinstance(c.func.func, ast.Attribute) and c.func.func.attr == "handle_exit" and c.func.args and isinstance(c.func.args[0], ast.Name) and c.func.args[0].id == cb_param
                if direct or wrapped:
                    sites.append((f, cfg, c))
        if not sites:
            raise AnalysisError(f"{q}: the call of the alarm callback was not found")
        for f, cfg, c in sites:
            cn = nodes_where(cfg, lambda x, c=c: x is c)
            forget = []
            for n in cfg.nodes:
                a = n.ast
                if a is None or n.kind in ("for", "with", "handler"):
                    continue
                for x in walk_no_nested(a):
                    if registry:
                        if isinstance(x, ast.Subscript) and isinstance(x.ctx, ast.Del) and isinstance(x.value, ast.Attribute) and x.value.attr in registry:
                            forget.append(n)
                        elif isinstance(x, ast.Call) and isinstance(x.func, ast.Attribute) and x.func.attr in ("remove", "pop") and isinstance(x.func.value, ast.Attribute) and x.func.value.attr in registry:
                            forget.append(n)
                        elif isinstance(x, ast.Call) and ast.unparse(x.func) == "heapq.heappop" and x.args and isinstance(x.args[0], ast.Attribute) and x.args[0].attr in registry:
                            forget.append(n)
                    elif isinstance(x, ast.Call) and isinstance(x.func, ast.Attribute) and x.func.attr == "cancel" and not x.args:
                        forget.append(n)
            ok = bool(forget) and all(cfg.dominated(n, forget) for n in cn)
            rr.inst(f"{key}: {short(f)}: {norm(c, 30)}", True, {"loop": key, "dispatch": f"{short(f)}: {norm(c, 40)}", "remove_alarm_consults": sorted(registry) or "the handle's cancelled state", "forgotten_first": ok})
            if not ok:
                what = f"self.{'/'.join(sorted(registry))}" if registry else "the handle (cancelled() / cancel_called)"
                rr.add(finding("ORDER", f, c, f"`{norm(c, 40)}` runs the alarm callback while the alarm is still known to remove_alarm() (which consults {what}): remove_alarm() of an alarm that has fired reports success - the other loops report failure - and, for a registry of library source ids, removes an id that may belong to something else by now", construct=f"{key}: alarm callback called before the alarm is forgotten", informational=(q == GLIB)))
    return rr


def rule_rewatch_replaces(ctx: Ctx) -> RuleResult:
    """A loop that keeps its own table of watches keyed by the descriptor (`self._watch_files[fd] = x`) and, besides,
    registers an object per watch with its host library (reactor.addReader(x)) has two registries to keep in step:
    when the descriptor is already in the table, the object registered for it has to be unregistered before the
    table entry is overwritten - the host keeps one reader per descriptor and ignores the second, so the *old*
    callback would go on running and the new one never would (select / asyncio / zmq replace the callback)."""
    p = ctx.p
    rr = RuleResult("PAIR", "C13.16", "watch_file() on an already watched descriptor unregisters the object registered for it before overwriting the table entry", floor=1)
    loops = dict(LOOPS)
    loops["glib"] = GLIB
    for key, q in loops.items():
        wf = p.cls(q).methods.get("watch_file")
        if wf is None:
            continue
        fdp = wf.params[1]
        stores = [n for n in wf.own_nodes() if isinstance(n, ast.Assign) and any(isinstance(t, ast.Subscript) and isinstance(t.value, ast.Attribute) and ast.unparse(t.slice) == fdp for t in n.targets)]
        regs = [c for c in wf.own_nodes() if isinstance(c, ast.Call) and isinstance(c.func, ast.Attribute) and c.func.attr in ("addReader",) and c.args]
        if not stores or not regs:
            continue
        table = next(t.value.attr for n in stores for t in n.targets if isinstance(t, ast.Subscript))
        cfg = cfg_of(wf)
        tests = [t for t in cfg.nodes if t.kind == "test" and isinstance(t.ast, ast.Compare) and isinstance(t.ast.ops[0], ast.In) and ast.unparse(t.ast.left) == fdp and ast.unparse(t.ast.comparators[0]).endswith("." + table)]
        unreg = [n for n in cfg.nodes if n.ast is not None and n.kind not in ("for", "with", "handler") and any(isinstance(x, ast.Call) and isinstance(x.func, ast.Attribute) and x.func.attr in ("removeReader",) and x.args and table in ast.unparse(x.args[0]) for x in walk_no_nested(n.ast))]
        sn = [n for s_ in stores for n in cfg.stmt_nodes(s_)]
        ok = bool(tests) and bool(unreg) and all(u in cfg.reachable_from_edges([(t, "T")]) for t in tests for u in unreg)
        # the unregistration happens before the entry is overwritten: no path test -T-> store avoids it
        if ok:
            for t in tests:
                r = cfg.reachable_from_edges([(t, "T")], avoid=unreg)
                if any(s_node in r for s_node in sn):
                    ok = False
        rr.inst(f"{key}: {short(wf)}", True, {"loop": key, "table": table, "registered_with_host": [norm(c, 40) for c in regs], "replaces_old_watch": ok})
        if not ok:
            rr.add(finding("PAIR", wf, stores[0], f"`{norm(stores[0], 50)}` overwrites the watch recorded for `{fdp}` while the object registered for the old watch stays registered with the host ({norm(regs[0], 40)}): the host keeps one reader per descriptor and ignores the new one, so the old callback keeps running, the new one never runs, and remove_watch_file() later unregisters the wrong object", construct=f"{key}: re-watch does not unregister the old reader", informational=(q == GLIB)))
    return rr


def rule_trio_pending(ctx: Ctx) -> RuleResult:
    """TrioEventLoop creates alarm / watch tasks lazily: before run() (no nursery yet) they only sit in
    `_pending_tasks`.  Removing such a handle must not go to the trio cancel scope - outside of a running trio loop
    `scope.cancel_called` / `scope.cancel()` raise RuntimeError, and the pending task would still be started later,
    i.e. a removed alarm runs.  _cancel_scope() therefore first looks the scope up among the pending tasks (and
    forgets it there), and only then - under a RuntimeError handler - asks the scope."""
    p = ctx.p
    rr = RuleResult("PASS", "C13.17", "TrioEventLoop._cancel_scope forgets a task that was never started before it touches the trio scope (which it does under a RuntimeError handler)", floor=1)
    fi = p.func(LOOPS["trio"] + "._cancel_scope")
    cfg = cfg_of(fi)
    prm = fi.params[1]
    touch = nodes_where(cfg, lambda x: isinstance(x, ast.Attribute) and x.attr in ("cancel", "cancel_called") and isinstance(x.value, ast.Name) and x.value.id == prm)
    loops = [h for h in cfg.nodes if h.kind == "for" and "_pending_tasks" in ast.unparse(h.ast.iter)]
    forget = [n for n in cfg.nodes if isinstance(n.ast, ast.Delete) and "_pending_tasks" in ast.unparse(n.ast)] + nodes_where(cfg, lambda x: isinstance(x, ast.Call) and isinstance(x.func, ast.Attribute) and x.func.attr in ("remove", "pop") and "_pending_tasks" in ast.unparse(x.func.value))
    guarded = all(any(lab == "e" and t.kind == "handler" and t.ast.type is not None and "RuntimeError" in ast.unparse(t.ast.type) for t, lab in n.succ) for n in touch) if touch else False
    ok = bool(touch) and bool(loops) and bool(forget) and all(cfg.dominated(n, loops) for n in touch)
    rr.inst("_cancel_scope", True, {"pending_lookup": bool(loops), "forgets_pending_task": bool(forget), "scope_touched_under_RuntimeError_handler": guarded})
    if not touch:
        raise AnalysisError("TrioEventLoop._cancel_scope: the use of the scope (cancel / cancel_called) was not found")
    if not ok:
        rr.add(finding("PASS", fi, touch[0].stmt, f"`{norm(touch[0].stmt, 50)}` is reached without the scope having been looked up (and forgotten) among self._pending_tasks: a handle removed before run() raises RuntimeError('must be called from async context') and its task is still started when the loop runs - a removed alarm fires", construct="pending task not forgotten before the scope is touched"))
    elif not guarded:
        rr.add(finding("PASS", fi, touch[0].stmt, f"`{norm(touch[0].stmt, 50)}` touches the trio scope without a RuntimeError handler: a handle left over from a run that is over (MainLoop re-run after an exception) raises 'must be called from async context' out of remove_alarm / remove_watch_file", construct="scope touched without RuntimeError handler"))
    return rr


def rule_trio_recheck(ctx: Ctx) -> RuleResult:
    """The trio analogue of C13.11: a watch task sleeps in `await wait_readable(fd)`; when it is woken, other tasks of
    the same scheduler batch may already have run and removed this watch - cancellation is only delivered at the
    *next* checkpoint.  Between the await and the callback the task has to look at scope.cancel_called itself.
    And: several callbacks of one batch may raise ExitMainLoop together; trio hands them over as one ExceptionGroup,
    which has to end run() as silently as a single ExitMainLoop."""
    p = ctx.p
    rr = RuleResult("SNAP", "C13.18", "TrioEventLoop re-checks the cancel scope between wait_readable() and the watch callback; a group of ExitMainLoop only ends run() normally", floor=2)
    fi = p.func(LOOPS["trio"] + "._watch_task")
    cfg = cfg_of(fi)
    cb = fi.params[-1]
    awaits = nodes_where(cfg, lambda x: isinstance(x, ast.Await))
    calls = nodes_where(cfg, lambda x: isinstance(x, ast.Call) and isinstance(x.func, ast.Name) and x.func.id == cb)
    tests = [t for t in cfg.nodes if t.kind == "test" and "cancel_called" in ast.unparse(t.ast) and not isinstance(t.stmt, ast.While)]
    if not awaits or not calls:
        raise AnalysisError("TrioEventLoop._watch_task: await / callback call not found")
    ok = bool(tests) and all(not any(c in cfg.reachable([a], avoid=tests, labels=("n", "T", "F")) for c in calls) for a in awaits)
    rr.inst("_watch_task: re-check after the await", True, {"rechecks": [norm(t.ast, 40) for t in tests], "callback_only_after_recheck": ok})
    if not ok:
        rr.add(finding("SNAP", fi, calls[0].stmt, f"`{norm(calls[0].stmt, 30)}` follows `await ...wait_readable(fd)` without a test of scope.cancel_called in between: a watch removed by another callback of the same batch (two descriptors ready together) still runs once, because trio delivers the cancellation only at the next checkpoint", construct="watch callback without re-check after the await"))
    h = p.func(LOOPS["trio"] + "._handle_main_loop_exception")
    grp = [t for t in h.own_nodes() if isinstance(t, ast.If) and "all(" in ast.unparse(t.test) and "ExitMainLoop" in ast.unparse(t.test) and any(isinstance(x, ast.Return) for x in t.body)]
    rr.inst("_handle_main_loop_exception: group of ExitMainLoop", True, {"tests": [norm(t.test, 90) for t in grp]})
    if not grp:
        rr.add(finding("SNAP", h, h.node, "_handle_main_loop_exception returns only for a single ExitMainLoop: when two callbacks of one batch raise it, trio's ExceptionGroup of both is re-raised from run() instead of ending it", construct="group of ExitMainLoop not absorbed"))
    return rr


def rule_first_exception(ctx: Ctx) -> RuleResult:
    """'re-raised from run() exactly once': the loops that cannot stop their host loop in the middle of an iteration
    (asyncio, tornado, twisted) park the exception of a callback in an attribute that run() raises after the host
    loop returned.  Callbacks that were already due still run in that iteration; when one of them raises as well, the
    parked exception must not be replaced - every parking store is made only while the attribute is still None.
    Before fix da31b14 run() re-raised the *last* exception and the first was lost."""
    p = ctx.p
    rr = RuleResult("GUARD", "C13.19", "an exception parked for run() to re-raise is stored only while nothing is parked yet (`self._exc is None`): the first exception wins", floor=3)
    for fi in p.functions.values():
        if not fi.module.name.startswith("urwid.event_loop") or fi.is_lambda:
            continue
        owner = fi
        while owner is not None and owner.cls is None:
            owner = getattr(owner, "parent", None)
        if owner is None:
            continue
        cls = owner.cls
        run_ = cls.methods.get("run")
        if run_ is None:
            continue
        cfg = None
        for n in fi.own_nodes():
            if not (isinstance(n, ast.Assign) and len(n.targets) == 1 and isinstance(n.targets[0], ast.Attribute) and isinstance(n.targets[0].value, ast.Name) and n.targets[0].value.id in ("self", owner.self_name) and isinstance(n.value, ast.Name)):
                continue
            attr = n.targets[0].attr
            # the stored name is an exception: bound by `except ... as v`, by `v := context.get("exception")`, or a parameter named exc
            v = n.value.id
            is_exc = any(isinstance(h, ast.ExceptHandler) and h.name == v for h in fi.own_nodes()) or any(isinstance(w, ast.NamedExpr) and isinstance(w.target, ast.Name) and w.target.id == v and "exception" in ast.unparse(w.value) for w in fi.own_nodes())
            # run() raises what is parked
            raised = any(isinstance(r, ast.Raise) for r in run_.own_nodes()) and any(isinstance(a, ast.Attribute) and a.attr == attr for a in ast.walk(run_.node))
            if not (is_exc and raised):
                continue
            cfg = cfg or cfg_of(fi)
            sn = next((x for x in cfg.nodes if x.stmt is n), None)
            if sn is None:
                continue
            from ..rules.exc import ExcEngine

            guarded = False
            for t in cfg.nodes:
                if t.kind != "test":
                    continue
                for c in ast.walk(t.ast):
                    if isinstance(c, ast.Compare) and len(c.ops) == 1 and isinstance(c.ops[0], ast.Is) and isinstance(c.left, ast.Attribute) and c.left.attr == attr and isinstance(c.comparators[0], ast.Constant) and c.comparators[0].value is None:
                        # the store lies only on the true side, and the test is a conjunct (not under `or` / `not`)
                        conj = t.ast is c or (isinstance(t.ast, ast.BoolOp) and isinstance(t.ast.op, ast.And) and any(x is c for x in t.ast.values))
                        if conj and sn not in ExcEngine._reach_without_edge(cfg, t, "T"):
                            guarded = True
            ident = f"{short(fi)}: {norm(n, 40)}"
            rr.inst(ident, True, {"store": ident, "raised_by": short(run_), "guarded_by_is_None": guarded})
            if not guarded:
                rr.add(finding("GUARD", fi, n, f"`{norm(n, 40)}` parks the exception for {short(run_)}() to re-raise without testing that nothing is parked yet: the host loop still runs the other callbacks that were due in this iteration, and when one of them raises too the first exception is replaced and lost - run() reports the later one", construct=f"parked exception overwritten: {norm(n, 40)}"))
    return rr


def run(ctx: Ctx):
    return [rule_wrap(ctx), rule_snap(ctx), rule_idle_arming(ctx), rule_remove_returns(ctx), rule_select_zmq(ctx), rule_trio_checkpoint(ctx), rule_presence(ctx), rule_handle_unique(ctx), rule_twisted_idle_flag(ctx), rule_idle_removed(ctx), rule_batch_dispatch(ctx), rule_doread_result(ctx), rule_zmq_wait(ctx), rule_descriptor_ownership(ctx), rule_fired_alarm_forgotten(ctx), rule_rewatch_replaces(ctx), rule_trio_pending(ctx), rule_trio_recheck(ctx), rule_first_exception(ctx)]


from ..mutants import Mut  # noqa: E402

_S = "urwid/event_loop/select_loop.py"
_A = "urwid/event_loop/asyncio_loop.py"
MUTANTS = [
    Mut("twisted-idle-flag-kept-on-exception", "urwid/event_loop/twisted_loop.py", "TwistedEventLoop._twisted_idle_callback", "        try:\n            for handle, callback in list(self._idle_callbacks.items()):\n                # a callback removed by an earlier one in this pass is not called\n                if handle in self._idle_callbacks:\n                    callback()\n        finally:\n            # also when a callback raised: the scheduled call is over, the next one has to be scheduled anew\n            self._twisted_idle_enabled = False\n", "        for handle, callback in list(self._idle_callbacks.items()):\n            if handle in self._idle_callbacks:\n                callback()\n        self._twisted_idle_enabled = False\n", "PASS|event_loop.twisted_loop.TwistedEventLoop._twisted_idle_callback|idle flag not lowered when a callback raises"),
    Mut("select-batch-guard-membership-only", _S, "SelectEventLoop._loop", "            if self._watch_files.get(record.fd) is record.data:", "            if record.fd in self._watch_files:", "SNAP|event_loop.select_loop.SelectEventLoop._loop|carried callback dispatched without identity test"),
    Mut("twin-select-batch-guard-is-swapped", _S, "SelectEventLoop._loop", "            if self._watch_files.get(record.fd) is record.data:", "            if record.data is self._watch_files.get(record.fd):", twin=True),
    Mut("asyncio-last-exception-wins", _A, "AsyncioEventLoop._exception_handler", "            if not isinstance(exc, ExitMainLoop) and self._exc is None:", "            if not isinstance(exc, ExitMainLoop):", "GUARD|event_loop.asyncio_loop.AsyncioEventLoop._exception_handler|parked exception overwritten"),
    Mut("twisted-last-exception-wins", "urwid/event_loop/twisted_loop.py", "TwistedEventLoop.handle_exit", "                if self._exc is None:  # callbacks already due still run: report the first exception\n                    self._exc = exc\n", "                self._exc = exc\n", "GUARD|event_loop.twisted_loop.TwistedEventLoop.handle_exit.<locals>.wrapper|parked exception overwritten"),
    Mut("tornado-parks-under-or", "urwid/event_loop/tornado_loop.py", "TornadoEventLoop.handle_exit", "                if self._exc is None:  # callbacks already due still run: report the first exception\n", "                if self._exc is None or exc:\n", "GUARD|event_loop.tornado_loop.TornadoEventLoop.handle_exit.<locals>.wrapper|parked exception overwritten"),
    Mut("trio-watch-no-recheck-after-await", "urwid/event_loop/trio_loop.py", "TrioEventLoop._watch_task", "                if scope.cancel_called:\n                    # removed by another callback that ran since the descriptor became readable\n                    break\n", "", "SNAP|event_loop.trio_loop.TrioEventLoop._watch_task"),
    Mut("trio-exit-group-reraised", "urwid/event_loop/trio_loop.py", "TrioEventLoop._handle_main_loop_exception", "        if isinstance(exc, BaseExceptionGroup) and len(exc.exceptions) > 1 and all(isinstance(e, ExitMainLoop) for e in exc.exceptions):\n            # several callbacks of one batch asked to exit\n            return\n", "", "SNAP|event_loop.trio_loop.TrioEventLoop._handle_main_loop_exception"),
    Mut("trio-cancel-pending-task-through-scope", "urwid/event_loop/trio_loop.py", "TrioEventLoop._cancel_scope", "        for index, (_task, pending_scope, _args) in enumerate(self._pending_tasks):\n            if pending_scope is scope:\n                # not started yet (no nursery): there is nothing to cancel, just forget the task\n                del self._pending_tasks[index]\n                return True\n", "", "PASS|event_loop.trio_loop.TrioEventLoop._cancel_scope"),
    Mut("zmq-run-does-not-arm-idle", "urwid/event_loop/zmq_loop.py", "ZMQEventLoop.run", "            self._did_something = True\n", "", "PASS|event_loop.zmq_loop.ZMQEventLoop.run"),
    Mut("zmq-run-swallows-callback-eintr", "urwid/event_loop/zmq_loop.py", "ZMQEventLoop.run", "            while True:\n                self._loop()\n", "            while True:\n                try:\n                    self._loop()\n                except zmq.error.ZMQError as exc:\n                    if exc.errno != errno.EINTR:\n                        raise\n", "WRAP|event_loop.zmq_loop.ZMQEventLoop.run"),
    Mut("asyncio-arms-idle-only-with-listeners", _A, "AsyncioEventLoop._also_call_idle", "            if not self._idle_asyncio_handle:", "            if self._idle_callbacks and not self._idle_asyncio_handle:", "PASS|event_loop.asyncio_loop.AsyncioEventLoop._also_call_idle"),
    Mut("twisted-rewatch-keeps-old-reader", "urwid/event_loop/twisted_loop.py", "TwistedEventLoop.watch_file", "        if fd in self._watch_files:\n            # the reactor keeps one reader per descriptor and ignores a second one: replace the old watch\n            self.reactor.removeReader(self._watch_files[fd])\n", "", "PAIR|event_loop.twisted_loop.TwistedEventLoop.watch_file"),
    Mut("asyncio-fired-alarm-still-removable", _A, "AsyncioEventLoop.alarm", "            handle.cancel()\n            callback()", "            callback()", "ORDER|event_loop.asyncio_loop.AsyncioEventLoop.alarm"),
    Mut("trio-fired-alarm-still-removable", "urwid/event_loop/trio_loop.py", "TrioEventLoop._alarm_task", "            scope.cancel()\n            callback()", "            callback()", "ORDER|event_loop.trio_loop.TrioEventLoop._alarm_task"),
    Mut("tornado-alarm-forgotten-after-callback", "urwid/event_loop/tornado_loop.py", "TornadoEventLoop.alarm", "            with suppress(KeyError):\n                del self._pending_alarms[handle]\n\n            self.handle_exit(callback)()", "            self.handle_exit(callback)()\n            with suppress(KeyError):\n                del self._pending_alarms[handle]", "ORDER|event_loop.tornado_loop.TornadoEventLoop.alarm"),
    Mut("tornado-wrapper-catches-exception-only", "urwid/event_loop/tornado_loop.py", "TornadoEventLoop.handle_exit", "            except BaseException as exc:", "            except Exception as exc:", "WRAP|event_loop.tornado_loop.TornadoEventLoop.handle_exit"),
    Mut("zmq-watch-file-owns-descriptor", "urwid/event_loop/zmq_loop.py", "ZMQEventLoop.watch_file", "fd = os.fdopen(fd, closefd=False)", "fd = os.fdopen(fd)", "OWN|event_loop.zmq_loop.ZMQEventLoop.watch_file"),
    Mut("zmq-poll-timeout-truncated", "urwid/event_loop/zmq_loop.py", "ZMQEventLoop._loop", "self._poll(math.ceil(timeout * 1000))", "self._poll(timeout * 1000)", "BOUND|event_loop.zmq_loop.ZMQEventLoop._loop"),
    Mut("twisted-doread-returns-result", "urwid/event_loop/twisted_loop.py", "_TwistedInputDescriptor.doRead", "        self.cb()\n", "        return self.cb()\n", "WRAP|event_loop.twisted_loop._TwistedInputDescriptor.doRead"),
    Mut("select-run-suppresses-eintr", "urwid/event_loop/select_loop.py", "SelectEventLoop.run", "            while True:\n                self._loop()", "            while True:\n                with contextlib.suppress(InterruptedError):\n                    self._loop()", "WRAP|event_loop.select_loop.SelectEventLoop.run"),
    Mut("select-batch-calls-removed-watch", "urwid/event_loop/select_loop.py", "SelectEventLoop._loop", "            if self._watch_files.get(record.fd) is record.data:\n                record.data()\n                self._did_something = True", "            record.data()\n            self._did_something = True", "SNAP|event_loop.select_loop.SelectEventLoop._loop"),
    Mut("select-idle-pass-calls-removed", "urwid/event_loop/select_loop.py", "SelectEventLoop._entering_idle", "        for handle, callback in list(self._idle_callbacks.items()):\n            # a callback removed by an earlier one in this pass is not called\n            if handle in self._idle_callbacks:\n                callback()", "        for callback in list(self._idle_callbacks.values()):\n            callback()", "SNAP|event_loop.select_loop.SelectEventLoop._entering_idle"),
    Mut("tornado-handle-from-dict-size", "urwid/event_loop/tornado_loop.py", "TornadoEventLoop.watch_file", "        self._max_watch_handle += 1\n        handle = self._max_watch_handle\n", "        handle = len(self._watch_handles) + 1\n", "TAB|event_loop.tornado_loop.TornadoEventLoop.watch_file"),
    Mut("twisted-idle-flag-lowered-in-loop-only", "urwid/event_loop/twisted_loop.py", "TwistedEventLoop._twisted_idle_callback", "                    callback()\n        finally:\n            # also when a callback raised: the scheduled call is over, the next one has to be scheduled anew\n            self._twisted_idle_enabled = False", "                    self._twisted_idle_enabled = False\n                    callback()\n        finally:\n            pass", "PASS|event_loop.twisted_loop.TwistedEventLoop._twisted_idle_callback"),
    Mut("twisted-wrapper-catches-exception-only", "urwid/event_loop/twisted_loop.py", "TwistedEventLoop.handle_exit", "            except BaseException as exc:", "            except Exception as exc:", "WRAP|event_loop.twisted_loop.TwistedEventLoop.handle_exit"),
    Mut("tornado-fd-zero-not-removed", "urwid/event_loop/tornado_loop.py", "TornadoEventLoop.remove_watch_file", "if (fd := self._watch_handles.pop(handle, None)) is not None:", "if fd := self._watch_handles.pop(handle, None):", "TRUTHY|event_loop.tornado_loop.TornadoEventLoop.remove_watch_file"),
    Mut("select-idle-live-dict", _S, "SelectEventLoop._entering_idle", "for handle, callback in list(self._idle_callbacks.items()):", "for handle, callback in self._idle_callbacks.items():", "SNAP|"),
    Mut("select-remove-alarm-conditional-heapify", _S, "SelectEventLoop.remove_alarm", "            self._alarms.remove(handle)\n            heapq.heapify(self._alarms)\n", "            self._alarms.remove(handle)\n", "SIB|"),
    Mut("asyncio-exc-not-cleared", _A, "AsyncioEventLoop.run", "            exc = self._exc\n            self._exc = None\n", "            exc = self._exc\n", ("ORDER|", "PASS|", "WRAP|")),
    Mut("asyncio-idle-handle-not-reset", _A, "AsyncioEventLoop._exception_handler", "                self._idle_asyncio_handle.cancel()\n                self._idle_asyncio_handle = None", "                self._idle_asyncio_handle.cancel()", "PASS|"),
    Mut("zmq-remove-idle-returns-none", "urwid/event_loop/zmq_loop.py", "ZMQEventLoop.remove_enter_idle", "        except KeyError:\n            return False\n\n        return True", "        except KeyError:\n            return False", "RET|"),
    Mut("trio-alarm-conditional-checkpoint", "urwid/event_loop/trio_loop.py", "TrioEventLoop._alarm_task", "            await self._sleep(seconds)\n", "            if seconds > 0:\n                await self._sleep(seconds)\n", "PASS|event_loop.trio_loop.TrioEventLoop._alarm_task"),
    Mut("select-alarm-callback-no-idle-arming", _S, "SelectEventLoop._loop", "            alarm_callback()\n            self._did_something = True", "            alarm_callback()", ("PASS|", "ORDER|", "SIB|")),
    Mut("select-alarm-starved-by-input", _S, "SelectEventLoop._loop", "        elif tm is not None and (not ready or time.time() >= tm):", "        elif tm is not None and not ready:", "SIB|event_loop.select_loop.SelectEventLoop._loop|alarm dispatch requires"),
    Mut("select-alarm-early-when-input-ready", _S, "SelectEventLoop._loop", "        elif tm is not None and (not ready or time.time() >= tm):", "        elif tm is not None:", "SIB|event_loop.select_loop.SelectEventLoop._loop"),
    Mut("zmq-alarm-starved-by-input", "urwid/event_loop/zmq_loop.py", "ZMQEventLoop._loop", "        elif state == \"alarm\" and (not ready or time.time() >= self._alarms[0][0]):", "        elif state == \"alarm\" and not ready:", "SIB|event_loop.zmq_loop.ZMQEventLoop._loop|alarm dispatch requires"),
    Mut("twin-select-due-test-mirrored", _S, "SelectEventLoop._loop", "(not ready or time.time() >= tm)", "(tm <= time.time() or not ready)", twin=True),
]
