"""C04 - the bytes sent to the terminal paint exactly the rendered canvas."""

from __future__ import annotations

import ast

from ..core import Ctx, RuleResult, finding, short, walk_no_nested
from ..model import AnalysisError, norm
from ..mutants import Mut
from ..rules import accum, loopfresh
from ..rules.defuse import DefUse
from ..rules.exc import ExcEngine
from ..rules.util import callee_name, cfg_of, nodes_where, node_exprs
from . import c17

EXPLANATION = (
    "Decided (necessary structural conditions of C04): (1) cell-triple coherence in Screen.draw_screen: a variable bound by the per-cell loop `for a, cs, run in row` is never read after "
    "that loop ended - the insert-mode block for the bottom-right corner must use its own (inserta, insertcs, inserttext) triple for attribute, charset and text; (2) cursor visibility: "
    "HIDE_CURSOR is the first output of every draw and SHOW_CURSOR is emitted only under `canvas.cursor is not None`; (3) forced repaint: clear() and the resize signal handler reset "
    "screen_buf, set_terminal_properties and _stop reach clear() after changing what is on the terminal, and draw_screen records screen_buf / _screen_buf_canvas only after the write "
    "loop; (4) charset state: the charset-switch test in the cell loop does not rely on the sentinel None of last_charset_flag alone (None is also the legitimate 'normal charset' value) "
    "- it carries a first-run flag so the terminal's shift state is re-established in every draw; (5) HTML back-end: canvas text reaches the fragment only through html.escape, the "
    "depth->position palette map covers every depth, palette lookups are total; (6) palette cache coherence (shared with C17): both caches written together, rebuilt after every "
    "terminal-property change."
    " Added after seed round 3: _last_row's back-step is the width of the text written last (calc_width of the Z text); `self._resized` is tested again between the walk over canvas.content() and the write / screen_buf store; (9) ACCUM - the row counter of draw_screen advances for skipped rows too; (10) KIND - in the HTML back-end everything added to / compared with the cursor column is a calc_width() result, never a character count."
    " Round 4: the 'same canvas object as last time' shortcut of draw_screen reads screen_buf (which clear(), resize and stop reset); (11) LOOPFRESH on per-row state of the two draw_screen implementations."
    " Round-4 triage: (12) the erase-to-end-of-line shortcut is disabled for every style flag _attrspec_to_escape() emits that is drawn on blank cells (all but bold / italics / blink). Round 5: (13) every value given to the rendition model of draw_screen is sent on every path to its next use; (14) _last_row reads row[-2] only under a test of len(row); (15) every draw_screen reads all three components of a run (the HTML back-end used to drop the charset flag); (3, extended) `_resized` is tested again between the write loop and the screen_buf record."
    ' Round 6: (12) the erase-shortcut helper resolves an AttrSpec object to itself; (16) TAINT: every piece of cell text decoded for output went through the control-character filter - also the cell written with the insert trick (fix 8553a8b); (17) a draw that ends with the IBM PC font on switches it off.'
    ' Round 7: (18) the erase shortcut strips exactly the byte its enabling test found at the end of the run; (19) set_encoding() stores the one UTF-8 spelling the display modules compare get_encoding() with (fix 7c379d4).'
    ' Round 8: (20) GUARD: a blank row is skipped in partial-screen mode only where y - _rows_used > 0 is entailed by the tests on the way (the mark is an index, not a count).'
)
NOT_DECIDED = "The effect of the escape stream on a terminal across frame histories, the erase-to-end-of-line and insert-mode equivalences, no-scroll - these need a terminal interpreter, i.e. execution."
ASSUMPTIONS = []

RAW = "urwid.display._raw_display_base"
HTML = "urwid.display.html_fragment"


def rule_triple(ctx: Ctx) -> RuleResult:
    p = ctx.p
    rr = RuleResult("LEAK", "C04.1", "variables bound by the per-cell loop of draw_screen are not read after the loop (the insert block uses its own cell triple)", floor=2)
    fi = p.func(f"{RAW}.Screen.draw_screen")
    du = DefUse(fi)
    cfg = du.cfg
    loops = [h for h in cfg.nodes if h.kind == "for" and isinstance(h.ast.target, ast.Tuple) and len(h.ast.target.elts) == 3 and ast.unparse(h.ast.iter) == "row"]
    if len(loops) != 1:
        raise AnalysisError("draw_screen: the per-cell loop `for a, cs, run in row` was not found")
    h = loops[0]
    names = [e.id for e in h.ast.target.elts if isinstance(e, ast.Name)]
    body = cfg.reachable_from_edges([(h, "T")], avoid=[h])
    # the insert triple, by role: a 3-name unpacking of a plain local (not of row[...]) outside the per-cell loop
    ins = [n for n in cfg.nodes if n not in body and isinstance(n.ast, ast.Assign) and isinstance(n.ast.targets[0], ast.Tuple) and len(n.ast.targets[0].elts) == 3 and isinstance(n.ast.value, ast.Name) and n in cfg.reachable([h])]
    rr.inst("cell loop", True, {"loop": norm(h.stmt, 50), "cell_variables": names, "insert_triple": [norm(n.stmt, 60) for n in ins]})
    if not ins:
        rr.add(finding("LEAK", fi, fi.node, "the insert block no longer unpacks its own (attr, charset, text) triple from `ins`", construct="no insert triple"))
    for n in cfg.nodes:
        if n in body or n is h or n.ast is None:
            continue
        exprs = [n.ast] if n.kind not in ("for", "with", "handler") else ([n.ast.iter] if n.kind == "for" else [])
        for e in exprs:
            for x in walk_no_nested(e):
                if isinstance(x, ast.Name) and isinstance(x.ctx, ast.Load) and x.id in names:
                    defs = du.reaching(x.id, n)
                    if any(how == "loop element" and dn is h for v, how, dn in defs):
                        rr.inst(f"read of {x.id} after loop: {norm(n.stmt, 40)}", True)
                        rr.add(finding("LEAK", fi, n.stmt, f"`{norm(n.stmt, 60)}` reads `{x.id}` as left behind by the last iteration of the per-cell loop; the cell handled here is the one unpacked from `ins`, so its attribute/charset/text must come from that triple - otherwise the slid-in corner cell is sent with another cell's charset or attribute", construct=f"stale cell variable {x.id}: {norm(n.stmt, 60)}"))
    # inside the loop: attr_to_escape(a), cs tests, run text from the same triple
    a, cs, run = names
    uses = {"attr": False, "cs": False, "text": False}
    for n in body:
        if n.ast is None:
            continue
        t = ast.unparse(n.ast) if not isinstance(n.ast, (ast.For, ast.While, ast.If)) else ast.unparse(getattr(n.ast, "test", n.ast))
        if f"attr_to_escape({a})" in t:
            uses["attr"] = True
        if n.kind == "test" and cs in t:
            uses["cs"] = True
        if f"{run}.decode(" in t and ".append(" in t:
            uses["text"] = True
    rr.inst("triple used together", True, uses)
    for k, v in uses.items():
        if not v:
            rr.add(finding("LEAK", fi, h.ast, f"inside the per-cell loop the {k} of the cell is not taken from the loop's own triple ({a}, {cs}, {run})", construct=f"cell loop does not use its {k}"))
    return rr


def rule_last_row_triple(ctx: Ctx) -> RuleResult:
    """_last_row re-assembles the bottom row: every (attr, charset, text) cell it builds must take the three
    components from the same source cell of the row."""
    p = ctx.p
    rr = RuleResult("TRIPLE", "C04.1b", "every cell tuple built by _last_row takes attribute, charset and text from the same source cell", floor=4)
    fi = p.func(f"{RAW}.Screen._last_row")
    du = DefUse(fi)

    def sources(e, at, depth=0, seen=None):
        """set of source cells ('row[-1]', ...) the value can come from"""
        seen = seen if seen is not None else set()
        if depth > 8:
            return {"?"}
        if isinstance(e, ast.Subscript):
            inner = e.value
            if isinstance(inner, ast.Subscript) and isinstance(inner.value, ast.Name) and inner.value.id == fi.params[1]:
                return {ast.unparse(inner)}
            if isinstance(inner, ast.Name) and inner.id == fi.params[1] and not isinstance(e.slice, ast.Slice):
                return {ast.unparse(e)}
            return sources(inner, at, depth + 1, seen)  # a slice / index of a text keeps its source
        if isinstance(e, ast.Name):
            out = set()
            defs = du.reaching(e.id, at)
            for v, how, dn in defs:
                if (e.id, dn.id, at.id) in seen:
                    continue
                seen.add((e.id, dn.id, at.id))
                if v is None or not isinstance(v, ast.AST):
                    out.add("?")
                else:
                    out |= sources(v, dn, depth + 1, seen)
            return out if defs else {"?"}
        return {"?"}

    n = 0
    for node in du.cfg.nodes:
        if node.ast is None or node.kind in ("for", "with", "handler"):
            continue
        for t in walk_no_nested(node.ast):
            if isinstance(t, ast.Tuple) and len(t.elts) == 3 and isinstance(t.ctx, ast.Load) and all(isinstance(x, (ast.Name, ast.Subscript)) for x in t.elts):
                srcs = [sources(x, node) for x in t.elts]
                if any("?" in s_ for s_ in srcs):
                    continue
                n += 1
                rr.inst(f"{norm(t, 60)}", True, {"cell": norm(t, 60), "sources": [sorted(s_) for s_ in srcs]} if len(rr.samples) < 5 else None)
                if not (srcs[0] == srcs[1] == srcs[2]):
                    rr.add(finding("TRIPLE", fi, node.stmt, f"the cell `{norm(t, 60)}` combines an attribute from {sorted(srcs[0])}, a charset from {sorted(srcs[1])} and text from {sorted(srcs[2])}: part of the bottom row is painted with another cell's attribute / character set", construct=f"mixed cell {norm(t, 60)}"))
    # the number of backspaces returned is the width of the text written last (Z): after Z is written the cursor
    # stands behind it and has to return to where Z starts before Y is inserted
    rets = [n for n in du.cfg.nodes if n.kind == "return" and isinstance(n.ast.value, ast.Tuple) and len(n.ast.value.elts) == 3]
    apps = nodes_where(du.cfg, lambda x: isinstance(x, ast.Call) and isinstance(x.func, ast.Attribute) and x.func.attr == "append" and x.args and isinstance(x.args[0], ast.Tuple) and len(x.args[0].elts) == 3)
    for r in rets:
        if isinstance(r.ast.value.elts[2], ast.Constant) and r.ast.value.elts[2].value is None:
            continue  # nothing is inserted on this path (a row of one character): no back-step either
        last = [a for a in apps if r in du.cfg.reachable([a], avoid=[b for b in apps if b is not a], labels=("n", "T", "F"))]
        ztexts = set()
        for a in last:
            for c in ast.walk(a.ast):
                if isinstance(c, ast.Call) and isinstance(c.func, ast.Attribute) and c.func.attr == "append" and c.args and isinstance(c.args[0], ast.Tuple) and len(c.args[0].elts) == 3:
                    ztexts.add(du.text(c.args[0].elts[2], a))
        back = du.expand(r.ast.value.elts[1], r)
        rr.inst("back-step = width of the text written last", True, {"back": norm(back, 60), "written_last": sorted(ztexts)})
        ok = isinstance(back, ast.Call) and callee_name(back) == "calc_width" and len(back.args) == 3 and len(ztexts) == 1 and ast.unparse(back.args[0]) in ztexts and ast.unparse(back.args[1]) == "0" and ast.unparse(back.args[2]) == f"len({ast.unparse(back.args[0])})"
        if not ok:
            rr.add(finding("TRIPLE", fi, r.stmt, f"the back-step `{norm(r.ast.value.elts[1], 50)}` is not the width of the text written last ({sorted(ztexts)}): when the bottom-right character and its neighbour differ in width (a CJK character next to a narrow one) the neighbour is inserted one column off", construct="back-step not the width of the shifted text"))
    return rr


def rule_cursor(ctx: Ctx) -> RuleResult:
    p = ctx.p
    rr = RuleResult("PASS", "C04.2", "HIDE_CURSOR is the first output of every draw; SHOW_CURSOR is emitted only under `canvas.cursor is not None`", floor=2)
    fi = p.func(f"{RAW}.Screen.draw_screen")
    cfg = cfg_of(fi)
    # the output list, by role: the local iterated by the loop that calls self.write(...)
    outnames = {h.ast.iter.id for h in cfg.nodes if h.kind == "for" and isinstance(h.ast.iter, ast.Name) and any(isinstance(x, ast.Call) and ast.unparse(x.func) == "self.write" for x in ast.walk(h.ast))}
    if not outnames:
        raise AnalysisError("draw_screen: the loop writing the collected output (self.write) was not found")
    init = [n for n in cfg.nodes if isinstance(n.ast, (ast.Assign, ast.AnnAssign)) and isinstance(getattr(n.ast, "value", None), ast.List) and any(isinstance(t, ast.Name) and t.id in outnames for t in (n.ast.targets if isinstance(n.ast, ast.Assign) else [n.ast.target]))]
    rr.inst("first output", True, {"output_initialisation": [norm(n.stmt, 70) for n in init]})
    if len(init) != 1 or not init[0].ast.value.elts or ast.unparse(init[0].ast.value.elts[0]) != "escape.HIDE_CURSOR":
        rr.add(finding("PASS", fi, init[0].stmt if init else fi.node, "the output of a draw does not start with escape.HIDE_CURSOR: the cursor flickers over the cells being repainted / stays visible when the canvas has none", construct="HIDE_CURSOR not first"))
    show = nodes_where(cfg, lambda x: isinstance(x, ast.Attribute) and x.attr == "SHOW_CURSOR")
    tests = [t for t in cfg.nodes if t.kind == "test" and ast.unparse(t.ast) == "canvas.cursor is not None"]
    rr.inst("SHOW_CURSOR guarded", True, {"show_sites": len(show)})
    if not show:
        rr.add(finding("PASS", fi, fi.node, "draw_screen never emits SHOW_CURSOR", construct="no SHOW_CURSOR"))
    for s in show:
        if not tests or s in ExcEngine._reach_without_edge(cfg, tests[0], "T"):
            rr.add(finding("PASS", fi, s.stmt, "SHOW_CURSOR can be emitted on a path where the canvas has no cursor", construct="SHOW_CURSOR not under cursor test"))
    # the position precedes SHOW_CURSOR in the same statement
    for s in show:
        t = ast.unparse(s.ast)
        if "set_cursor_position(" not in t or t.index("set_cursor_position(") > t.index("SHOW_CURSOR"):
            rr.add(finding("PASS", fi, s.stmt, "the cursor is shown before it was moved to the canvas cursor position", construct="SHOW_CURSOR before positioning"))
    return rr


def rule_repaint(ctx: Ctx) -> RuleResult:
    p = ctx.p
    rr = RuleResult("INV", "C04.3", "whatever invalidates the terminal's contents resets screen_buf; draw_screen records it only after the write loop", floor=5)
    scr = p.cls(f"{RAW}.Screen")
    clear = scr.methods.get("clear")
    if clear is None:
        raise AnalysisError("Screen.clear not found")
    ok = any(isinstance(n, ast.Assign) and any(isinstance(t, ast.Attribute) and t.attr == "screen_buf" for t in n.targets) and isinstance(n.value, ast.Constant) and n.value.value is None for n in clear.own_nodes())
    rr.inst("clear", True)
    if not ok:
        rr.add(finding("INV", clear, clear.node, "clear() does not reset screen_buf: the next draw skips rows it believes are still on the terminal", construct="clear without screen_buf reset"))
    # methods that must reach clear() / reset
    for q, why in ((f"{RAW}.Screen.set_terminal_properties", "colour depth / attribute rendering changed"), ("urwid.display._posix_raw_display.Screen._stop", "the alternate buffer is left"), (f"{RAW}.Screen._sigwinch_handler", "the terminal was resized"), (f"{RAW}.Screen._on_update_palette_entry", "the escape sequence an attribute name stands for changed (rows are compared by attribute name)")):
        try:
            fi = p.func(q)
        except AnalysisError:
            rr.notes.append(f"{q} not present")
            continue
        cfg = cfg_of(fi)
        resets = nodes_where(cfg, lambda x: isinstance(x, ast.Call) and ast.unparse(x.func) == "self.clear") + [n for n in cfg.nodes if isinstance(n.ast, ast.Assign) and any(isinstance(t, ast.Attribute) and t.attr == "screen_buf" for t in n.ast.targets) and isinstance(n.ast.value, ast.Constant) and n.ast.value.value is None]
        rr.inst(short(fi), True, {"method": short(fi), "resets": len(resets)})
        if fi.name == "set_terminal_properties":
            stores = [n for n in cfg.nodes if isinstance(n.ast, ast.Assign) and any(isinstance(t, ast.Attribute) and t.attr in ("colors", "fg_bright_is_bold", "has_underline") for t in n.ast.targets)]
            bad = any(cfg.exit in cfg.reachable([s], avoid=resets, labels=("n", "T", "F")) for s in stores)
        else:
            bad = not resets or not cfg.must_pass(cfg.entry, resets, ends=[cfg.exit], labels=("n", "T", "F"))
        if bad:
            rr.add(finding("INV", fi, fi.node, f"{fi.name}() can finish without clear() / `self.screen_buf = None` although {why}: the incremental redraw then skips rows that are no longer on the terminal", construct=f"{fi.name} without forced repaint"))
    ds = p.func(f"{RAW}.Screen.draw_screen")
    cfg = cfg_of(ds)
    writes = nodes_where(cfg, lambda x: isinstance(x, ast.Call) and ast.unparse(x.func) == "self.write")
    rec = [n for n in cfg.nodes if isinstance(n.ast, ast.Assign) and any(isinstance(t, ast.Attribute) and t.attr in ("screen_buf", "_screen_buf_canvas") for t in n.ast.targets)]
    rr.inst("draw_screen records after writing", True, {"write_sites": len(writes), "records": [norm(n.stmt, 40) for n in rec]})
    loops = [h for h in cfg.nodes if h.kind == "for" and any(w in cfg.reachable_from_edges([(h, "T")], avoid=[h]) for w in writes)]
    for r in rec:
        if not loops or not all(r not in cfg.reachable([cfg.entry], avoid=[l], include_start=True) for l in loops):
            rr.add(finding("INV", ds, r.stmt, f"`{norm(r.stmt, 40)}` can be reached without passing the loop that writes the output: a draw that was abandoned is remembered as being on the terminal", construct=f"{norm(r.stmt, 40)} before the write loop"))
    if len(rec) < 2:
        rr.add(finding("INV", ds, ds.node, "draw_screen does not record both screen_buf and _screen_buf_canvas", construct="screen buffer not recorded"))
    # the "same canvas object as last time" shortcut is valid only while the terminal still shows that canvas: clear(),
    # a resize and _stop() announce the opposite by resetting screen_buf - the shortcut has to read it
    shortcuts = [n for n in cfg.nodes if n.kind == "test" and any(isinstance(x, ast.Attribute) and x.attr == "_screen_buf_canvas" for x in ast.walk(n.ast))]
    rr.inst("identity shortcut reads screen_buf", True, {"shortcut_tests": [norm(n.ast, 60) for n in shortcuts]})
    for n in shortcuts:
        own = any(isinstance(x, ast.Attribute) and x.attr == "screen_buf" for x in ast.walk(n.ast))
        dom = any(t.kind == "test" and t is not n and any(isinstance(x, ast.Attribute) and x.attr == "screen_buf" for x in ast.walk(t.ast)) and n not in ExcEngine._reach_without_edge(cfg, t, "T") for t in cfg.nodes)
        if not (own or dom):
            rr.add(finding("INV", ds, n.stmt, f"`{norm(n.ast, 60)}` skips the draw because the canvas object is the one drawn last, without consulting screen_buf: after clear(), a resize or stop/start (which reset screen_buf because the terminal no longer shows that canvas) the same canvas is never repainted", construct="identity shortcut ignores screen_buf"))
    # partial-screen mode moves relatively to the row the terminal cursor was left on (_cy): it has to be recorded on
    # every path that reaches the write loop, with or without a canvas cursor
    cy_stores = [n for n in cfg.nodes if isinstance(n.ast, ast.Assign) and any(isinstance(t, ast.Attribute) and t.attr == "_cy" for t in n.ast.targets)]
    content_heads = [h for h in cfg.nodes if h.kind == "for" and "content" in ast.unparse(h.ast.iter)]
    rr.inst("cursor row recorded on every path", True, {"_cy_stores": [norm(n.stmt, 30) for n in cy_stores]})
    if content_heads and writes:
        after = cfg.reachable_from_edges([(content_heads[0], "F")], avoid=cy_stores)
        if any(w in after for w in writes):
            rr.add(finding("INV", ds, (cy_stores[0].stmt if cy_stores else ds.node), "the output can be written without self._cy being updated (the path for a canvas without a cursor): in partial-screen mode the next draw starts its relative cursor moves from a stale row and paints rows on the wrong lines", construct="_cy not recorded on every path to the write"))
    # a resize signalled while the canvas content was being walked: the output computed for the old size must not be
    # written nor remembered - `self._resized` is tested again after the content loop
    content_loops = [h for h in cfg.nodes if h.kind == "for" and "content" in ast.unparse(h.ast.iter)]
    tests = [n for n in cfg.nodes if n.kind == "test" and "self._resized" in ast.unparse(n.ast)]
    rr.inst("resize re-checked after the content walk", True, {"content_loops": len(content_loops), "_resized_tests": len(tests)})
    if not content_loops:
        raise AnalysisError("draw_screen: the loop over canvas.content() was not found")
    for h in content_loops:
        after = cfg.reachable_from_edges([(h, "F")], avoid=tests)
        hit = [w for w in writes + rec if w in after]
        if hit:
            rr.add(finding("INV", ds, hit[0].stmt, f"`{norm(hit[0].stmt, 40)}` is reached after the walk over canvas.content() without `self._resized` being tested again: a SIGWINCH delivered during the walk lets output computed for the old size be written to the resized terminal and remembered in screen_buf", construct="no _resized test between the content walk and the write"))
            break
    # ... and a resize signalled *while writing*: the handler reset screen_buf; the record after the write loop must
    # not overwrite that reset - `self._resized` is tested once more between the last write and the record
    rr.inst("resize re-checked between the write and the record", True, {"writes": len(writes), "records": len(rec)})
    for w in writes:
        after = cfg.reachable([w], avoid=tests, labels=("n", "T", "F", "e"))
        hit = [r_ for r_ in rec if r_ in after]
        if hit:
            rr.add(finding("INV", ds, hit[0].stmt, f"`{norm(hit[0].stmt, 40)}` follows the write loop without `self._resized` being tested in between: a SIGWINCH delivered while the output is written resets screen_buf in the handler, and this store puts the buffer of the old size back - the next draw is a diff against a screen the terminal no longer shows", construct="no _resized test between the write and the screen_buf record"))
            break
    return rr


def rule_charset_first(ctx: Ctx) -> RuleResult:
    p = ctx.p
    rr = RuleResult("SENTINEL", "C04.4", "the charset-switch test does not rely on the None sentinel of last_charset_flag alone: a first-run flag re-establishes the terminal's shift state in every draw", floor=1)
    fi = p.func(f"{RAW}.Screen.draw_screen")
    cfg = cfg_of(fi)
    du = DefUse(fi)
    # by role: `cs` is the charset element (2nd) of the per-cell loop target; the state variable is whatever local
    # is compared != with it
    loops = [h for h in cfg.nodes if h.kind == "for" and isinstance(h.ast.target, ast.Tuple) and len(h.ast.target.elts) == 3 and isinstance(h.ast.iter, ast.Name)]
    csnames = {h.ast.target.elts[1].id for h in loops if isinstance(h.ast.target.elts[1], ast.Name)}
    tests = []
    state = None
    for t in cfg.nodes:
        if t.kind != "test":
            continue
        for c in ast.walk(t.ast):
            if isinstance(c, ast.Compare) and len(c.ops) == 1 and isinstance(c.ops[0], ast.NotEq) and isinstance(c.left, ast.Name) and isinstance(c.comparators[0], ast.Name):
                pair = {c.left.id, c.comparators[0].id}
                if pair & csnames and len(pair) == 2:
                    tests.append(t)
                    state = (pair - csnames).pop() if (pair - csnames) else None
    if not tests or state is None:
        raise AnalysisError("draw_screen: the test comparing the remembered charset with the cell's charset was not found")
    cs = next(iter(csnames))
    for t in tests:
        init = [v for dn, v, how in du.defs.get(state, []) if isinstance(v, ast.Constant)]
        legit_none = any(isinstance(c, ast.Compare) and isinstance(c.left, ast.Name) and c.left.id in csnames and isinstance(c.ops[0], (ast.Is, ast.In)) and "None" in ast.unparse(c.comparators[0]) for c in ast.walk(fi.node))
        rr.inst(norm(t.stmt, 60), True, {"test": norm(t.stmt, 80), "sentinel_initialised_to": [repr(v.value) for v in init], "None_is_a_legitimate_charset": legit_none})
        if not (init and init[0].value is None and legit_none):
            continue
        # a disjunct that is a boolean flag: True before the loop, False after the first run
        flags = []
        for b in ast.walk(t.ast):
            if isinstance(b, ast.BoolOp) and isinstance(b.op, ast.Or):
                for v in b.values:
                    if isinstance(v, ast.Name):
                        ds = [x for dn, x, how in du.defs.get(v.id, []) if isinstance(x, ast.Constant) and isinstance(x.value, bool)]
                        if {d.value for d in ds} == {True, False} and len(ds) == len(du.defs.get(v.id, [])):
                            flags.append(v.id)
        if not flags:
            rr.add(finding("SENTINEL", fi, t.stmt, f"`{norm(t.ast, 70)}` decides whether to send SI/SO from last_charset_flag alone; it starts as None in every call, and None is also the value of cs for the normal character set, so the first run of a draw sends no shift when it is a normal-charset run - the terminal keeps the shift state the previous draw ended in (text shown as line-drawing glyphs)", construct="charset switch relies on the None sentinel"))
        else:
            # the flag is cleared only after a run was emitted
            rr.inst(f"first-run flag {flags[0]}", True)
    return rr


def rule_html(ctx: Ctx) -> RuleResult:
    p = ctx.p
    rr = RuleResult("TAINT", "C04.5", "canvas text reaches an HTML fragment only through html.escape", floor=2)
    hs = p.func(f"{HTML}.html_span")
    sp = p.local_def(hs, "_span")
    if sp is None:
        raise AnalysisError("html_span._span not found")
    strs = [n for n in sp.own_nodes() if isinstance(n, ast.JoinedStr)]
    text_params = set(sp.params) - {"fg", "bg"}
    rr.inst("_span interpolation", True, {"text_parameters": sorted(text_params)})
    for js in strs:
        for v in js.values:
            if isinstance(v, ast.FormattedValue):
                names = {x.id for x in ast.walk(v.value) if isinstance(x, ast.Name)}
                if names & (text_params | {hs.params[0]}):
                    ok = isinstance(v.value, ast.Call) and ast.unparse(v.value.func) in ("html.escape", "html_escape", "escape")
                    if not ok:
                        rr.add(finding("TAINT", sp, js, f"`{norm(v.value, 40)}` (canvas text) is interpolated into the fragment without html.escape: '<', '&' in the text become markup", construct=f"unescaped text {norm(v.value, 40)}"))
    # every return of html_span is built from _span(...) calls only
    for r in [n for n in hs.own_nodes() if isinstance(n, ast.Return)]:
        rr.inst(f"html_span:{norm(r, 40)}", True)
        leaves = []

        def flat(e):
            if isinstance(e, ast.BinOp) and isinstance(e.op, ast.Add):
                flat(e.left)
                flat(e.right)
            else:
                leaves.append(e)

        flat(r.value)
        for l in leaves:
            if not (isinstance(l, ast.Call) and callee_name(l) == "_span"):
                rr.add(finding("TAINT", hs, r, f"html_span returns `{norm(l, 40)}`, which does not come from _span() (the escaping wrapper)", construct=f"html_span returns {norm(l, 40)}"))
    # draw_screen appends only html_span results and "\n"
    dr = p.func(f"{HTML}.HtmlGenerator.draw_screen")
    for c in dr.own_nodes():
        if isinstance(c, ast.Call) and isinstance(c.func, ast.Attribute) and c.func.attr == "append" and ast.unparse(c.func.value) == "lines" and c.args:
            a = c.args[0]
            rr.inst(f"draw_screen:{norm(c, 40)}", True)
            if not ((isinstance(a, ast.Call) and callee_name(a) == "html_span") or isinstance(a, ast.Constant)):
                rr.add(finding("TAINT", dr, c, f"`{norm(c, 50)}` adds text to the fragment that did not pass html_span()", construct=f"unescaped append {norm(c, 50)}"))
    return rr


def rule_html_cursor_columns(ctx: Ctx) -> RuleResult:
    """The HTML back-end finds the cursor cell by comparing the canvas cursor column with a running column: every
    quantity that is added to / compared with it is a screen-column count (calc_width), never a character count
    (len) - the two differ for double-width and zero-width characters."""
    p = ctx.p
    rr = RuleResult("KIND", "C04.10", "html draw_screen: what is added to / compared with the cursor column is measured in screen columns (calc_width), not characters", floor=3)
    dr = p.func(f"{HTML}.HtmlGenerator.draw_screen")
    du = DefUse(dr)
    cx = None
    for n in dr.own_nodes():
        if isinstance(n, ast.Assign) and isinstance(n.targets[0], ast.Tuple) and len(n.targets[0].elts) == 2 and isinstance(n.value, ast.Attribute) and n.value.attr == "cursor" and isinstance(n.targets[0].elts[0], ast.Name):
            cx = n.targets[0].elts[0].id
    if cx is None:
        raise AnalysisError("html draw_screen: the unpacking of canvas.cursor was not found")

    def colkind(e, at, depth=0, seen=None):
        """None when e is a column quantity, else the offending sub-expression"""
        seen = seen if seen is not None else set()
        if depth > 8:
            return None
        if isinstance(e, ast.Constant):
            return None
        if isinstance(e, ast.Name):
            if e.id == cx:
                return None
            for v, how, dn in du.reaching(e.id, at):
                if (e.id, dn.id) in seen:
                    continue
                seen.add((e.id, dn.id))
                if how == "aug" or isinstance(getattr(dn, "ast", None), ast.AugAssign):
                    v = dn.ast.value
                if not isinstance(v, ast.AST):
                    return e
                bad = colkind(v, dn, depth + 1, seen)
                if bad is not None:
                    return bad
            return None
        if isinstance(e, ast.BinOp) and isinstance(e.op, (ast.Add, ast.Sub)):
            return colkind(e.left, at, depth + 1, seen) or colkind(e.right, at, depth + 1, seen)
        if isinstance(e, ast.Call) and callee_name(e) == "calc_width":
            return None
        return e

    cfg = du.cfg
    for node in cfg.nodes:
        if node.ast is None or node.kind in ("for", "with", "handler"):
            continue
        for c in walk_no_nested(node.ast):
            ops = []
            if isinstance(c, ast.Compare) and any(isinstance(x, ast.Name) and x.id == cx for x in ast.walk(c)) and not any(isinstance(o, (ast.Is, ast.IsNot)) for o in c.ops):
                ops = [c.left, *c.comparators]
            elif isinstance(c, ast.BinOp) and isinstance(c.op, (ast.Add, ast.Sub)) and any(isinstance(x, ast.Name) and x.id == cx for x in (c.left, c.right)):
                ops = [c.left, c.right]
            for o in ops:
                rr.inst(f"{norm(c, 40)}:{norm(o, 20)}", True, {"expression": norm(c, 50)} if len(rr.samples) < 4 else None)
                bad = colkind(o, node)
                if bad is not None:
                    rr.add(finding("KIND", dr, node.stmt, f"`{norm(c, 50)}` relates the cursor column to `{norm(bad, 40)}`, which is not a screen-column count (calc_width): with double-width or zero-width characters before the cursor the highlighted cell is the wrong one", construct=f"cursor column vs {norm(bad, 40)}"))
    return rr


# style flags whose SGR changes only how a glyph is drawn: a blank cell looks the same with and without them
_INVISIBLE_ON_BLANK = {"bold": "glyph weight only", "italics": "glyph slant only", "blink": "nothing to blink on a blank cell"}


def rule_erase_shortcut(ctx: Ctx) -> RuleResult:
    """Trailing blanks of a row are replaced by erase-in-line (ESC[K), which fills with the background colour and
    nothing else.  That equals painting the blanks only when the row's attribute draws nothing on a blank cell:
    the test that enables the shortcut must exclude every style flag _attrspec_to_escape() can emit, except the
    ones that only change how a glyph looks (table above).  The flag set is read from _attrspec_to_escape()."""
    p = ctx.p
    rr = RuleResult("TAB", "C04.12", "the erase-to-end-of-line shortcut is disabled for every style that is drawn on blank cells (all style flags of _attrspec_to_escape except glyph-only ones); its helpers resolve an AttrSpec object to itself", floor=3)
    ds = p.func("urwid.display._raw_display_base.Screen.draw_screen")
    esc = p.func("urwid.display._raw_display_base.Screen._attrspec_to_escape")
    prm = [x for x in esc.params if x != esc.self_name][0]
    flags = set()
    for n in esc.own_nodes():
        if isinstance(n, ast.BinOp) and isinstance(n.op, ast.Mult):
            for side in (n.left, n.right):
                if isinstance(side, ast.Attribute) and isinstance(side.value, ast.Name) and side.value.id == prm:
                    flags.add(side.attr)
    if len(flags) < 4:
        raise AnalysisError("_attrspec_to_escape: the style flags (`\"1;\" * a.bold` ...) were not found")
    need = flags - set(_INVISIBLE_ON_BLANK)
    rr.inst("style flags", True, {"emitted_by__attrspec_to_escape": sorted(flags), "glyph_only": _INVISIBLE_ON_BLANK, "must_disable_the_shortcut": sorted(need)})
    cfg = cfg_of(ds)
    stores = [n for n in cfg.nodes if isinstance(n.ast, ast.Assign) and any(isinstance(t, ast.Name) and t.id == "whitespace_at_end" for t in n.ast.targets) and isinstance(n.ast.value, ast.Constant) and n.ast.value.value is True]
    if not stores:
        # role-based: the store that is tested before ERASE_IN_LINE_RIGHT is appended
        names = {t.ast.id for t in cfg.nodes if t.kind == "test" and isinstance(t.ast, ast.Name) and any("ERASE_IN_LINE_RIGHT" in ast.unparse(x.ast) for x in cfg.reachable_from_edges([(t, "T")]) if x.ast is not None)}
        stores = [n for n in cfg.nodes if isinstance(n.ast, ast.Assign) and any(isinstance(t, ast.Name) and t.id in names for t in n.ast.targets) and isinstance(n.ast.value, ast.Constant) and n.ast.value.value is True]
    if not stores:
        raise AnalysisError("draw_screen: the store that enables the erase-in-line shortcut was not found")
    nested = {f.name: f for f in p.functions.values() if getattr(f, "parent", None) is ds}
    for st in stores:
        tests = [t for t in cfg.nodes if t.kind == "test" and st not in ExcEngine._reach_without_edge(cfg, t, "T")]
        read = set()
        for t in tests:
            for c in ast.walk(t.ast):
                if isinstance(c, ast.Call) and isinstance(c.func, ast.Name) and c.func.id in nested:
                    g = nested[c.func.id]
                    read |= {a.attr for a in g.own_nodes() if isinstance(a, ast.Attribute)}
                elif isinstance(c, ast.Attribute):
                    read.add(c.attr)
        rr.inst("shortcut guard", True, {"guard": [norm(t.ast, 90) for t in tests], "flags_tested": sorted(read & flags)})
        # the helpers of the guard resolve the canvas attribute like attr_to_escape() does: a palette name through the
        # palette, an AttrSpec object used directly *as itself* - a lookup `table.get(a, <default>)` must fall back on
        # `a`, not on another entry (the object would be taken for plain and its underline / standout erased)
        for t in tests:
            for c in ast.walk(t.ast):
                if not (isinstance(c, ast.Call) and isinstance(c.func, ast.Name) and c.func.id in nested):
                    continue
                g = nested[c.func.id]
                gp = g.params[0] if g.params else None
                for lk in [x for x in g.own_nodes() if isinstance(x, ast.Call) and isinstance(x.func, ast.Attribute) and x.func.attr == "get" and "_pal_" in ast.unparse(x.func.value) and x.args and isinstance(x.args[0], ast.Name) and x.args[0].id == gp]:
                    dflt = lk.args[1] if len(lk.args) > 1 else None
                    same = isinstance(dflt, ast.Name) and dflt.id == gp
                    rr.inst(f"{g.name}: attribute objects resolve to themselves", True, {"lookup": norm(lk, 70), "falls_back_on_the_attribute_itself": same})
                    if not same:
                        rr.add(finding("TAB", g, lk, f"`{norm(lk, 70)}` resolves an attribute that is not a palette name to `{ast.unparse(dflt) if dflt is not None else None}` instead of to itself: an AttrSpec object used directly as canvas attribute (attr_to_escape() draws it as such) is taken for plain here, the trailing blanks of an underlined / standout run are replaced by ESC[K and lose the decoration", construct=f"{g.name}: AttrSpec object not resolved to itself"))
        for f in sorted(need - read):
            rr.add(finding("TAB", ds, st.stmt, f"the erase-to-end-of-line shortcut is taken for attributes with `{f}` set: ESC[K fills the trailing blanks with the background colour only, so the {f} decoration the canvas shows on those cells is missing from the terminal (a full repaint would draw it)", construct=f"erase shortcut not disabled for {f}"))
    return rr


def rule_rendition_model(ctx: Ctx, clause: str = "C04.13") -> RuleResult:
    """draw_screen() keeps a local model of the terminal's current rendition (`last_attributes`): an SGR sequence
    is sent only when the next run's attribute differs from the model.  The model is only right if every value it
    is given was actually sent: each assignment `model = X` comes with an unconditional emission of
    attr_to_escape(X) - in the same statement sequence for the per-run update, and before the row loop for the
    initial value.  An initial value that is assumed but sent only on some paths (only on a full repaint) leaves
    the terminal in whatever rendition the previous frame ended with: the first default-attribute run of the next
    incremental frame is painted with a neighbour's colours."""
    p = ctx.p
    rr = RuleResult("PAIR", clause, "every value given to draw_screen's model of the terminal's rendition is also sent (attr_to_escape) on every path to the next use", floor=2)
    fi = p.func(f"{RAW}.Screen.draw_screen")
    cfg = cfg_of(fi)
    # the model, by role: the local compared (!=) with the run attribute right before attr_to_escape() of that attribute
    models = set()
    for t in cfg.nodes:
        if t.kind == "test" and isinstance(t.ast, ast.Compare) and len(t.ast.ops) == 1 and isinstance(t.ast.ops[0], ast.NotEq) and isinstance(t.ast.left, ast.Name) and isinstance(t.ast.comparators[0], ast.Name):
            body = t.stmt.body if isinstance(t.stmt, ast.If) else []
            if any(isinstance(c, ast.Call) and isinstance(c.func, ast.Name) and c.func.id == "attr_to_escape" for b in body for c in ast.walk(b)):
                models.add(t.ast.left.id)
    if not models:
        raise AnalysisError("draw_screen: the rendition model (`if last_attributes != a: output.append(attr_to_escape(a))`) was not found")
    uses = [t for t in cfg.nodes if t.kind == "test" and isinstance(t.ast, ast.Compare) and isinstance(t.ast.left, ast.Name) and t.ast.left.id in models]
    for m in sorted(models):
        for d in [n for n in cfg.nodes if isinstance(n.ast, ast.Assign) and any(isinstance(x, ast.Name) and x.id == m for x in n.ast.targets)]:
            val = ast.unparse(d.ast.value)
            emits = [n for n in cfg.nodes if n.ast is not None and n.kind not in ("for", "with", "handler", "test") and any(isinstance(c, ast.Call) and isinstance(c.func, ast.Name) and c.func.id == "attr_to_escape" and c.args and ast.unparse(c.args[0]) in (m, val) for c in ast.walk(n.ast))]
            # sent before the assignment (same branch) or on every path from it to the next comparison with the model
            before = [e for e in emits if cfg.dominated(d, [e]) and not any(d in cfg.reachable([x]) and x in cfg.reachable([e]) for x in uses if x is not d) ]
            ok = False
            if any(cfg.dominated(d, [e]) for e in emits) and isinstance(d.ast.value, ast.Name):
                # per-run update: `output.append(attr_to_escape(a)); last_attributes = a` under the same test
                ok = any(cfg.dominated(d, [e]) and ast.unparse(c.args[0]) == val for e in emits for c in ast.walk(e.ast) if isinstance(c, ast.Call) and isinstance(c.func, ast.Name) and c.func.id == "attr_to_escape" and c.args)
            if not ok:
                r = cfg.reachable([d], avoid=emits, labels=("n", "T", "F"))
                ok = bool(emits) and not any(u in r for u in uses)
            rr.inst(f"{m} = {val}", True, {"model": m, "assignment": norm(d.stmt, 50), "sent_on_every_path": ok})
            if not ok:
                rr.add(finding("PAIR", fi, d.stmt, f"`{norm(d.stmt, 50)}` gives the model of the terminal's rendition a value that is not sent with attr_to_escape() on every path to the next comparison with it: on an incremental frame the terminal is still in the rendition of the last run of the previous frame, the model says `{val}`, and the first run with that attribute is painted without an SGR sequence - in a neighbouring run's colours", construct=f"rendition model {m} = {val} not always sent"))
    return rr


def rule_last_row_neighbour(ctx: Ctx) -> RuleResult:
    """_last_row() needs the *second to last* cell of the row when the last one is a single character (`row[-2]`,
    `del new_row[-1]` on `row[:-1]`).  A row that consists of exactly one character - a double-width character on a
    two-column screen - has none: these accesses have to be dominated by a test of len(row)."""
    p = ctx.p
    rr = RuleResult("GUARD", "C04.14", "_last_row reads the second-to-last cell of the row only under a test of len(row)", floor=1)
    fi = p.func(f"{RAW}.Screen._last_row")
    cfg = cfg_of(fi)
    prm = fi.params[1]
    uses = nodes_where(cfg, lambda x: isinstance(x, ast.Subscript) and isinstance(x.value, ast.Name) and x.value.id == prm and isinstance(x.slice, ast.UnaryOp) and isinstance(x.slice.operand, ast.Constant) and x.slice.operand.value == 2)
    tests = [t for t in cfg.nodes if t.kind == "test" and f"len({prm})" in ast.unparse(t.ast)]
    if not uses:
        raise AnalysisError("_last_row: the access to row[-2] was not found")
    for u in uses:
        ok = bool(tests) and cfg.dominated(u, tests)
        rr.inst(norm(u.stmt, 50), True, {"access": norm(u.stmt, 60), "length_tests": [norm(t.ast, 30) for t in tests]})
        if not ok:
            rr.add(finding("GUARD", fi, u.stmt, f"`{norm(u.stmt, 50)}` takes the neighbour of the last cell without a test that the row has one: a bottom row that consists of a single character (a double-width character on a two-column screen) raises IndexError out of draw_screen() and nothing is painted", construct="row[-2] without a length test"))
    return rr


def rule_cell_components(ctx: Ctx) -> RuleResult:
    """A canvas row is a list of (attribute, charset flag, text) runs.  The charset flag says how the bytes are to be
    read: with "0" they are the alias letters of DEC line-drawing characters.  A back-end that drops the flag while
    it still emits the text shows `q` for `─`.  Every draw_screen() implementation reads all three components of
    the runs it iterates."""
    p = ctx.p
    rr = RuleResult("TRIPLE", "C04.15", "every draw_screen implementation reads the attribute, the charset flag and the text of each run", floor=2)
    for q in (f"{RAW}.Screen.draw_screen", f"{HTML}.HtmlGenerator.draw_screen"):
        fi = p.func(q)
        loops = [n for n in fi.own_nodes() if isinstance(n, ast.For) and isinstance(n.target, ast.Tuple) and len(n.target.elts) == 3 and all(isinstance(e, ast.Name) for e in n.target.elts) and isinstance(n.iter, ast.Name)]
        if not loops:
            raise AnalysisError(f"{q}: the loop over the runs of a row (`for a, cs, run in row`) was not found")
        for lp in loops:
            names = [e.id for e in lp.target.elts]
            read = {x.id for b in lp.body for x in ast.walk(b) if isinstance(x, ast.Name) and isinstance(x.ctx, ast.Load)}
            missing = [("attribute", "charset flag", "text")[i] for i, nm in enumerate(names) if nm not in read]
            rr.inst(f"{short(fi)}: for {', '.join(names)} in {norm(lp.iter, 20)}", True, {"function": short(fi), "components": names, "unread": missing})
            if missing:
                rr.add(finding("TRIPLE", fi, lp, f"`for {', '.join(names)} in {norm(lp.iter, 20)}` never reads the {' / '.join(missing)} of the runs it draws: a run flagged \"0\" (DEC special characters, e.g. line drawing in a non-UTF-8 encoding) is emitted as its alias letters", construct=f"run component not read: {' / '.join(missing)}"))
    return rr


def rule_cell_text_filtered(ctx: Ctx) -> RuleResult:
    """Canvas text is data, the terminal takes bytes below 0x20 as commands: draw_screen() replaces them
    (`.translate(UNPRINTABLE_TRANS_TABLE)`) unless the cell uses the IBM PC character set, where they are glyphs.  The
    text of a cell reaches the output at two places - the run loop and the insert-mode block that writes the cell
    left of the bottom-right corner - and both have to filter: every `.decode(encoding ..)` of cell text whose result
    is sent is preceded, on the non-"U" side, by the translate of that same variable (before fix 8553a8b the inserted
    cell was sent raw: an ESC in the text of the last row was executed by the terminal)."""
    p = ctx.p
    rr = RuleResult("TAINT", "C04.16", "every piece of cell text draw_screen decodes for output went through UNPRINTABLE_TRANS_TABLE (unless its charset is 'U')", floor=2)
    for q in ("urwid.display._raw_display_base.Screen.draw_screen", "urwid.display.curses.Screen.draw_screen"):
        if q not in p.functions:
            continue
        fi = p.functions[q]
        cfg = cfg_of(fi)
        # cell text: the text component of a (attr, charset, text) triple - a `for a, cs, X in ...` target or an
        # unpacking `(a, cs, X) = ...` - decoded with the target encoding
        triples = set()
        for n in fi.own_nodes():
            tg = None
            if isinstance(n, ast.For):
                tg = n.target
            elif isinstance(n, ast.Assign) and len(n.targets) == 1:
                tg = n.targets[0]
            if isinstance(tg, ast.Tuple) and len(tg.elts) == 3 and all(isinstance(e, ast.Name) for e in tg.elts):
                triples.add(tg.elts[2].id)
        decs = [c for c in fi.own_nodes() if isinstance(c, ast.Call) and isinstance(c.func, ast.Attribute) and c.func.attr == "decode" and isinstance(c.func.value, ast.Name) and c.func.value.id in triples]
        for c in decs:
            nm = c.func.value.id
            cn = next((x for x in cfg.nodes if any(y is c for e in node_exprs(x) for y in ast.walk(e))), None)
            trans = [x for x in cfg.nodes if isinstance(x.ast, ast.Assign) and any(isinstance(t, ast.Name) and t.id == nm for t in x.ast.targets) and isinstance(x.ast.value, ast.Call) and isinstance(x.ast.value.func, ast.Attribute) and x.ast.value.func.attr == "translate" and isinstance(x.ast.value.func.value, ast.Name) and x.ast.value.func.value.id == nm and "UNPRINTABLE" in ast.unparse(x.ast.value)]
            # the translate is skipped only under a test that mentions "U"
            ok = False
            if cn is not None and trans:
                r = cfg.reachable([cfg.entry], avoid=trans, include_start=True)
                if cn not in r:
                    ok = True
                else:
                    # reachable without translate: every such path must take the `== "U"` side of a charset test
                    tests = [t for t in cfg.nodes if t.kind == "test" and any(isinstance(k, ast.Constant) and k.value == "U" for k in ast.walk(t.ast)) and any(tr not in ExcEngine._reach_without_edge(cfg, t, lab) for tr in trans for lab in ("T", "F"))]
                    ok = bool(tests)
            rr.inst(f"{short(fi)}: {norm(c, 40)}", True, {"decode": norm(c, 50), "filtered": ok})
            if not ok:
                rr.add(finding("TAINT", fi, c, f"`{norm(c, 50)}` turns the text of a canvas cell into output without `{nm}.translate(UNPRINTABLE_TRANS_TABLE)` before it: control characters in the text (ESC, CSI introducers, BEL ...) are executed by the terminal instead of being shown as '?' - the run loop filters them, this place does not", construct=f"cell text {nm} decoded without the control-character filter"))
    return rr


def rule_font_off_at_end(ctx: Ctx) -> RuleResult:
    """The IBM PC character set is switched on with SGR 11 and has to be switched off with SGR 10 (SGR 0 does not do
    it on the Linux console).  Every draw starts from 'charset unknown' (last_charset_flag = None) and then only sends
    SI / SO for a normal run - so a draw must not *end* with the PC font on: after the row loop a test of
    last_charset_flag == "U" appends IBMPC_OFF on the way to the output being written."""
    p = ctx.p
    rr = RuleResult("PAIR", "C04.17", "a draw that ends with the IBM PC font on switches it off (IBMPC_OFF under last_charset_flag == 'U' after the row loop)", floor=1)
    fi = p.func("urwid.display._raw_display_base.Screen.draw_screen")
    cfg = cfg_of(fi)
    ons = nodes_where(cfg, lambda c: isinstance(c, ast.Attribute) and c.attr == "IBMPC_ON")
    if not ons:
        raise AnalysisError("draw_screen: IBMPC_ON is no longer emitted")
    loops = [h for h in cfg.nodes if h.kind == "for" and "content" in ast.unparse(h.ast.iter)]
    if not loops:
        raise AnalysisError("draw_screen: the loop over canvas.content() was not found")
    h = loops[0]
    after = cfg.reachable_from_edges([(h, "F")])
    offs = [n for n in after if n.ast is not None and any(isinstance(x, ast.Attribute) and x.attr == "IBMPC_OFF" for x in ast.walk(n.ast)) and not any(y is n.ast or y is getattr(n, "stmt", None) for y in ast.walk(h.ast))]
    guarded = [n for n in offs if any(t.kind == "test" and any(isinstance(k, ast.Constant) and k.value == "U" for k in ast.walk(t.ast)) and n not in ExcEngine._reach_without_edge(cfg, t, "T") for t in cfg.nodes)]
    rr.inst("font off after the row loop", True, {"IBMPC_OFF_after_loop": [norm(n.stmt, 50) for n in guarded]})
    if not guarded:
        rr.add(finding("PAIR", fi, h.ast, "after the row loop nothing switches the IBM PC font off when the last run drawn used it: the next draw starts with the charset 'unknown', sends only SI for its first normal run and the text appears in the PC font (SGR 11 still on)", construct="draw can end with the IBM PC font on"))
    return rr


def rule_strip_what_was_tested(ctx: Ctx) -> RuleResult:
    """The erase-to-end-of-line shortcut replaces the trailing *blanks* of a row by ESC[K.  It is enabled by a test of
    the run's last byte (`run[-1:] == b" "`); what is then cut off has to be exactly that byte: `run.rstrip(b" ")`.
    A bare `rstrip()` also removes \\t \\n \\v \\f \\r - bytes that a narrow encoding paints as one-column '?' cells
    - so the terminal shows blanks where the canvas has '?' (on full and incremental draws alike)."""
    p = ctx.p
    rr = RuleResult("SIB", "C04.18", "the erase shortcut strips exactly the byte its enabling test found at the end of the run (rstrip(b' ') under `run[-1:] == b' '`)", floor=1)
    fi = p.func("urwid.display._raw_display_base.Screen.draw_screen")
    for t in [n for n in fi.own_nodes() if isinstance(n, ast.If)]:
        tails = [c for c in ast.walk(t.test) if isinstance(c, ast.Compare) and len(c.ops) == 1 and isinstance(c.ops[0], ast.Eq) and isinstance(c.left, ast.Subscript) and isinstance(c.left.slice, ast.Slice) and isinstance(c.comparators[0], ast.Constant) and isinstance(c.comparators[0].value, bytes)]
        for c in tails:
            what = c.comparators[0].value
            var = ast.unparse(c.left.value)
            for st in [x for b in t.body for x in ast.walk(b) if isinstance(x, ast.Call) and isinstance(x.func, ast.Attribute) and x.func.attr in ("rstrip", "strip", "lstrip") and ast.unparse(x.func.value) == var]:
                arg = st.args[0].value if st.args and isinstance(st.args[0], ast.Constant) else None
                ok = st.func.attr == "rstrip" and arg == what
                rr.inst(f"{norm(c, 40)} -> {norm(st, 30)}", True, {"test": norm(c, 50), "strip": norm(st, 40), "same_byte": ok})
                if not ok:
                    rr.add(finding("SIB", fi, st, f"`{norm(st, 40)}` removes more than the {what!r} that `{norm(c, 40)}` established at the end of the run: control-whitespace bytes in front of the trailing blanks (\\t, \\r ... - one-column '?' cells in a narrow encoding) are dropped and erased to blanks, the terminal no longer shows what the canvas contains", construct=f"strip {norm(st, 30)} does not match the tested byte"))
    return rr


def rule_rows_used_mark(ctx: Ctx) -> RuleResult:
    """Partial-screen mode (no alternate buffer): rows below the lowest row painted so far are left off the display
    while they are blank.  `self._rows_used` is that lowest painted row - it is stored as `self._rows_used = y + k`
    for the row index y just painted.  A blank row may be skipped (`continue`: recorded in the new screen buffer but
    not written) only if it lies *beyond* the painted rows: the tests on the way to the `continue` entail
    y - self._rows_used + k > 0.  With `>=` for k = 0 the lowest painted row itself is skipped when it turns blank:
    the buffer says blank, the terminal keeps the old text for good (seed C04-r8b)."""
    from ..rules.runpos import _atoms, _entails_positive
    from ..rules.util import lin_str, linear

    p = ctx.p
    rr = RuleResult("GUARD", "C04.20", "a blank row is left off the partial display only where it is shown to lie beyond the lowest row painted so far", floor=1)
    fi = p.func("urwid.display._raw_display_base.Screen.draw_screen")
    cfg = cfg_of(fi)
    stores = [n for n in cfg.nodes if isinstance(n.ast, ast.Assign) and any(isinstance(t, ast.Attribute) and t.attr == "_rows_used" for t in n.ast.targets)]
    if not stores:
        raise AnalysisError("draw_screen: no store to self._rows_used found")
    for st in stores:
        L = linear(st.ast.value)
        if L is None or len([k for k in L if k]) != 1:
            continue
        y = next(k for k in L if k)
        k = L.get("", 0)
        mark = ast.unparse(st.ast.targets[0])
        # the skips: `continue` statements control-dependent on a test that reads the mark
        for cn in cfg.nodes:
            if not isinstance(cn.ast, ast.Continue):
                continue
            dom = []
            reads_mark = False
            for t in cfg.nodes:
                if t.kind != "test":
                    continue
                for lab, truth in (("T", True), ("F", False)):
                    if cn not in ExcEngine._reach_without_edge(cfg, t, lab):
                        dom += _atoms(t.ast, truth)
                        if "_rows_used" in ast.unparse(t.ast):
                            reads_mark = True
            if not reads_mark:
                continue
            goal = {y: 1, mark: -1}
            if k:
                goal[""] = k
            ok = _entails_positive(goal, dom)
            rr.inst(f"skip under {mark}", True, {"mark_store": norm(st.ast, 40), "needs": f"{lin_str(goal)} > 0", "known": [f"{lin_str(e)} {o} 0" for e, o in dom if mark in e], "shown": ok})
            if not ok:
                rr.add(finding("GUARD", fi, cn.ast, f"a blank row is skipped (`continue`) although the tests on the way do not show `{lin_str(goal)} > 0`: `{norm(st.ast, 40)}` makes {mark} the index of the lowest painted row, so a row equal to it is on the display - when it turns blank it is recorded as blank but never erased on the terminal", construct="blank row skipped inside the painted rows"))
    return rr


def rule_one_utf8_spelling(ctx: Ctx) -> RuleResult:
    """draw_screen() decides 'no SI / SO / IBM-PC switching in UTF-8' by comparing util.get_encoding() with the
    literal 'utf-8'.  set_encoding() accepts several spellings for that family (`encoding in {...}` on the arm that
    selects the utf8 byte mode), so the arm has to store the one spelling the consumers compare with: it rebinds the
    name that ends up in _target_encoding to that literal.  Before fix 7c379d4 set_encoding('utf8') made
    get_encoding() answer 'utf8' and every row of a UTF-8 screen began with a shift-in byte."""
    p = ctx.p
    rr = RuleResult("TAB", "C04.19", "set_encoding() stores, for every accepted UTF-8 spelling, the literal that the display modules compare get_encoding() with", floor=2)
    # consumers: literals compared with get_encoding() (directly or through a local)
    consumers = {}
    for fi in p.functions.values():
        if fi.is_lambda or not fi.module.name.startswith("urwid.display"):
            continue
        du = None
        for n in fi.own_nodes():
            if not (isinstance(n, ast.Compare) and len(n.ops) == 1 and isinstance(n.ops[0], (ast.Eq, ast.NotEq)) and isinstance(n.comparators[0], ast.Constant) and isinstance(n.comparators[0].value, str)):
                continue
            du = du or DefUse(fi)
            at = du.node_of(n)
            txt = ast.unparse(du.expand(n.left, at)) if at is not None else ast.unparse(n.left)
            if txt.endswith("get_encoding()"):
                consumers.setdefault(n.comparators[0].value, []).append(f"{short(fi)}: {norm(n, 40)}")
    se = p.func("urwid.util.set_encoding")
    cfg = cfg_of(se)
    prm = se.params[0]
    arms = []
    for t in cfg.nodes:
        if t.kind == "test" and isinstance(t.ast, ast.Compare) and isinstance(t.ast.ops[0], ast.In) and isinstance(t.ast.comparators[0], (ast.Set, ast.Tuple, ast.List)):
            lits = {e.value for e in t.ast.comparators[0].elts if isinstance(e, ast.Constant)}
            arms.append((t, lits))
    if not arms or not consumers:
        raise AnalysisError(f"set_encoding: membership arms ({len(arms)}) / get_encoding() comparisons in the display modules ({len(consumers)}) not found")
    for lit, sites in sorted(consumers.items()):
        for t, lits in arms:
            if lit not in lits:
                continue
            others = sorted(lits - {lit})
            stores = [n for n in cfg.nodes if isinstance(n.ast, ast.Assign) and any(isinstance(x, ast.Name) and x.id == prm for x in n.ast.targets) and isinstance(n.ast.value, ast.Constant) and n.ast.value.value == lit and n not in ExcEngine._reach_without_edge(cfg, t, "T")]
            ok = not others or bool(stores)
            rr.inst(f"{lit}", True, {"literal": lit, "compared_at": sites[:4], "other_spellings_accepted": others, "normalised_on_the_arm": bool(stores)})
            for site in sites[1:]:
                rr.inst(f"{lit}@{site}", True)
            if not ok:
                rr.add(finding("TAB", se, t.stmt, f"set_encoding() accepts {others} besides {lit!r} for the same encoding but stores the caller's spelling: get_encoding() then answers e.g. {others[0]!r} and `{sites[0]}` (and {len(sites) - 1} more) takes the non-UTF-8 branch - shift-in / shift-out bytes in UTF-8 output", construct=f"spellings {others} not normalised to {lit!r}"))
    return rr


def run(ctx: Ctx):
    r6 = c17.rule_palette_cache(ctx, "C04.6")
    r7 = c17.rule_palette_total(ctx, "C04.7")
    r8 = c17.rule_palette_order(ctx)
    r8.clause = "C04.8"
    r9 = accum.run_accum(ctx.p, "C04.9", "C04", floor=1)
    r11 = loopfresh.run_loopfresh(ctx.p, "C04.11", "C04", floor=3)
    return [rule_triple(ctx), rule_last_row_triple(ctx), rule_cursor(ctx), rule_repaint(ctx), rule_charset_first(ctx), rule_html(ctx), rule_html_cursor_columns(ctx), r6, r7, r8, r9, r11, rule_erase_shortcut(ctx), rule_rendition_model(ctx), rule_last_row_neighbour(ctx), rule_cell_components(ctx), rule_cell_text_filtered(ctx), rule_font_off_at_end(ctx), rule_strip_what_was_tested(ctx), rule_one_utf8_spelling(ctx), rule_rows_used_mark(ctx)]


_RW = "urwid/display/_raw_display_base.py"
_HT = "urwid/display/html_fragment.py"
MUTANTS = [
    Mut("twin-rows-used-test-flipped", "urwid/display/_raw_display_base.py", "urwid.display._raw_display_base.Screen.draw_screen", "if partial_display() and y > self._rows_used:", "if partial_display() and self._rows_used < y:", twin=True),
    Mut("set-encoding-keeps-utf8-spelling", "urwid/util.py", "set_encoding", "        encoding = \"utf-8\"  # the one spelling get_encoding() reports and the display modules compare with\n", "", "TAB|util.set_encoding|spellings ['utf', 'utf8'] not normalised to 'utf-8'"),
    Mut("erase-shortcut-strips-all-whitespace", _RW, "urwid.display._raw_display_base.Screen.draw_screen", 'run.rstrip(b" ")', "run.rstrip()", "SIB|display._raw_display_base.Screen.draw_screen|strip run.rstrip() does not match the tested byte"),
    Mut("insert-cell-unfiltered", _RW, "urwid.display._raw_display_base.Screen.draw_screen", "                    if insertcs != \"U\":\n                        inserttext = inserttext.translate(UNPRINTABLE_TRANS_TABLE)\n", "", "TAINT|display._raw_display_base.Screen.draw_screen|cell text inserttext decoded without the control-character filter"),
    Mut("draw-ends-with-pc-font-on", _RW, "urwid.display._raw_display_base.Screen.draw_screen", "        if last_charset_flag == \"U\":\n            # the next draw starts from the normal font: SGR 0 does not switch the IBM PC mapping off everywhere\n            output.append(escape.IBMPC_OFF)\n", "", "PAIR|display._raw_display_base.Screen.draw_screen|draw can end with the IBM PC font on"),
    Mut("el-shortcut-attrspec-object-taken-for-default", "urwid/display/_raw_display_base.py", "urwid.display._raw_display_base.Screen.draw_screen", "            a = self._pal_attrspec.get(a, a)\n", "            a = self._pal_attrspec.get(a, self._pal_attrspec[None])\n", "TAB|display._raw_display_base.Screen.draw_screen.<locals>.using_standout_or_underline|using_standout_or_underline: AttrSpec object not resolved to itself"),
    Mut("html-ignores-charset-flag", _HT, "HtmlGenerator.draw_screen", "            for a, cs, run in row:\n                t_run = run.decode(get_encoding())\n                if cs == \"0\":\n                    t_run = t_run.translate(_dec_special_table)\n", "            for a, _cs, run in row:\n                t_run = run.decode(get_encoding())\n", "TRIPLE|display.html_fragment.HtmlGenerator.draw_screen"),
    Mut("record-overwrites-resize-reset", _RW, "urwid.display._raw_display_base.Screen.draw_screen", "        if self._resized:\n            # the size changed while writing: what the terminal shows now is unknown, repaint completely next time\n            return\n\n        self.screen_buf = sb", "        self.screen_buf = sb", "INV|display._raw_display_base.Screen.draw_screen|no _resized test between the write and the screen_buf record"),
    Mut("last-row-single-character", _RW, "urwid.display._raw_display_base.Screen._last_row", "            if len(row) < 2:\n                # a single character fills the whole row: there is no Y to slide in\n                return row, 0, None\n", "", "GUARD|display._raw_display_base.Screen._last_row"),
    Mut("initial-rendition-only-on-full-repaint", _RW, "urwid.display._raw_display_base.Screen.draw_screen", "        output: list[str] = [escape.HIDE_CURSOR, attr_to_escape(last_attributes)]\n", "        output: list[str] = [escape.HIDE_CURSOR]\n        if not self.screen_buf:\n            output.append(attr_to_escape(last_attributes))\n", "PAIR|display._raw_display_base.Screen.draw_screen|rendition model"),
    Mut("erase-shortcut-with-strikethrough", _RW, "urwid.display._raw_display_base.Screen.draw_screen", "(a.standout or a.underline or a.strikethrough)", "(a.standout or a.underline)", "TAB|display._raw_display_base.Screen.draw_screen|erase shortcut not disabled for strikethrough"),
    Mut("twin-erase-shortcut-any-form", _RW, "urwid.display._raw_display_base.Screen.draw_screen", "(a.standout or a.underline or a.strikethrough)", "any((a.strikethrough, a.underline, a.standout))", twin=True),
    Mut("cursor-row-only-with-cursor", _RW, "urwid.display._raw_display_base.Screen.draw_screen", "            self._cy = y\n        else:\n            # without a cursor the terminal stays on the row painted last\n            self._cy = cy\n", "            self._cy = y\n", "INV|display._raw_display_base.Screen.draw_screen|_cy not recorded"),
    Mut("palette-update-without-repaint", _RW, "urwid.display._raw_display_base.Screen._on_update_palette_entry", "        # rows drawn with the old meaning of this name are no longer what the terminal should show\n        self.clear()\n", "", "INV|display._raw_display_base.Screen._on_update_palette_entry"),
    Mut("identity-shortcut-ignores-clear", _RW, "urwid.display._raw_display_base.Screen.draw_screen", "if self.screen_buf and canvas is self._screen_buf_canvas:", "if canvas is self._screen_buf_canvas:", "INV|display._raw_display_base.Screen.draw_screen|identity shortcut"),
    Mut("html-cursor-by-characters", _HT, "HtmlGenerator.draw_screen", "run_width = str_util.calc_width(t_run, 0, len(t_run))", "run_width = len(t_run)", "KIND|display.html_fragment.HtmlGenerator.draw_screen"),
    Mut("back-step-width-of-inserted", _RW, "urwid.display._raw_display_base.Screen._last_row", "return new_row, str_util.calc_width(z_text, 0, len(z_text)), (y_attr, y_cs, y_text)", "return new_row, z_col - y_col, (y_attr, y_cs, y_text)", "TRIPLE|display._raw_display_base.Screen._last_row|back-step"),
    Mut("twin-back-step-via-local", _RW, "urwid.display._raw_display_base.Screen._last_row", "        return new_row, str_util.calc_width(z_text, 0, len(z_text)), (y_attr, y_cs, y_text)", "        zw = str_util.calc_width(z_text, 0, len(z_text))\n        return new_row, zw, (y_attr, y_cs, y_text)", twin=True),
    Mut("no-resize-recheck", _RW, "urwid.display._raw_display_base.Screen.draw_screen", "        if self._resized:\n            # handle resize before trying to draw screen\n            return\n        try:", "        try:", "INV|display._raw_display_base.Screen.draw_screen|no _resized test"),
    Mut("insert-block-uses-loop-cs", _RW, "urwid.display._raw_display_base.Screen.draw_screen", "                    if insertcs is None:\n                        icss = escape.SI", "                    if cs is None:\n                        icss = escape.SI", "LEAK|display._raw_display_base.Screen.draw_screen"),
    Mut("insert-block-uses-loop-attr", _RW, "urwid.display._raw_display_base.Screen.draw_screen", "ias = attr_to_escape(inserta)", "ias = attr_to_escape(a)", "LEAK|display._raw_display_base.Screen.draw_screen"),
    Mut("last-row-remainder-wrong-attr", _RW, "urwid.display._raw_display_base.Screen._last_row", "new_row.append((y_attr, y_cs, nlast_text[:nlast_offs]))", "new_row.append((z_attr, z_cs, nlast_text[:nlast_offs]))", "TRIPLE|"),
    Mut("show-cursor-unconditional", _RW, "urwid.display._raw_display_base.Screen.draw_screen", "        if canvas.cursor is not None:\n            x, y = canvas.cursor\n            output += [set_cursor_position(x, y), escape.SHOW_CURSOR]\n            self._cy = y\n        else:\n            # without a cursor the terminal stays on the row painted last\n            self._cy = cy\n", "        x, y = canvas.cursor or (0, 0)\n        output += [set_cursor_position(x, y), escape.SHOW_CURSOR]\n        self._cy = y\n", "PASS|display._raw_display_base.Screen.draw_screen"),
    Mut("hide-cursor-dropped", _RW, "urwid.display._raw_display_base.Screen.draw_screen", "output: list[str] = [escape.HIDE_CURSOR, attr_to_escape(last_attributes)]", "output: list[str] = [attr_to_escape(last_attributes)]", "PASS|display._raw_display_base.Screen.draw_screen"),
    Mut("clear-keeps-screen-buf", _RW, "urwid.display._raw_display_base.Screen.clear", "        self.screen_buf = None\n", "", "INV|display._raw_display_base.Screen.clear"),
    Mut("props-change-without-clear", _RW, "urwid.display._raw_display_base.Screen.set_terminal_properties", "        self.clear()\n        self._pal_escape = {}", "        self._pal_escape = {}", "INV|display._raw_display_base.Screen.set_terminal_properties"),
    Mut("charset-first-flag-removed", _RW, "urwid.display._raw_display_base.Screen.draw_screen", "if encoding != \"utf-8\" and (first or last_charset_flag != cs):", "if encoding != \"utf-8\" and last_charset_flag != cs:", "SENTINEL|display._raw_display_base.Screen.draw_screen"),
    Mut("html-text-unescaped", _HT, "html_span", "{html.escape(string)}</span>", "{string}</span>", "TAINT|"),
    Mut("rebuild-escape-cache-only", _RW, "urwid.display._raw_display_base.Screen.set_terminal_properties", "        for p, v in self._palette.items():\n            self._on_update_palette_entry(p, *v)", "        self._pal_escape = {p: self._attrspec_to_escape(v[{16: 0, 1: 1, 88: 2, 256: 3, 2**24: 4}[self.colors]]) for p, v in self._palette.items()}", "INV|"),
    Mut("twin-hide-cursor-constant-alias", _RW, "urwid.display._raw_display_base.Screen.draw_screen", "output: list[str] = [escape.HIDE_CURSOR, attr_to_escape(last_attributes)]", "output: list[str] = [escape.HIDE_CURSOR, attr_to_escape(None)]", twin=True),
]
