"""C18 - colour specifications round-trip and degrade to the nearest colour."""

from __future__ import annotations

import ast

from ..consteval import fold_module_name
from ..core import Ctx, RuleResult, finding, short
from ..model import AnalysisError, norm
from ..rules import exc, nullflow, truthy, sib
from ..tables import C18_BOUNDARY_OK, C18_INFEASIBLE, C18_SIB_EXCEPTIONS

EXPLANATION = (
    "Decided (necessary structural conditions of C18): (1) EXC: only AttrSpecError can escape AttrSpec.__init__ (through the colour parsers); no modelled exception escapes the "
    "foreground/background/__repr__/get_rgb_values readers; (2) SIB: the 256- and 88-colour twins (_color_desc_*, _parse_color_*, _gray_num_*) make the same comparisons with the same "
    "operators, call the same helpers and return the same shapes, and the sibling lookup tables are built by the same expression; (3) __eq__ and __hash__ read exactly the same state, "
    "__ne__ negates __eq__; (4) folded tables: step tables strictly ascending within 0..255, palettes of 256/88 entries, 16 distinct basic names, flag constants pairwise disjoint and "
    "disjoint from the colour fields."
    ' Added after seed round 3: (7) AttrSpec.colors recognises each depth by exactly the flag pair the setters store for it (masks folded to integers; only 88 is told by its mode flag); (8) the hN branch of the 256/88 parsers accepts exactly 0..colours-1 (bound folded, compared as an interval).'
    " Round 4: (9) the 256-colour gray ramp and cube step tables equal xterm's closed forms (8 + 10*i; 0, 95 + 40*(i-1))."
    ' Round 6: (13) SIB: every depth marker AttrSpec.__init__ puts into the packed value is reported by the colors property or cleared again in __init__ (fix 94a2129: a 2**24 spec without a 24-bit colour equals its rebuild).'
    ' Round 7: (11) the '#rrggbb' fold of the 88-colour parser keeps positions 0, 1, 3, 5 (the high digit of each channel), evaluated from its constant slices; (14) ACCUM: the flags collected over the parts of a foreground description are only OR-ed into inside the loop; (15) __repr__ writes colors= for every depth whose marker selects its own parser (fix 14f26b0).'
    " Round 8: (2) table exceptions of the twin comparison are single-use; (16) ORDER: a depth-dependent colour description is returned only after the side's basic-colour flag was tested false."
)
NOT_DECIDED = "Nearest-entry correctness, idempotence of parse(describe(x)), RGB values - value-level facts; range-check raises in the describers depend on the stored value's range (covered only through the twin comparison)."
ASSUMPTIONS = ["Range-check `raise ValueError(num)` in _color_desc_* is assumed unreachable for values the parsers produce (table entries with reason)."]

COMMON = "urwid.display.common"
RENAME = [(r"_256", ""), (r"_88", "")]
RENAME_TABLES = [(r"_256", ""), (r"_88", ""), (r"CUBE", "X"), (r"GRAY", "X"), (r"_16\b", "_K"), (r"_101\b", "_K")]


def rule_twins(ctx: Ctx) -> RuleResult:
    p = ctx.p
    rr = RuleResult("SIB", "C18.2", "256/88-colour twins agree on guards, helpers and return shapes; sibling lookup tables are built alike", floor=9 + 4)
    for a, b in (("_color_desc_256", "_color_desc_88"), ("_parse_color_256", "_parse_color_88"), ("_gray_num_256", "_gray_num_88")):
        sib.compare_twins(rr, p.func(f"{COMMON}.{a}"), p.func(f"{COMMON}.{b}"), RENAME, C18_SIB_EXCEPTIONS)
    m = p.modules[COMMON]
    groups = [
        ["_CUBE_256_LOOKUP", "_CUBE_88_LOOKUP"],
        ["_GRAY_256_LOOKUP", "_GRAY_88_LOOKUP"],
        ["_CUBE_STEPS_256_16", "_GRAY_STEPS_256_101", "_CUBE_STEPS_88_16", "_GRAY_STEPS_88_101"],
        ["_CUBE_256_LOOKUP_16", "_GRAY_256_LOOKUP_101", "_CUBE_88_LOOKUP_16", "_GRAY_88_LOOKUP_101"],
        ["_COLOR_VALUES_256", "_COLOR_VALUES_88"],
    ]
    for g in groups:
        texts = {}
        for nm in g:
            b = m.bindings.get(nm)
            if b is None or b[0] != "assign":
                raise AnalysisError(f"table {nm} not found in display/common.py (anchor vanished)")
            texts[nm] = sib.normalise(b[1], RENAME_TABLES)
        rr.inst("tables " + "/".join(g), True, {"tables": g, "normalised": texts[g[0]]})
        ref = texts[g[0]]
        # majority form is the reference
        forms = list(texts.values())
        ref = max(set(forms), key=forms.count)
        for nm, t in texts.items():
            if t != ref:
                rr.add(finding("SIB", f"display.common.{nm}", m.bindings[nm][2], f"table {nm} is built as `{t}` but its siblings as `{ref}`", construct=f"{nm} built differently from siblings", file=m.relpath))
    return rr


def rule_hash_eq(ctx: Ctx) -> RuleResult:
    p = ctx.p
    rr = RuleResult("SIB", "C18.3", "__eq__ and __hash__ read the same state; __ne__ negates __eq__", floor=3)
    c = p.cls(f"{COMMON}.AttrSpec")

    def state_reads(fi):
        out = set()
        work, seen = [fi], set()
        while work:
            g = work.pop()
            if id(g) in seen:
                continue
            seen.add(id(g))
            for n in ast.walk(g.node):
                if isinstance(n, ast.Attribute) and isinstance(n.value, ast.Name):
                    r = p.find_member(c, n.attr)
                    if r and r[0] == "property" and r[1].getter is not None:
                        work.append(r[1].getter)
                    elif r is None and n.attr not in ("__class__",):
                        out.add(n.attr.replace("_AttrSpec", ""))
        return out

    eq, hs, ne = c.methods.get("__eq__"), c.methods.get("__hash__"), c.methods.get("__ne__")
    if not (eq and hs and ne):
        raise AnalysisError("AttrSpec.__eq__/__hash__/__ne__ not found")
    re_, rh = state_reads(eq), state_reads(hs)
    rr.inst("eq/hash state", True, {"__eq__ reads": sorted(re_), "__hash__ reads": sorted(rh)})
    if re_ != rh or not re_:
        rr.add(finding("SIB", hs, hs.node, f"__hash__ reads {sorted(rh)} but __eq__ compares {sorted(re_)}: equal specifications could hash differently", construct="hash/eq state differs"))
    # the state must be compared as it is hashed: `self.<state> == other.<state>`, no masking / transformation on
    # one side of the pair only (equal objects must have equal hashes)
    rr.inst("eq compares what hash hashes", True)
    cmp_ok = False
    for n in ast.walk(eq.node):
        if isinstance(n, ast.Compare) and len(n.ops) == 1 and isinstance(n.ops[0], ast.Eq):
            l, r = n.left, n.comparators[0]
            if isinstance(l, ast.Attribute) and isinstance(r, ast.Attribute) and l.attr.replace("_AttrSpec", "").lstrip("_") == r.attr.replace("_AttrSpec", "").lstrip("_") == "value":
                cmp_ok = True
    hashed = [ast.unparse(a) for n in ast.walk(hs.node) if isinstance(n, ast.Call) and isinstance(n.func, ast.Name) and n.func.id == "hash" for a in ast.walk(n) if isinstance(a, ast.Attribute) and "value" in a.attr]
    if not cmp_ok or not hashed:
        rr.add(finding("SIB", eq, eq.node, "__eq__ is not the plain comparison `self.__value == other._value` of the state that __hash__ hashes (a masked or transformed comparison makes specifications equal whose hashes differ)", construct="eq is not a plain comparison of the hashed state"))
    # __eq__ accepts every AttrSpec instance (isinstance): the hash may not depend on the *dynamic* class
    rr.inst("hash independent of the dynamic class", True)
    if any(isinstance(n, ast.Attribute) and n.attr == "__class__" for n in ast.walk(hs.node)) or any(isinstance(n, ast.Call) and isinstance(n.func, ast.Name) and n.func.id == "type" for n in ast.walk(hs.node)):
        if any(isinstance(n, ast.Call) and isinstance(n.func, ast.Name) and n.func.id == "isinstance" for n in ast.walk(eq.node)):
            rr.add(finding("SIB", hs, hs.node, "__hash__ mixes in the dynamic class (self.__class__ / type(self)) while __eq__ accepts any AttrSpec instance with the same value: an instance of a subclass equals a plain AttrSpec but hashes differently", construct="hash depends on the dynamic class, eq does not"))
    rr.inst("eq type test", True)
    if not any(isinstance(n, ast.Call) and isinstance(n.func, ast.Name) and n.func.id == "isinstance" for n in ast.walk(eq.node)):
        rr.add(finding("SIB", eq, eq.node, "__eq__ no longer restricts the comparison to AttrSpec instances", construct="eq without isinstance"))
    rr.inst("ne negates eq", True)
    rets = [n for n in ne.own_nodes() if isinstance(n, ast.Return)]
    ok = len(rets) == 1 and isinstance(rets[0].value, ast.UnaryOp) and isinstance(rets[0].value.op, ast.Not) and isinstance(rets[0].value.operand, ast.Compare) and isinstance(rets[0].value.operand.ops[0], ast.Eq)
    if not ok:
        rr.add(finding("SIB", ne, ne.node, "__ne__ is not the negation of `self == other`", construct="ne is not `not ==`"))
    return rr


def rule_tables(ctx: Ctx) -> RuleResult:
    p = ctx.p
    rr = RuleResult("TAB", "C18.4", "folded colour tables have the required shape", floor=8)
    m = p.modules[COMMON]

    def bad(name, msg):
        b = m.bindings.get(name)
        rr.add(finding("TAB", f"display.common.{name}", b[2] if b else None, msg, construct=f"{name}: {msg}"[:120], file=m.relpath))

    for nm in ("_CUBE_STEPS_256", "_GRAY_STEPS_256", "_CUBE_STEPS_88", "_GRAY_STEPS_88"):
        v = fold_module_name(p, m, nm)
        rr.inst(nm, True, {"table": nm, "value": v} if nm.startswith("_CUBE") else None)
        if not all(isinstance(x, int) and 0 <= x <= 255 for x in v) or any(a >= b for a, b in zip(v, v[1:])):
            bad(nm, "is not strictly ascending within 0..255 (the nearest-value lookup assumes it)")
    sizes = {"_CUBE_SIZE_256": "_CUBE_STEPS_256", "_GRAY_SIZE_256": "_GRAY_STEPS_256", "_CUBE_SIZE_88": "_CUBE_STEPS_88", "_GRAY_SIZE_88": "_GRAY_STEPS_88"}
    for sz, tb in sizes.items():
        rr.inst(sz, True)
        if fold_module_name(p, m, sz) != len(fold_module_name(p, m, tb)):
            bad(sz, f"= {fold_module_name(p, m, sz)} but {tb} has {len(fold_module_name(p, m, tb))} steps")
    for nm, want in (("_COLOR_VALUES_256", 256), ("_COLOR_VALUES_88", 88)):
        v = fold_module_name(p, m, nm)
        rr.inst(nm, True)
        if len(v) != want or not all(isinstance(t, tuple) and len(t) == 3 and all(0 <= c <= 255 for c in t) for t in v):
            bad(nm, f"does not hold {want} RGB triples")
    bc = fold_module_name(p, m, "_BASIC_COLORS")
    rr.inst("_BASIC_COLORS", True)
    if len(bc) != 16 or len(set(bc)) != 16:
        bad("_BASIC_COLORS", "does not hold 16 distinct names")
    for nm, want in (("_GRAY_START_256", 232), ("_GRAY_START_88", 80), ("_CUBE_WHITE_256", 231), ("_CUBE_WHITE_88", 79), ("_CUBE_BLACK", 16)):
        rr.inst(nm, True)
        got = fold_module_name(p, m, nm)
        cs = fold_module_name(p, m, "_CUBE_START")
        size = fold_module_name(p, m, "_CUBE_SIZE_256" if "256" in nm else "_CUBE_SIZE_88")
        expect = {"_GRAY_START": cs + size**3, "_CUBE_WHITE": cs + size**3 - 1, "_CUBE_BLACK": cs}[nm[:11]]
        if got != expect:
            bad(nm, f"= {got}, but cube start {cs} and cube size {size} give {expect}")
    flags = ["_FG_BASIC_COLOR", "_FG_HIGH_COLOR", "_FG_TRUE_COLOR", "_BG_BASIC_COLOR", "_BG_HIGH_COLOR", "_BG_TRUE_COLOR", "_HIGH_88_COLOR", "_HIGH_TRUE_COLOR",
             "_STANDOUT", "_UNDERLINE", "_BOLD", "_BLINK", "_ITALICS", "_STRIKETHROUGH"]  # fmt: skip
    vals = {f: fold_module_name(p, m, f) for f in flags}
    fgm, bgm, shift = (fold_module_name(p, m, x) for x in ("_FG_COLOR_MASK", "_BG_COLOR_MASK", "_BG_SHIFT"))
    rr.inst("flag bits", True, {"flags": {k: hex(v) for k, v in list(vals.items())[:4]}})
    for f, v in vals.items():
        if v <= 0 or v & (v - 1):
            bad(f, f"= {v:#x} is not a single bit")
        if v & (fgm | bgm):
            bad(f, "overlaps the colour number fields")
    seen = {}
    for f, v in vals.items():
        if v in seen:
            bad(f, f"shares its bit with {seen[v]}")
        seen[v] = f
    rr.inst("colour fields", True)
    if fgm & bgm or bgm != fgm << shift or fgm != (1 << 24) - 1:
        bad("_BG_COLOR_MASK", "colour fields overlap or _BG_SHIFT does not map the foreground field onto the background field")
    attrs = fold_module_name(p, m, "_ATTRIBUTES")
    rr.inst("_ATTRIBUTES", True)
    if len(set(attrs.values())) != len(attrs) or not set(attrs.values()) <= set(vals.values()):
        bad("_ATTRIBUTES", "style names do not map to distinct style flag bits")
    return rr


def rule_depth_masks(ctx: Ctx) -> RuleResult:
    """AttrSpec.colors reports the depth the *stored colours* need: each depth is recognised by the pair of flags
    its foreground / background setters store (_FG_x | _BG_x).  Only the 88-colour palette is told from the
    256-colour one by the mode flag.  The masks are folded to integers and compared with the folded flag pairs."""
    from ..consteval import fold_expr

    p = ctx.p
    rr = RuleResult("TAB", "C18.7", "AttrSpec.colors tests, for each depth, exactly the flags the colour setters store for that depth", floor=4)
    m = p.modules[COMMON]
    fi = p.func(f"{COMMON}.AttrSpec.colors")
    want = {
        256: fold_module_name(p, m, "_FG_HIGH_COLOR") | fold_module_name(p, m, "_BG_HIGH_COLOR"),
        2**24: fold_module_name(p, m, "_FG_TRUE_COLOR") | fold_module_name(p, m, "_BG_TRUE_COLOR"),
        16: fold_module_name(p, m, "_FG_BASIC_COLOR") | fold_module_name(p, m, "_BG_BASIC_COLOR"),
        88: fold_module_name(p, m, "_HIGH_88_COLOR"),
    }
    seen = set()
    for n in fi.own_nodes():
        if isinstance(n, ast.If) and len(n.body) == 1 and isinstance(n.body[0], ast.Return) and isinstance(n.test, ast.BinOp) and isinstance(n.test.op, ast.BitAnd):
            depth = fold_expr(p, m, n.body[0].value)
            mask = fold_expr(p, m, n.test.right)
            seen.add(depth)
            rr.inst(f"depth {depth}", True, {"depth": depth, "mask": hex(mask), "expected": hex(want.get(depth, 0))})
            if depth not in want or mask != want[depth]:
                rr.add(finding("TAB", fi, n, f"colors returns {depth} when the value has any of the bits {hex(mask)} (`{norm(n.test.right, 50)}`); the setters mark a {depth}-colour foreground/background with {hex(want.get(depth, 0))}: the depth reported no longer follows the colours actually stored (a specification with default colours reports the depth it was created with)", construct=f"depth {depth} recognised by {norm(n.test.right, 50)}"))
    missing = set(want) - seen
    if missing:
        rr.add(finding("TAB", fi, fi.node, f"colors has no test for the depths {sorted(missing)}", construct=f"depth tests missing {sorted(missing)}"))
    return rr


def rule_high_bounds(ctx: Ctx) -> RuleResult:
    """'hN' names palette entry N: valid for 0 <= N < number of colours.  The bound of each parser is folded and
    compared, as an integer interval, with its own palette size (256 / 88)."""
    from ..consteval import fold_expr
    from .c11 import _interval

    p = ctx.p
    rr = RuleResult("TAB", "C18.8", "the hN branch of _parse_color_256 / _parse_color_88 accepts exactly 0 <= N <= colours - 1", floor=2)
    m = p.modules[COMMON]
    for q, size in ((f"{COMMON}._parse_color_256", 256), (f"{COMMON}._parse_color_88", 88)):
        fi = p.func(q)
        # the test that rejects: `if num < 0 or num > K: return None` in the branch of desc.startswith("h")
        hb = [n for n in fi.own_nodes() if isinstance(n, ast.If) and isinstance(n.test, ast.Call) and isinstance(n.test.func, ast.Attribute) and n.test.func.attr == "startswith" and n.test.args and isinstance(n.test.args[0], ast.Constant) and n.test.args[0].value == "h"]
        if not hb:
            raise AnalysisError(f"{q}: the branch for 'h' descriptions was not found")
        rej = [n for n in ast.walk(hb[0]) if isinstance(n, ast.If) and n is not hb[0] and any(isinstance(x, ast.Return) and isinstance(x.value, ast.Constant) and x.value.value is None for x in n.body)]
        if not rej:
            raise AnalysisError(f"{q}: the range test of the hN branch was not found")
        lo, hi = None, None
        for c in ast.walk(rej[0].test):
            if isinstance(c, ast.Compare) and len(c.ops) == 1:
                # fold the constant side
                class _K(ast.NodeTransformer):
                    pass

                try:
                    k = fold_expr(p, m, c.comparators[0])
                except AnalysisError:
                    continue
                if not isinstance(k, int):
                    continue
                c2 = ast.Compare(left=c.left, ops=c.ops, comparators=[ast.Constant(value=k)])
                iv = _interval(c2)
                if iv is None:
                    continue
                # the test REJECTS this interval
                if iv[0] == float("-inf"):
                    lo = iv[1] + 1
                elif iv[1] == float("inf"):
                    hi = iv[0] - 1
        rr.inst(short(fi), True, {"parser": short(fi), "accepts_h": [lo, hi], "palette_size": size})
        if (lo, hi) != (0, size - 1):
            rr.add(finding("TAB", fi, rej[0], f"the hN branch accepts N in [{lo}, {hi}] but the palette has the entries 0..{size - 1}: 'h{size}' is accepted (and stored as a colour number outside the palette) or a valid entry is refused", construct=f"hN range [{lo}, {hi}] for {size} colours"))
    return rr


def rule_gray_ramp(ctx: Ctx) -> RuleResult:
    """xterm's 256-colour gray ramp (entries 232..255) is the arithmetic progression 8 + 10*i and its colour cube
    steps are 0, then 95 + 40*(i-1): closed forms the tables can be folded and compared with."""
    p = ctx.p
    rr = RuleResult("TAB", "C18.9", "_GRAY_STEPS_256 is xterm's ramp 8 + 10*i; _CUBE_STEPS_256 is 0, 95, 135, ... (95 + 40*(i-1))", floor=2)
    m = p.modules[COMMON]
    for nm, form, txt in (("_GRAY_STEPS_256", lambda i: 8 + 10 * i, "8 + 10*i"), ("_CUBE_STEPS_256", lambda i: 0 if i == 0 else 95 + 40 * (i - 1), "0, 95 + 40*(i-1)")):
        tb = fold_module_name(p, m, nm)
        rr.inst(nm, True, {"table": nm, "length": len(tb)})
        bad = [(i, v, form(i)) for i, v in enumerate(tb) if v != form(i)]
        if bad:
            node = next((st for st in m.tree.body if isinstance(st, ast.Assign) and any(isinstance(t, ast.Name) and t.id == nm for t in st.targets)), None)
            from ..core import Finding

            rr.add(Finding("TAB", f"display.common.{nm}", f"{nm} entries {[(i, hex(v)) for i, v, _ in bad]}", f"{nm} deviates from xterm's {txt} at " + ", ".join(f"index {i}: {hex(v)} instead of {hex(w)}" for i, v, w in bad) + ": the RGB values reported for those palette entries, and the nearest-colour midpoints next to them, do not match the terminal", m.relpath, getattr(node, "lineno", 0), {}, False))
    return rr


def rule_per_side_decode(ctx: Ctx) -> RuleResult:
    """An AttrSpec can mix colour kinds: a basic foreground with a true-colour background has depth 2**24 as a whole.
    get_rgb_values() decodes the two colour numbers separately, so the choice of the 24-bit decode for a side must
    rest on that side's own flag (foreground_true / background_true), not on the depth of the whole specification."""
    from ..rules.exc import ExcEngine
    from ..rules.util import cfg_of

    p = ctx.p
    rr = RuleResult("GUARD", "C18.10", "get_rgb_values picks the 24-bit decode of a side under that side's own *_true flag", floor=2)
    fi = p.func(f"{COMMON}.AttrSpec.get_rgb_values")
    cfg = cfg_of(fi)
    n = 0
    for node in cfg.nodes:
        a = node.ast
        if a is None or node.kind in ("for", "with", "handler", "test"):
            continue
        for js in ast.walk(a):
            if isinstance(js, ast.JoinedStr):
                for v in js.values:
                    if isinstance(v, ast.FormattedValue) and isinstance(v.value, ast.Attribute) and v.value.attr in ("foreground_number", "background_number") and v.format_spec is not None and "06x" in ast.unparse(v.format_spec):
                        side = v.value.attr.split("_")[0]
                        n += 1
                        guards = [t for t in cfg.nodes if t.kind == "test" and node not in ExcEngine._reach_without_edge(cfg, t, "T")]
                        rr.inst(f"{side} 24-bit decode", True, {"side": side, "under": [norm(t.ast, 50) for t in guards]})
                        if not any(f"{side}_true" in ast.unparse(t.ast) for t in guards):
                            rr.add(finding("GUARD", fi, node.stmt, f"the {side} number is decoded as 24-bit RGB under {[norm(t.ast, 40) for t in guards]}, not under self.{side}_true: in a specification that mixes a basic {side} with a true-colour colour on the other side the basic index (e.g. 11 for yellow) is reported as the RGB value #00000b", construct=f"{side} 24-bit decode not under {side}_true"))
    if n < 2:
        raise AnalysisError("get_rgb_values: the two 24-bit decodes (f'{...:06x}') were not found")
    return rr


def rule_strict_numbers(ctx: Ctx) -> RuleResult:
    """Python's int(text, base) is far more liberal than a colour description may be: it accepts '+5', ' 5', '1_0',
    '0x12' (base 16) and digits of other scripts.  The colour parsers must therefore not call int() on pieces of
    the description themselves; numbers go through the one strict reader (_int_digits), which admits ASCII digits of
    the base only.  Likewise the 88-colour parser folds a seven-character description to four characters only when
    it is '#rrggbb'."""
    p = ctx.p
    rr = RuleResult("TAINT", "C18.11", "the colour parsers read numbers only through the strict digit reader, never with a bare int()", floor=8)
    strict = p.func(f"{COMMON}._int_digits")
    # the strict reader really is strict: it raises before int() unless every character is an ASCII digit of the base
    ok = any(isinstance(n, ast.Raise) for n in strict.own_nodes()) and any(isinstance(n, ast.Compare) and isinstance(n.ops[0], ast.NotIn) for n in strict.own_nodes())
    rr.inst("_int_digits", True)
    if not ok:
        rr.add(finding("TAINT", strict, strict.node, "_int_digits no longer checks the characters against the digit alphabet before calling int()", construct="strict reader not strict"))
    for q in ("_parse_color_true", "_parse_color_256", "_parse_color_88", "_true_to_256"):
        fi = p.func(f"{COMMON}.{q}")
        for c in fi.own_nodes():
            if isinstance(c, ast.Call) and isinstance(c.func, ast.Name) and c.func.id in ("int", "_int_digits") and c.args:
                rr.inst(f"{q}:{norm(c, 40)}", True, {"parser": q, "read": norm(c, 50)} if len(rr.samples) < 6 else None)
                if c.func.id == "int":
                    rr.add(finding("TAINT", fi, c, f"`{norm(c, 50)}` parses part of the description with int(), which also accepts signs, blanks, '_' separators, a '0x' prefix and non-ASCII digits: malformed descriptions such as 'h+5', '#1_1' or '#-00001' are accepted as colours instead of raising AttrSpecError", construct=f"bare int() on description text: {norm(c, 50)}"))
    p88 = p.func(f"{COMMON}._parse_color_88")
    folds = [n for n in p88.own_nodes() if isinstance(n, ast.If) and any(isinstance(c, ast.Compare) and ast.unparse(c) == f"len({p88.params[0]}) == 7" for c in ast.walk(n.test))]
    rr.inst("88: seven-character fold", True, {"tests": [norm(n.test, 60) for n in folds]})
    for n in folds:
        if "startswith" not in ast.unparse(n.test):
            rr.add(finding("TAINT", p88, n, f"`if {norm(n.test, 50)}` folds any seven-character description to four characters without checking that it is '#rrggbb': 'g#12345' is accepted as 'g#15', 'h000700' as 'h0'", construct="seven-character fold without '#' test"))
        # the fold throws three of the six digits away: all six have to go through the strict reader first
        prm = p88.params[0]
        reads = [c for st in n.body for c in ast.walk(st) if isinstance(c, ast.Call) and isinstance(c.func, ast.Name) and c.func.id == "_int_digits" and c.args and ast.unparse(c.args[0]) == f"{prm}[1:]"]
        fold_i = next((i for i, st in enumerate(n.body) if isinstance(st, ast.Assign) and any(isinstance(t, ast.Name) and t.id == prm for t in st.targets)), None)
        read_i = next((i for i, st in enumerate(n.body) if any(c in list(ast.walk(st)) for c in reads)), None)
        ok = fold_i is not None and read_i is not None and read_i < fold_i
        rr.inst("88: all six digits validated before the fold", True, {"validated_first": ok})
        if not ok:
            rr.add(finding("TAINT", p88, n, f"the seven-character description is folded to `{prm}[0:2] + {prm}[3] + {prm}[5]` before its six digits went through _int_digits({prm}[1:], 16): the three characters that are dropped are never looked at, so '#1x3y5z' is accepted as '#135' at depth 88 (the 256- and true-colour parsers reject it)", construct="seven-character fold before validation"))
        # '#rrggbb' -> '#rgb' keeps the marker and the HIGH digit of each channel: characters 0, 1, 3, 5.  The fold is
        # a concatenation of constant subscripts / slices of the description; evaluated on the positions 0..6 it has
        # to give exactly [0, 1, 3, 5] (the low digits 2, 4, 6 give #f00000 -> #000 and #0f0000 -> #f00)
        if fold_i is not None:
            fold = n.body[fold_i].value
            parts, work = [], [fold]
            while work:
                x = work.pop(0)
                if isinstance(x, ast.BinOp) and isinstance(x.op, ast.Add):
                    work = [x.left, x.right, *work]
                else:
                    parts.append(x)
            idx, ok_fold = [], True
            for x in parts:
                if isinstance(x, ast.Subscript) and isinstance(x.value, ast.Name) and x.value.id == prm:
                    sl = x.slice
                    seq = list(range(7))
                    if isinstance(sl, ast.Constant) and isinstance(sl.value, int):
                        idx.append(seq[sl.value])
                    elif isinstance(sl, ast.Slice) and all(b is None or (isinstance(b, ast.Constant) and isinstance(b.value, int)) or (isinstance(b, ast.UnaryOp) and isinstance(b.operand, ast.Constant)) for b in (sl.lower, sl.upper, sl.step)):
                        def val(b):
                            if b is None:
                                return None
                            return b.value if isinstance(b, ast.Constant) else -b.operand.value
                        idx += seq[slice(val(sl.lower), val(sl.upper), val(sl.step))]
                    else:
                        ok_fold = False
                else:
                    ok_fold = False
            rr.inst("88: the fold keeps the high digit of each channel", True, {"fold": norm(fold, 60), "positions_kept": idx})
            if not ok_fold or idx != [0, 1, 3, 5]:
                rr.add(finding("TAINT", p88, n.body[fold_i], f"`{norm(n.body[fold_i], 60)}` folds '#rrggbb' to the characters at positions {idx if ok_fold else '?'} instead of 0, 1, 3, 5 (the marker and the high digit of each channel): the colour handed to the 88-colour lookup is built from the low digits - #f00000 becomes #000, #0f0000 becomes #f00", construct="seven-character fold keeps other positions than 0, 1, 3, 5"))
    return rr


def rule_flags_accumulate(ctx: Ctx) -> RuleResult:
    """AttrSpec.__set_foreground() walks the comma-separated parts of the description and collects the settings
    (bold, underline ...) and the colour kind in one local (`flags`), which also feeds the duplicate-setting test.
    Every update inside the loop ORs into it; a plain assignment in one branch (`flags = _FG_TRUE_COLOR`) throws away
    the settings of the parts before it: 'bold,underline,#123456' loses bold and underline at 2**24 colours and
    'bold,#123456,bold' is no longer rejected."""
    p = ctx.p
    rr = RuleResult("ACCUM", "C18.14", "inside the part loop of AttrSpec's foreground parser the collected flags are only ever OR-ed into, never reassigned", floor=4)
    cls = p.cls(f"{COMMON}.AttrSpec")
    fi = next((m for n_, m in cls.methods.items() if n_.endswith("__set_foreground")), None)
    if fi is None:
        raise AnalysisError("AttrSpec.__set_foreground not found")
    loops = [n for n in fi.own_nodes() if isinstance(n, ast.For)]
    if not loops:
        raise AnalysisError("AttrSpec.__set_foreground: the loop over the parts was not found")
    lp = loops[0]
    ors = {n.target.id for n in ast.walk(lp) if isinstance(n, ast.AugAssign) and isinstance(n.op, ast.BitOr) and isinstance(n.target, ast.Name)}
    for acc in sorted(ors):
        for n in ast.walk(lp):
            if isinstance(n, ast.AugAssign) and isinstance(n.target, ast.Name) and n.target.id == acc:
                rr.inst(f"{acc}: {norm(n, 40)}", True)
            elif isinstance(n, ast.Assign) and any(isinstance(t, ast.Name) and t.id == acc for t in n.targets):
                rr.inst(f"{acc}: {norm(n, 40)}", True)
                rr.add(finding("ACCUM", fi, n, f"`{norm(n, 50)}` reassigns `{acc}` inside the loop over the parts of the description, where every other update ORs into it: the settings collected from the parts before this one are dropped ('bold,underline,#123456' comes out plain) and the duplicate-setting test no longer sees them", construct=f"{acc} reassigned inside the part loop"))
    return rr


def rule_midpoint(ctx: Ctx) -> RuleResult:
    """_value_lookup_table() turns the palette values v0 < v1 < ... into a nearest-entry table: the first level
    mapped to the upper neighbour of (a, b) is the boundary m.  Nearest means m - a >= b - m and (m - 1) - a <= b -
    (m - 1), whose integer solution is m = (a + b + 1) // 2.  Anything that rounds a real midpoint - round(),
    int(x + 0.5) on a float, true division - can land one level low (round() sends .5 to the even neighbour), and
    that level then maps to the farther entry.  The boundary has to be that integer expression."""
    from ..rules.util import linear

    p = ctx.p
    rr = RuleResult("TAB", "C18.12", "the boundaries of the nearest-entry lookup tables are the integer midpoints (a + b + 1) // 2 of consecutive palette values", floor=1)
    fi = p.func(f"{COMMON}._value_lookup_table")
    vals = fi.params[0]
    cands = []
    for n in fi.own_nodes():
        if isinstance(n, (ast.BinOp, ast.Call)):
            names = {ast.unparse(x) for x in ast.walk(n) if isinstance(x, ast.Subscript) and isinstance(x.value, ast.Name) and x.value.id == vals}
            if len(names) >= 2:
                cands.append(n)
    # the arithmetic expression around the two values: start from the smallest candidate and climb while the parent
    # is still scalar arithmetic (a BinOp whose other operand is not a list / comprehension, or round()/int()/float())
    parent = {}
    for n in ast.walk(fi.node):
        for ch in ast.iter_child_nodes(n):
            parent[id(ch)] = n
    has_inner = {id(c) for c in cands if any(x is not c and x in cands for x in ast.walk(c))}
    tops = []
    for c in [c for c in cands if id(c) not in has_inner]:
        e = c
        while True:
            up = parent.get(id(e))
            scalar_binop = isinstance(up, ast.BinOp) and not any(isinstance(x, (ast.List, ast.ListComp, ast.Tuple)) for x in (up.left, up.right))
            scalar_call = isinstance(up, ast.Call) and isinstance(up.func, ast.Name) and up.func.id in ("round", "int", "float") and e in up.args
            if scalar_binop or scalar_call:
                e = up
            else:
                break
        tops.append(e)
    if not tops:
        raise AnalysisError("_value_lookup_table: the expression combining two consecutive values was not found")
    for e in tops:
        ok = False
        if isinstance(e, ast.BinOp) and isinstance(e.op, ast.FloorDiv) and isinstance(e.right, ast.Constant) and e.right.value == 2:
            L = linear(e.left)
            if L is not None:
                terms = {k: v for k, v in L.items() if k}
                ok = len(terms) == 2 and all(v == 1 for v in terms.values()) and L.get("", 0) == 1
        rr.inst(norm(e, 60), True, {"boundary": norm(e, 70), "integer_midpoint_rounded_up": ok})
        if not ok:
            rr.add(finding("TAB", fi, e, f"the boundary between two consecutive palette values is `{norm(e, 70)}`, not the integer midpoint (a + b + 1) // 2: a rounded real midpoint can fall one level low (round() sends x.5 to the even neighbour), and that level - e.g. gray 0xf6 between 0xee and 0xff - is then mapped to the farther palette entry", construct=f"lookup boundary {norm(e, 60)}"))
    return rr


def rule_depth_markers(ctx: Ctx) -> RuleResult:
    """'a spec rebuilt from its foreground, background and colors equals the original': AttrSpec.__init__ starts the
    packed value with a *mode marker* per special depth (`M * (colors == depth)`), which tells the two setters how to
    read colour descriptions.  The marker takes part in equality and hashing, so it must be recoverable from what the
    object reports: either the `colors` property answers that depth whenever the marker is set (88 colours), or
    __init__ clears the marker again when nothing of that depth was parsed (2**24: `colors` reports what the colours
    need).  Before fix 94a2129 the true-colour marker was neither: AttrSpec('dark red', 'default', 2**24) reported 16
    colours and differed from AttrSpec('dark red', 'default', 16) and from its own copy_modified()."""
    p = ctx.p
    rr = RuleResult("SIB", "C18.13", "every depth marker AttrSpec.__init__ puts into the packed value is reported by the colors property or cleared again in __init__", floor=2)
    init = p.func("urwid.display.common.AttrSpec.__init__")
    pi = p.find_member(p.cls("urwid.display.common.AttrSpec"), "colors")
    if not pi or pi[0] != "property" or pi[1].getter is None:
        raise AnalysisError("AttrSpec.colors property not found")
    getter = pi[1].getter
    markers = []
    for n in init.own_nodes():
        if isinstance(n, ast.BinOp) and isinstance(n.op, ast.Mult) and isinstance(n.left, ast.Name) and isinstance(n.right, ast.Compare) and len(n.right.ops) == 1 and isinstance(n.right.ops[0], ast.Eq) and isinstance(n.right.left, ast.Name) and n.right.left.id in init.params:
            markers.append((n.left.id, ast.unparse(n.right.comparators[0])))
    if len(markers) < 2:
        raise AnalysisError(f"AttrSpec.__init__: the depth markers (`M * (colors == depth)`) were not found: {markers}")
    for m, depth in markers:
        reported = any(isinstance(t, ast.If) and any(isinstance(x, ast.Name) and x.id == m for x in ast.walk(t.test)) and not any(isinstance(x, ast.BitOr) for x in ast.walk(t.test)) and any(isinstance(r, ast.Return) and r.value is not None and ast.unparse(r.value) == depth for r in t.body) for t in getter.own_nodes())
        cleared = any(isinstance(a, ast.AugAssign) and isinstance(a.op, ast.BitAnd) and isinstance(a.value, ast.UnaryOp) and isinstance(a.value.op, ast.Invert) and isinstance(a.value.operand, ast.Name) and a.value.operand.id == m for a in init.own_nodes())
        rr.inst(f"marker {m}", True, {"marker": m, "depth": depth, "reported_by_colors": reported, "cleared_when_unused": cleared})
        if not (reported or cleared):
            rr.add(finding("SIB", init, init.node, f"__init__ sets the marker {m} for colors == {depth}, but the colors property does not answer {depth} for it and __init__ never clears it: a specification that uses no colour of that depth keeps the bit, reports a lower depth and is unequal to the specification rebuilt from (foreground, background, colors) - copy_modified() does not return an equal object", construct=f"depth marker {m} neither reported nor cleared"))
    return rr


def rule_describer_kind_first(ctx: Ctx) -> RuleResult:
    """What a colour number means is recorded per side in the kind flags (basic / high / true); the depth marker only
    says which palette a *high* number belongs to.  The describers (_foreground_color, the background getter)
    therefore decide on the kind first: every `_color_desc_*()` result is returned only where the side's own
    `*_basic` flag was tested false on the way.  Asking `colors == 88` first describes the basic colour 3 as 'h3' -
    re-parsed that is a high colour, the rebuilt specification is unequal to the original (seed C18-r8a)."""
    from ..rules.exc import ExcEngine
    from ..rules.util import cfg_of

    p = ctx.p
    rr = RuleResult("ORDER", "C18.16", "the colour describers return a depth-dependent description only after the side's basic-colour flag was tested false", floor=6)
    c = p.cls(f"{COMMON}.AttrSpec")
    for side, fi in (("foreground", c.methods.get("_foreground_color")), ("background", c.props["background"].getter if "background" in c.props else None)):
        if fi is None:
            raise AnalysisError(f"AttrSpec: describer of the {side} colour not found")
        cfg = cfg_of(fi)
        # (test, edge on which the side is known NOT to be a basic colour): `if self.x_basic:` -> F, `if not ...:` -> T
        tests = []
        for t in cfg.nodes:
            if t.kind != "test" or not any(isinstance(x, ast.Attribute) and x.attr == f"{side}_basic" for x in ast.walk(t.ast)) or isinstance(t.ast, ast.BoolOp):
                continue
            neg = isinstance(t.ast, ast.UnaryOp) and isinstance(t.ast.op, ast.Not)
            tests.append((t, "T" if neg else "F"))
        rets = [n for n in cfg.nodes if n.kind == "return" and n.ast.value is not None and any(isinstance(x, ast.Call) and isinstance(x.func, ast.Name) and x.func.id.startswith("_color_desc_") for x in ast.walk(n.ast.value))]
        if not rets:
            raise AnalysisError(f"{fi.qualname}: no _color_desc_*() return found")
        for r in rets:
            ok = any(r not in ExcEngine._reach_without_edge(cfg, t, edge) for t, edge in tests)
            rr.inst(f"{side}: {norm(r.ast, 50)}", True, {"describer": short(fi), "return": norm(r.ast, 60), "after_basic_flag_false": ok})
            if not ok:
                rr.add(finding("ORDER", fi, r.ast, f"`{norm(r.ast, 60)}` can be reached without `self.{side}_basic` having been tested false: a basic colour is described by its palette number ('h3' for brown at 88 colours), which parses back as a high colour - the specification rebuilt from the description is unequal to the original and hashes differently", construct=f"{side}: depth-dependent description before the basic-colour test"))
    return rr


def rule_repr_depths(ctx: Ctx) -> RuleResult:
    """__repr__ promises 'an executable python representation': the constructor's default depth reads a description
    with the 256-colour parser, so a specification whose depth marker selects another parser (88, 2**24) must be
    written with colors=.  Every marker depth of __init__ (`M * (colors == depth)`) is named by the test in __repr__
    that adds the colors= argument (or the argument is added unconditionally).  Before fix 14f26b0 only 88 was:
    eval(repr(AttrSpec('#123456', 'default', 2**24))) folded to '#135' at 256 colours."""
    from ..consteval import fold_expr

    p = ctx.p
    rr = RuleResult("SIB", "C18.15", "AttrSpec.__repr__ writes colors= for every depth whose marker selects its own colour parser", floor=2)
    init = p.func(f"{COMMON}.AttrSpec.__init__")
    rp = p.func(f"{COMMON}.AttrSpec.__repr__")
    mod = p.modules[COMMON]

    def val(e):
        try:
            return fold_expr(p, mod, e)
        except Exception:
            return None

    depths = []
    for n in init.own_nodes():
        if isinstance(n, ast.BinOp) and isinstance(n.op, ast.Mult) and isinstance(n.left, ast.Name) and isinstance(n.right, ast.Compare) and len(n.right.ops) == 1 and isinstance(n.right.ops[0], ast.Eq) and isinstance(n.right.left, ast.Name) and n.right.left.id in init.params:
            depths.append((n.left.id, val(n.right.comparators[0])))
    if len(depths) < 2 or any(d is None for _m, d in depths):
        raise AnalysisError(f"AttrSpec.__init__: the depth markers were not found / not constant: {depths}")
    def writes_colors(stmts):
        return any(isinstance(x, ast.Constant) and isinstance(x.value, str) and "colors=" in x.value for st in stmts for x in ast.walk(st))
    named = set()
    uncond = writes_colors([st for st in rp.node.body if not isinstance(st, ast.If)])
    for t in rp.own_nodes():
        if isinstance(t, ast.If) and writes_colors(t.body):
            for c in ast.walk(t.test):
                if isinstance(c, ast.Compare) and len(c.ops) == 1 and "colors" in ast.unparse(c.left):
                    if isinstance(c.ops[0], ast.Eq):
                        named.add(val(c.comparators[0]))
                    elif isinstance(c.ops[0], ast.In) and isinstance(c.comparators[0], (ast.Set, ast.Tuple, ast.List)):
                        named |= {val(e) for e in c.comparators[0].elts}
                    elif isinstance(c.ops[0], ast.NotIn) and isinstance(c.comparators[0], (ast.Set, ast.Tuple, ast.List)):
                        named |= {d for _m, d in depths} - {val(e) for e in c.comparators[0].elts}
    for m, d in depths:
        ok = uncond or d in named
        rr.inst(f"depth {d}", True, {"marker": m, "depth": d, "repr_writes_colors": ok})
        if not ok:
            rr.add(finding("SIB", rp, rp.node, f"__init__ reads colour descriptions with the parser selected by {m} when colors == {d}, but __repr__ writes colors= only for {sorted(x for x in named if x is not None)}: the printed expression is evaluated at the default depth and gives a different specification (eval(repr(spec)) != spec)", construct=f"repr omits colors={d}"))
    return rr


def run(ctx: Ctx):
    p = ctx.p
    c = p.cls(f"{COMMON}.AttrSpec")
    readers = [("__repr__", None)] + [(n, "prop") for n in ("foreground", "background")] + [("get_rgb_values", None)]
    entries = [(f"{COMMON}.AttrSpec.__init__", None), (f"{COMMON}.AttrSpec.__repr__", None), (f"{COMMON}.AttrSpec.get_rgb_values", None)]
    # property getters are registered under their own qualnames
    for nm in ("foreground", "background"):
        g = c.props[nm].getter
        if g is None:
            raise AnalysisError(f"AttrSpec.{nm} getter not found")
        entries.append((g.qualname, None))
    allowed = {f"{COMMON}.AttrSpec.__init__": {"AttrSpecError"}}
    out = [
        exc.run_exc(p, "C18.1", entries, allowed, C18_INFEASIBLE, floor=8,
                    description="only AttrSpecError may escape AttrSpec.__init__; nothing may escape the readers (modelled origins)", boundary_ok=C18_BOUNDARY_OK),
        rule_twins(ctx),
        rule_hash_eq(ctx),
        rule_tables(ctx),
        rule_depth_markers(ctx),
        rule_repr_depths(ctx),
        rule_describer_kind_first(ctx),
        rule_flags_accumulate(ctx),
        truthy.run_truthy(
            p, "C18.5", [f"{COMMON}.AttrSpec.__set_foreground", f"{COMMON}.AttrSpec.__set_background"], r"^_parse_color_|^index$|^_true_to_256$", floor=2,
            description="colour numbers (0 is a colour) returned by the parsers are distinguished from None by identity, never by truthiness",
        ),
        nullflow.run_nullflow(
            p, "C18.6", COMMON, [f"{COMMON}._true_to_256", f"{COMMON}.AttrSpec.__set_foreground", f"{COMMON}.AttrSpec.__set_background", f"{COMMON}._parse_color_256", f"{COMMON}._parse_color_88", f"{COMMON}._parse_color_true"],
            floor=5, description="results of the colour parsers (None = not recognised) are tested against None before they are used as numbers",
        ),
        rule_depth_masks(ctx),
        rule_high_bounds(ctx),
        rule_gray_ramp(ctx),
        rule_per_side_decode(ctx),
        rule_strict_numbers(ctx),
    ]
    out.append(rule_midpoint(ctx))
    return out


from ..mutants import Mut  # noqa: E402

_C = "urwid/display/common.py"
MUTANTS = [
    Mut("background-describer-depth-first", "urwid/display/common.py", "AttrSpec.background", "        if self.background_basic:\n            return _BASIC_COLORS[self.background_number]\n        if self.__value & _HIGH_88_COLOR:\n            return _color_desc_88(self.background_number)\n", "        if self.__value & _HIGH_88_COLOR:\n            return _color_desc_88(self.background_number)\n        if self.background_basic:\n            return _BASIC_COLORS[self.background_number]\n", "ORDER|display.common.AttrSpec.background|background: depth-dependent description before the basic-colour test"),
    Mut("twin-foreground-basic-test-spelled-bool", "urwid/display/common.py", "AttrSpec._foreground_color", "        if self.foreground_basic:\n            return _BASIC_COLORS", "        if bool(self.foreground_basic):\n            return _BASIC_COLORS", twin=True),
    Mut("repr-omits-truecolor-depth", "urwid/display/common.py", "AttrSpec.__repr__", "if self.colors in {88, 2**24}:", "if self.colors in {88}:", "SIB|display.common.AttrSpec.__repr__|repr omits colors=16777216"),
    Mut("twin-repr-depth-not-in-basic", "urwid/display/common.py", "AttrSpec.__repr__", "if self.colors in {88, 2**24}:", "if self.colors not in {1, 16, 256}:", twin=True),
    Mut("fold-88-low-digits", "urwid/display/common.py", "_parse_color_88", "            desc = desc[0:2] + desc[3] + desc[5]", "            desc = desc[::2]", "TAINT|display.common._parse_color_88|seven-character fold keeps other positions than 0, 1, 3, 5"),
    Mut("twin-fold-88-stepped-slice", "urwid/display/common.py", "_parse_color_88", "            desc = desc[0:2] + desc[3] + desc[5]", "            desc = desc[0] + desc[1::2]", twin=True),
    Mut("true-colour-foreground-resets-flags", "urwid/display/common.py", "urwid.display.common.AttrSpec.__set_foreground", "                flags |= _FG_TRUE_COLOR\n", "                flags = _FG_TRUE_COLOR\n", "ACCUM|display.common.AttrSpec.__set_foreground|flags reassigned inside the part loop"),
    Mut("true-colour-marker-kept", "urwid/display/common.py", "AttrSpec.__init__", "            self.__value &= ~_HIGH_TRUE_COLOR\n", "            pass\n", "SIB|display.common.AttrSpec.__init__|depth marker _HIGH_TRUE_COLOR neither reported nor cleared"),
    Mut("color-88-folds-before-validating", "urwid/display/common.py", "_parse_color_88", "            _int_digits(desc[1:], 16)\n            desc = desc[0:2] + desc[3] + desc[5]", "            desc = desc[0:2] + desc[3] + desc[5]", "TAINT|display.common._parse_color_88|seven-character fold before validation"),
    Mut("lookup-midpoint-bankers-rounding", "urwid/display/common.py", "_value_lookup_table", "(values[i] + values[i + 1] + 1) // 2", "round((values[i] + values[i + 1]) / 2)", "TAB|display.common._value_lookup_table"),
    Mut("lookup-midpoint-floor", "urwid/display/common.py", "_value_lookup_table", "(values[i] + values[i + 1] + 1) // 2", "(values[i] + values[i + 1]) // 2", "TAB|display.common._value_lookup_table"),
    Mut("twin-lookup-midpoint-reordered", "urwid/display/common.py", "_value_lookup_table", "(values[i] + values[i + 1] + 1) // 2", "(1 + values[i + 1] + values[i]) // 2", twin=True),
    Mut("hash-includes-dynamic-class", "urwid/display/common.py", "AttrSpec.__hash__", "return hash((AttrSpec, self.__value))", "return hash((self.__class__, self.__value))", "SIB|display.common.AttrSpec.__hash__"),
    Mut("high-colour-number-by-int", "urwid/display/common.py", "_parse_color_256", "            num = _int_digits(desc[1:], 10)", "            num = int(desc[1:], 10)", "TAINT|display.common._parse_color_256"),
    Mut("fold-any-seven-characters", "urwid/display/common.py", "_parse_color_88", "    if len(desc) == 7 and desc.startswith(\"#\"):", "    if len(desc) == 7:", "TAINT|display.common._parse_color_88"),
    Mut("rgb-decode-by-whole-spec-depth", "urwid/display/common.py", "AttrSpec.get_rgb_values", "        elif self.foreground_true:", "        elif self.colors == 2**24:", "GUARD|display.common.AttrSpec.get_rgb_values"),
    Mut("gray-ramp-entry-typo", "urwid/display/common.py", None, "    0x8A,\n", "    0x84,\n", "TAB|display.common._GRAY_STEPS_256"),
    Mut("colors-true-by-mode-flag", "urwid/display/common.py", "AttrSpec.colors", "if self.__value & (_BG_TRUE_COLOR | _FG_TRUE_COLOR):", "if self.__value & _HIGH_TRUE_COLOR:", "TAB|display.common.AttrSpec.colors"),
    Mut("twin-colors-true-pair-reordered", "urwid/display/common.py", "AttrSpec.colors", "if self.__value & (_BG_TRUE_COLOR | _FG_TRUE_COLOR):", "if self.__value & (_FG_TRUE_COLOR | _BG_TRUE_COLOR):", twin=True),
    Mut("h256-accepted", "urwid/display/common.py", "_parse_color_256", "if num < 0 or num > 255:", "if num < 0 or num > _GRAY_START_256 + _GRAY_SIZE_256:", "TAB|display.common._parse_color_256"),
    Mut("twin-h-bound-derived", "urwid/display/common.py", "_parse_color_256", "if num < 0 or num > 255:", "if num < 0 or num >= _GRAY_START_256 + _GRAY_SIZE_256:", twin=True),
    Mut("desc-88-rejects-zero", _C, "_color_desc_88", "if not 0 <= num < 88:", "if not 0 < num < 88:", "SIB|"),
    Mut("desc-256-cube-boundary", _C, "_color_desc_256", "if num < _GRAY_START_256:", "if num <= _GRAY_START_256:", "SIB|"),
    Mut("true-to-256-int-unguarded", _C, "_true_to_256", "    try:\n        c256 = _parse_color_256(\"#\" + \"\".join(format(_int_digits(x, 16) // 16, \"x\") for x in (desc[1:3], desc[3:5], desc[5:7])))\n    except ValueError:\n        return None", "    c256 = _parse_color_256(\"#\" + \"\".join(format(_int_digits(x, 16) // 16, \"x\") for x in (desc[1:3], desc[3:5], desc[5:7])))", "EXC|"),
    Mut("hash-ignores-value", _C, "AttrSpec.__hash__", "return hash((AttrSpec, self.__value))", "return hash(AttrSpec)", "SIB|"),
    Mut("eq-ignores-truecolor-marker", _C, "AttrSpec.__eq__", "return isinstance(other, AttrSpec) and self.__value == other._value", "return isinstance(other, AttrSpec) and (self.__value ^ other._value) & ~_HIGH_TRUE_COLOR == 0", "SIB|"),
    Mut("true-to-256-none-unchecked", _C, "_true_to_256", "    if c256 is None:\n        return None\n", "", "NULLFLOW|display.common._true_to_256"),
    Mut("foreground-colour-truthiness", _C, "AttrSpec.__set_foreground", "            if color is not None:\n                raise AttrSpecError(f\"More than one color given", "            if color:\n                raise AttrSpecError(f\"More than one color given", "TRUTHY|"),
    Mut("twin-desc-88-bounds-split", _C, "_color_desc_88", "if not 0 <= num < 88:", "if not (0 <= num < 88):", twin=True),
]
