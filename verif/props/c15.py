"""C15 - the terminal emulator survives any output."""

from __future__ import annotations

import ast

from ..core import Ctx, RuleResult, finding, short, walk_no_nested
from ..model import AnalysisError, norm
from ..rules import exc, kind, prog
from ..rules import alias, lookahead
from ..rules.exc import ExcEngine
from ..rules.util import callee_name, calls_in, cfg_of, node_exprs, nodes_where
from ..tables import C15_BOUNDARY_OK, C15_INFEASIBLE

EXPLANATION = (
    "Decided (necessary structural conditions of C15): (1) EXC: no modelled exception (explicit raises incl. AttrSpecError through AttrSpec(...), strict decode/encode, int(), "
    "unpacking, lookups in module-level tables) can escape TermCanvas.addstr/addbyte/resize, with the CSI dispatch resolved through the CSI_COMMANDS table; "
    "(2) TAB: every CSI alias targets an existing non-alias entry, every callback indexes its argument list only below the declared minimum argument count, and parse_csi is reached "
    "only under `char in CSI_COMMANDS`; (3) WRITER: term_cursor is written only from constrain_coords(...), the scrolling region only by reset_scroll, resize (+1 with an appended row) "
    "and csi_set_scroll (clamped, under top < bottom <= height); (4) grid shape: outside resize/reset every insert into a row or into the grid is paired with a pop of the same list "
    "in the same block (and vice versa), and whole-row stores are empty_line(); (5) PROG: every while loop of the emulator assigns its driving variable on every back edge."
    ' Added after seed round 3: (11) every path through push_cursor stores is_rotten_cursor; (12) the reverse and forward arms of linefeed test mirrored comparisons.'
    ' Round 4: C15.4 follows locals bound to a grid row (`line = self.term[y]`); (13) every scroll decision of linefeed / push_cursor compares the row with the scroll-region margin.'
    ' Round-4 triage: (14) scroll / IL / DL pop before they insert and IL / DL return outside the scrolling region; (15) erase calls pass inclusive cursor coordinates; (16) the canvas cursor is built from constrained coordinates; (17) counting loops driven by an escape-sequence parameter are clamped with min() first; (18) SGR state: csi_set_attr() undoes exactly the colour adjustment sgi_to_attrspec() applies (bold->bright, foreground only) and no SGR parameter is interpreted by fixed position; (19) lines leaving the scrollback are cut / padded to the current width and shortening the scrollback re-clamps scrolling_up. Round 5: (18) the undo also repeats the colour-depth test of the mapping; (20) no slice bound of TermCanvas is an unclamped difference of runtime quantities. Round-5 triage: (13, sharpened) the region scrolls under equality with the margin, in push_cursor as in linefeed; (21) SHADOW - no loop target clobbers a live local; (22) the fixed-length palette sequence is complete with the 7th buffered character; (23) ED corners ignore the scrolling margins.'
    ' Round 6: (24) BOUND: every look-ahead read L[i + k] in vterm.py is covered by a length test i + m < len(L) with m >= k (earlier operand of the same `and`, or a dominating test): SGR 38;5 / 38;2 with the parameters cut short must not raise IndexError.'
    ' (25) ALIAS: the classes TermCanvas freezes with copy.copy() (save_cursor: AttrSpec, TermCharset) never edit one of their container attributes in place (fix 43a10ab: DECSC / DECRC restores the G0 / G1 designations).'
    ' Round 8: (26) ALIAS: saved and live cursor attributes never share an object (both directions copy); (27) SIB: each arm of scroll() pops at one margin of the region and inserts at the other.'
    ' Round-8 triage: (11) now also covers carriage return (fix 90ead6e); (28) WRITER: pure cursor movements call no cell writer (fix 8ed1786); (29) ORDER: ESC resets the parser before opening a new sequence (fix abf2912); (30) PAIR: resize() shifts the cursor row with every line moved to / from the scrollback (fix a4455ef).'
)
NOT_DECIDED = (
    "Index-bounds safety of every self.term[y][x] access (IndexError is outside the exception model; only the clamp discipline is decided), width normalisation of rows returned "
    "from the scrollback on resize, VT100 fidelity, scrollback order, reply formats."
)
ASSUMPTIONS = ["Calls on receivers of unknown type inside vterm.py (e.g. self.widget.*, deque/list methods) are not followed."]

VT = "urwid.vterm"
SHAPE_EXEMPT = {"resize", "__init__", "reset", "clear"}


def rule_csi_table(ctx: Ctx) -> RuleResult:
    p = ctx.p
    rr = RuleResult("TAB", "C15.2", "CSI_COMMANDS: aliases resolve, callbacks index arguments below the declared count, parse_csi only under `char in CSI_COMMANDS`", floor=30)
    m = p.modules[VT]
    b = m.bindings.get("CSI_COMMANDS")
    if b is None or b[0] != "assign" or not isinstance(b[1], ast.Dict):
        raise AnalysisError("vterm.CSI_COMMANDS dict literal not found")
    d = b[1]
    entries = {}
    for k, v in zip(d.keys, d.values):
        if not (isinstance(k, ast.Constant) and isinstance(k.value, bytes)):
            raise AnalysisError(f"CSI_COMMANDS key {ast.unparse(k)} is not a bytes literal")
        entries[k.value] = v
    for key, v in entries.items():
        ident = f"CSI {key!r}"
        if isinstance(v, ast.Call) and callee_name(v) == "CSIAlias":
            tgt = v.args[1] if len(v.args) > 1 else None
            ok = isinstance(tgt, ast.Constant) and tgt.value in entries and not (isinstance(entries[tgt.value], ast.Call) and callee_name(entries[tgt.value]) == "CSIAlias")
            rr.inst(ident, True, {"key": repr(key), "alias_of": repr(getattr(tgt, "value", None)), "resolves": ok} if len(rr.samples) < 2 else None)
            if not ok:
                rr.add(finding("TAB", "vterm.CSI_COMMANDS", v, f"alias {key!r} -> {ast.unparse(tgt) if tgt else '?'} does not name an existing non-alias entry: parse_csi would raise KeyError/TypeError for this command", construct=f"alias {key!r} unresolved", file=m.relpath))
            continue
        if isinstance(v, ast.Constant) and v.value is None:
            rr.inst(ident, False)
            continue
        if not (isinstance(v, ast.Call) and callee_name(v) == "CSICommand" and len(v.args) == 3):
            if isinstance(v, ast.Tuple) and len(v.elts) == 3:
                nargs, _default, cb = v.elts
            else:
                rr.inst(ident, True)
                rr.add(finding("TAB", "vterm.CSI_COMMANDS", v, f"entry {key!r} is neither CSICommand(n, default, callback) nor CSIAlias", construct=f"entry {key!r} malformed", file=m.relpath))
                continue
        else:
            nargs, _default, cb = v.args
        if not (isinstance(nargs, ast.Constant) and isinstance(nargs.value, int)) or not isinstance(cb, ast.Lambda):
            rr.inst(ident, True)
            rr.add(finding("TAB", "vterm.CSI_COMMANDS", v, f"entry {key!r}: argument count is not an integer literal or the callback is not a lambda", construct=f"entry {key!r} not analysable", file=m.relpath))
            continue
        ps = [a.arg for a in cb.args.args]
        if len(ps) != 3:
            rr.inst(ident, True)
            rr.add(finding("TAB", "vterm.CSI_COMMANDS", cb, f"callback of {key!r} takes {len(ps)} parameters; parse_csi calls it with (canvas, arguments, qmark)", construct=f"entry {key!r} callback arity", file=m.relpath))
            continue
        argname = ps[1]
        mx = -1
        for n in ast.walk(cb.body):
            if isinstance(n, ast.Subscript) and isinstance(n.value, ast.Name) and n.value.id == argname and isinstance(n.slice, ast.Constant) and isinstance(n.slice.value, int):
                mx = max(mx, n.slice.value)
        rr.inst(ident, True, {"key": repr(key), "declared_args": nargs.value, "max_index_used": mx} if len(rr.samples) < 4 else None)
        if mx >= nargs.value:
            rr.add(finding("TAB", "vterm.CSI_COMMANDS", cb, f"callback of {key!r} reads argument [{mx}] but only {nargs.value} argument(s) are guaranteed: a shorter sequence raises IndexError", construct=f"entry {key!r} indexes beyond declared count", file=m.relpath))
    # parse_csi reached only under `char in CSI_COMMANDS`
    pe = p.func(f"{VT}.TermCanvas.parse_escape")
    cfg = cfg_of(pe)
    calls = [c for c in calls_in(pe, "parse_csi")]
    rr.inst("parse_csi call sites guarded", True, {"call_sites": len(calls)})
    if not calls:
        raise AnalysisError("parse_escape no longer calls parse_csi")
    for c in calls:
        arg = ast.unparse(c.args[0]) if c.args else "?"
        cn = nodes_where(cfg, lambda s, c=c: s is c)
        tests = [n for n in cfg.nodes if n.kind == "test" and any(isinstance(x, ast.Compare) and isinstance(x.ops[0], ast.In) and ast.unparse(x.left) == arg and ast.unparse(x.comparators[0]) == "CSI_COMMANDS" and ExcEngine._compare_decides(n.ast, x, "T") for x in ast.walk(n.ast))]
        ok = any(all(h not in ExcEngine._reach_without_edge(cfg, t, "T") for h in cn) for t in tests)
        if not ok:
            rr.add(finding("TAB", pe, c, f"parse_csi({arg}) is reachable without `{arg} in CSI_COMMANDS` having been established: an unknown final byte would raise KeyError", construct="parse_csi call not guarded by membership test"))
    return rr


def rule_writers(ctx: Ctx) -> RuleResult:
    p = ctx.p
    rr = RuleResult("WRITER", "C15.3", "term_cursor is stored only from constrain_coords(); the scrolling region only by its three clamped writers", floor=6)
    tc = p.cls(f"{VT}.TermCanvas")
    for fi, s, st in prog.attr_stores(p, tc, "term_cursor"):
        ident = f"{short(fi)}:{norm(st, 70)}"
        rr.inst(ident, True, {"writer": short(fi), "store": norm(st, 70)})
        if fi.name == "__init__":
            ok = isinstance(st, (ast.Assign, ast.AnnAssign)) and isinstance(st.value, ast.Tuple) and all(isinstance(e, ast.Constant) and e.value == 0 for e in st.value.elts)
            if not ok:
                rr.add(finding("WRITER", fi, st, "__init__ initialises term_cursor to something other than (0, 0)", construct=norm(st, 80)))
            continue
        ok = fi.name == "set_term_cursor" and isinstance(st, ast.Assign) and isinstance(st.value, ast.Call) and callee_name(st.value) == "constrain_coords"
        if not ok:
            rr.add(finding("WRITER", fi, st, "term_cursor is written outside set_term_cursor() or from a value that did not pass constrain_coords(): the cursor could leave the grid", construct=norm(st, 80)))
    for attr in ("scrollregion_start", "scrollregion_end"):
        for fi, s, st in prog.attr_stores(p, tc, attr):
            ident = f"{short(fi)}:{norm(st, 70)}"
            rr.inst(ident, True)
            v = getattr(st, "value", None)
            ok = False
            why = ""
            if fi.name in ("__init__", "reset_scroll"):
                want0 = attr.endswith("start")
                ok = (isinstance(v, ast.Constant) and v.value == 0) if want0 else (ast.unparse(v) == "self.height - 1")
                why = "must be 0 / self.height - 1"
            elif fi.name == "resize":
                # += 1 together with an appended row
                ok = isinstance(st, ast.AugAssign) and isinstance(st.op, ast.Add) and isinstance(v, ast.Constant) and v.value == 1 and attr.endswith("end")
                if ok:
                    cfg = cfg_of(fi)
                    sn = cfg.stmt_nodes(st)
                    app = nodes_where(cfg, lambda x: isinstance(x, ast.Call) and isinstance(x.func, ast.Attribute) and x.func.attr == "append" and ast.unparse(x.func.value) == "self.term")
                    ok = bool(app) and all(cfg.dominated(n, app) for n in sn)
                why = "must be `+= 1` dominated by self.term.append(...)"
            elif fi.name == "csi_set_scroll":
                ok = isinstance(v, ast.Subscript) and isinstance(v.value, ast.Call) and callee_name(v.value) == "constrain_coords" and isinstance(v.slice, ast.Constant) and v.slice.value == 1
                if ok:
                    cfg = cfg_of(fi)
                    sn = cfg.stmt_nodes(st)
                    guards = [n for n in cfg.nodes if n.kind == "test" and isinstance(n.ast, ast.Compare) and len(n.ast.ops) == 2 and isinstance(n.ast.ops[0], ast.Lt) and isinstance(n.ast.ops[1], ast.LtE) and ast.unparse(n.ast.comparators[-1]) == "self.height"]
                    ok = any(all(h not in ExcEngine._reach_without_edge(cfg, g, "T") for h in sn) for g in guards)
                why = "must be constrain_coords(...)[1] under `top < bottom <= self.height`"
            if not ok:
                rr.add(finding("WRITER", fi, st, f"{attr} is written by {fi.name}() in a form that is not one of the clamped writers ({why or 'only reset_scroll, resize and csi_set_scroll may write it'})", construct=norm(st, 80)))
    return rr


_ROW_ALIASES: dict = {}


def _grid_target(e):
    """'grid' for self.term, 'row' for self.term[...] (or a local bound to it), else None"""
    t = ast.unparse(e)
    if t == "self.term":
        return "grid"
    if isinstance(e, ast.Name) and e.id in _ROW_ALIASES:
        return "row:" + _ROW_ALIASES[e.id]
    if isinstance(e, ast.Subscript) and ast.unparse(e.value) == "self.term" and not isinstance(e.slice, ast.Slice):
        return "row:" + ast.unparse(e.slice)
    return None


def rule_grid_shape(ctx: Ctx) -> RuleResult:
    p = ctx.p
    rr = RuleResult("PAIR", "C15.4", "outside resize/reset, inserts into the grid or a row are paired with a pop of the same list in the same block; row stores are empty_line()", floor=6)
    tc = p.cls(f"{VT}.TermCanvas")
    for fi in p.all_class_functions(tc):
        if fi.name in SHAPE_EXEMPT:
            continue
        # locals bound to a row of the grid (`line = self.term[y]`) are the row itself
        _ROW_ALIASES.clear()
        for n_ in fi.own_nodes():
            if isinstance(n_, ast.Assign) and len(n_.targets) == 1 and isinstance(n_.targets[0], ast.Name) and isinstance(n_.value, ast.Subscript) and ast.unparse(n_.value.value) == "self.term" and not isinstance(n_.value.slice, ast.Slice):
                _ROW_ALIASES[n_.targets[0].id] = ast.unparse(n_.value.slice)

        def scan(body):
            grow, shrink = {}, {}
            for st in body:
                # nested blocks are scanned on their own
                for fld in ("body", "orelse", "finalbody"):
                    sub = getattr(st, fld, None)
                    if isinstance(sub, list) and sub and isinstance(sub[0], ast.stmt):
                        scan(sub)
                for h in getattr(st, "handlers", []) or []:
                    scan(h.body)
                if isinstance(st, (ast.If, ast.For, ast.While, ast.With, ast.Try, ast.FunctionDef)):
                    continue
                for n in walk_no_nested(st):
                    if isinstance(n, ast.Call) and isinstance(n.func, ast.Attribute):
                        tgt = _grid_target(n.func.value)
                        if tgt is None:
                            continue
                        if n.func.attr in ("insert", "append"):
                            grow.setdefault(tgt, []).append(n)
                        elif n.func.attr == "pop":
                            shrink.setdefault(tgt, []).append(n)
                        elif n.func.attr in ("extend", "clear", "remove", "reverse", "sort"):
                            rr.inst(f"{short(fi)}:{norm(n, 60)}", True)
                            rr.add(finding("PAIR", fi, n, f"`{norm(n, 60)}` changes the grid's shape in a way the pairing rule cannot balance", construct=norm(n, 80)))
                    elif isinstance(n, ast.Delete):
                        for t in n.targets:
                            if isinstance(t, ast.Subscript):
                                tgt = _grid_target(t.value)
                                if tgt:
                                    shrink.setdefault(tgt, []).append(n)
                    elif isinstance(n, (ast.Assign, ast.AugAssign)):
                        tgts = n.targets if isinstance(n, ast.Assign) else [n.target]
                        for t in tgts:
                            if isinstance(t, ast.Subscript) and isinstance(t.slice, ast.Slice) and _grid_target(t.value):
                                rr.inst(f"{short(fi)}:{norm(n, 60)}", True)
                                rr.add(finding("PAIR", fi, n, f"slice assignment `{norm(n, 60)}` can change the length of a grid row / the grid", construct=norm(n, 80)))
                            elif _grid_target(t) and _grid_target(t).startswith("row:"):
                                v = n.value
                                ok = isinstance(n, ast.Assign) and isinstance(v, ast.Call) and callee_name(v) == "empty_line"
                                rr.inst(f"{short(fi)}:{norm(n, 60)}", True)
                                if not ok:
                                    rr.add(finding("PAIR", fi, n, f"whole-row store `{norm(n, 60)}` is not `self.empty_line(...)`: the row's width is not guaranteed", construct=norm(n, 80)))
                            elif _grid_target(t) == "grid":
                                rr.inst(f"{short(fi)}:{norm(n, 60)}", True)
                                rr.add(finding("PAIR", fi, n, f"`{norm(n, 60)}` replaces the whole grid outside resize/reset/clear", construct=norm(n, 80)))
            for tgt in set(grow) | set(shrink):
                g, s = grow.get(tgt, []), shrink.get(tgt, [])
                anchor = (g or s)[0]
                rr.inst(f"{short(fi)}:{tgt}:{norm(anchor, 50)}", True, {"function": short(fi), "list": tgt, "inserts": len(g), "pops": len(s)} if len(rr.samples) < 5 else None)
                if len(g) != len(s):
                    rr.add(finding("PAIR", fi, anchor, f"{len(g)} insert/append and {len(s)} pop/del on {tgt.replace('row:', 'self.term[') + (']' if tgt.startswith('row:') else '') if tgt != 'grid' else 'self.term'} in one block: the grid would stop being height x width", construct=f"unbalanced shape change on {tgt}"))

        scan(fi.node.body)
    return rr


def rule_nullable_args(ctx: Ctx) -> RuleResult:
    """parse_csi collects CSI parameters as Optional[int] (None for an empty / non-numeric field) and hands
    the list to the command callbacks, which do arithmetic and comparisons on them.  Every element - not only
    the declared ones - must have been replaced by the default before the hand-over."""
    p = ctx.p
    rr = RuleResult("NULLABLE", "C15.7", "the CSI argument list may hold None only until a sanitising loop over the whole list has replaced it, before the list reaches a command callback", floor=2)
    fi = p.func(f"{VT}.TermCanvas.parse_csi")
    cfg = cfg_of(fi)
    # list locals that can receive None
    nullable = set()
    for n in fi.own_nodes():
        if isinstance(n, ast.Call) and isinstance(n.func, ast.Attribute) and n.func.attr == "append" and isinstance(n.func.value, ast.Name) and n.args:
            a = n.args[0]
            vals = [a]
            if isinstance(a, ast.Name):
                vals = [x.value for x in fi.own_nodes() if isinstance(x, ast.Assign) and any(isinstance(t, ast.Name) and t.id == a.id for t in x.targets)]
            if any(isinstance(v, ast.Constant) and v.value is None for v in vals):
                nullable.add(n.func.value.id)
    if not nullable:
        raise AnalysisError("parse_csi: no list receiving None found (the argument parsing changed shape)")
    for lst in sorted(nullable):
        rr.inst(f"nullable list {lst}", True, {"list": lst})
        # sanitising loops: for i in range(len(L)) / for i, x in enumerate(L) with `L[i] = ...` under a None test of L[i]
        sanit = []
        for h in cfg.nodes:
            if h.kind != "for":
                continue
            it = h.ast.iter
            whole = False
            if isinstance(it, ast.Call) and isinstance(it.func, ast.Name) and it.func.id == "range" and len(it.args) == 1:
                a0 = it.args[0]
                whole = isinstance(a0, ast.Call) and isinstance(a0.func, ast.Name) and a0.func.id == "len" and a0.args and isinstance(a0.args[0], ast.Name) and a0.args[0].id == lst
            elif isinstance(it, ast.Call) and isinstance(it.func, ast.Name) and it.func.id == "enumerate" and it.args and isinstance(it.args[0], ast.Name) and it.args[0].id == lst:
                whole = True
            stores = [x for x in ast.walk(h.ast) if isinstance(x, ast.Subscript) and isinstance(x.ctx, ast.Store) and isinstance(x.value, ast.Name) and x.value.id == lst]
            tests_none = any(isinstance(c, ast.Compare) and isinstance(c.ops[0], ast.Is) and isinstance(c.comparators[0], ast.Constant) and c.comparators[0].value is None for c in ast.walk(h.ast))
            if stores and tests_none:
                if whole:
                    sanit.append(h)
                else:
                    rr.inst(f"partial sanitiser {norm(h.stmt, 50)}", True)
        # rebinding through a comprehension over the whole list also sanitises
        for n in cfg.nodes:
            a = n.ast
            if isinstance(a, ast.Assign) and any(isinstance(t, ast.Name) and t.id == lst for t in a.targets) and isinstance(a.value, ast.ListComp) and any(isinstance(g.iter, ast.Name) and g.iter.id == lst for g in a.value.generators) and "None" in ast.unparse(a.value):
                sanit.append(n)
        # hand-over sites: the list passed as an argument to a non-builtin call
        for c in fi.own_nodes():
            if not isinstance(c, ast.Call) or not any(isinstance(a, ast.Name) and a.id == lst for a in c.args):
                continue
            if isinstance(c.func, ast.Name) and c.func.id in ("len", "range", "enumerate", "list", "tuple"):
                continue
            if isinstance(c.func, ast.Attribute) and isinstance(c.func.value, ast.Name) and c.func.value.id == lst:
                continue
            cn = nodes_where(cfg, lambda x, c=c: x is c)
            rr.inst(f"hand-over {norm(c, 50)}", True, {"call": norm(c, 60), "sanitising_loops": len(sanit)})
            # the F (exhausted) edge of a whole-list sanitising loop must dominate the call
            ok = bool(sanit) and all(any(n not in cfg.reachable([cfg.entry], avoid=[h], include_start=True) for h in sanit) for n in cn)
            if not ok:
                rr.add(finding("NULLABLE", fi, c, f"`{norm(c, 50)}` receives `{lst}`, which can still contain None (empty or non-numeric CSI parameter): no loop over the whole list (`range(len({lst}))`) replaces None before the hand-over, and the callbacks compare / add these values (TypeError is not suppressed)", construct=f"{lst} handed over with possible None"))
    return rr


def rule_resize_width_first(ctx: Ctx) -> RuleResult:
    p = ctx.p
    rr = RuleResult("ORDER", "C15.4b", "resize() stores the new width before it creates or re-inserts any row, so every row it adds has the new width", floor=2)
    fi = p.func(f"{VT}.TermCanvas.resize")
    cfg = cfg_of(fi)
    wparam = fi.params[1]
    stores = [n for n in cfg.nodes if isinstance(n.ast, ast.Assign) and any(isinstance(t, ast.Attribute) and t.attr == "width" and isinstance(t.value, ast.Name) and t.value.id == fi.self_name for t in ast.walk(n.ast) if isinstance(t, ast.Attribute) and isinstance(t.ctx, ast.Store))]
    good = []
    for n in stores:
        a = n.ast
        # self.width = width   or   self.width, self.height = width, height
        for t in a.targets:
            if isinstance(t, ast.Attribute) and ast.unparse(a.value) == wparam:
                good.append(n)
            elif isinstance(t, ast.Tuple) and isinstance(a.value, ast.Tuple):
                for te, ve in zip(t.elts, a.value.elts):
                    if isinstance(te, ast.Attribute) and te.attr == "width" and ast.unparse(ve) == wparam:
                        good.append(n)
    if not good:
        rr.inst("width store", True)
        rr.add(finding("ORDER", fi, fi.node, f"resize() never stores the new width (`self.width = {wparam}`)", construct="resize: width never stored"))
        return rr
    grows = nodes_where(cfg, lambda x: isinstance(x, ast.Call) and isinstance(x.func, ast.Attribute) and x.func.attr in ("append", "insert") and ast.unparse(x.func.value) == "self.term")
    for g in grows:
        rr.inst(f"row added: {norm(g.stmt, 50)}", True, {"statement": norm(g.stmt, 60)})
        if not cfg.dominated(g, good):
            rr.add(finding("ORDER", fi, g.stmt, f"`{norm(g.stmt, 50)}` adds a row to the grid on a path where `self.width` still holds the old width: rows built by empty_line() / normalised to self.width get the old number of cells and the grid is no longer height x width", construct=f"row added before the width store: {norm(g.stmt, 50)}"))
    return rr


def rule_row_fresh(ctx: Ctx) -> RuleResult:
    """Every row put into the grid must be a list of its own: a row object inserted twice (built once outside
    a loop) makes later writes to one line show up on the other."""
    from ..rules.defuse import DefUse

    p = ctx.p
    rr = RuleResult("ALIAS", "C15.4c", "every row inserted into the grid is created per insertion (no list object shared between two grid rows)", floor=6)
    tc = p.cls(f"{VT}.TermCanvas")
    for fi in p.all_class_functions(tc):
        sites = []
        for n in fi.own_nodes():
            if isinstance(n, ast.Call) and isinstance(n.func, ast.Attribute) and ast.unparse(n.func.value) == "self.term" and n.func.attr in ("insert", "append") and n.args:
                sites.append((n, n.args[-1]))
            elif isinstance(n, ast.Assign) and len(n.targets) == 1 and isinstance(n.targets[0], ast.Subscript) and ast.unparse(n.targets[0].value) == "self.term" and not isinstance(n.targets[0].slice, ast.Slice):
                sites.append((n, n.value))
        if not sites:
            continue
        du = DefUse(fi)
        cfg = du.cfg
        for site, val in sites:
            at = du.node_of(site)
            if at is None:
                continue
            ident = f"{short(fi)}:{norm(site, 50)}"
            loops = [h for h in cfg.nodes if (h.kind == "for" or (h.kind == "test" and isinstance(h.stmt, ast.While))) and at in cfg.reachable_from_edges([(h, "T")], avoid=[h]) and h in cfg.reachable([at])]
            ok = True
            why = ""
            if isinstance(val, ast.Name):
                for v, how, dn in du.reaching(val.id, at):
                    fresh = isinstance(v, (ast.Call, ast.List, ast.ListComp, ast.BinOp)) or (isinstance(v, ast.Subscript) and isinstance(v.slice, ast.Slice))
                    if isinstance(v, ast.Call) and isinstance(v.func, ast.Attribute) and v.func.attr in ("pop", "popleft"):
                        fresh = True  # ownership moves out of the other container
                    in_same_iteration = all(dn in cfg.reachable_from_edges([(h, "T")], avoid=[h]) for h in loops)
                    if how in ("augassign",):
                        continue
                    if not fresh:
                        ok, why = False, f"`{val.id}` is bound to `{norm(v, 40) if v is not None else how}`, not to a newly created list"
                    elif loops and not in_same_iteration:
                        ok, why = False, f"`{val.id}` is created once (before the loop) and inserted on every iteration"
            elif isinstance(val, (ast.Attribute,)):
                ok, why = False, f"`{norm(val, 40)}` is an existing object"
            elif isinstance(val, ast.Subscript) and not isinstance(val.slice, ast.Slice):
                ok, why = False, f"`{norm(val, 40)}` is an existing row"
            rr.inst(ident, True, {"function": short(fi), "site": norm(site, 60), "fresh_per_insertion": ok} if len(rr.samples) < 5 else None)
            if not ok:
                rr.add(finding("ALIAS", fi, site, f"`{norm(site, 60)}`: {why}; two grid rows then share one list, so output on one line appears on the other and a later widening resize extends the shared row twice", construct=f"shared row object: {norm(site, 60)}"))
    return rr


def rule_resize_state_order(ctx: Ctx) -> RuleResult:
    p = ctx.p
    rr = RuleResult("ORDER", "C15.4d", "in resize(), helpers that read self.width / self.height are called only after the new value was stored", floor=4)
    tc = p.cls(f"{VT}.TermCanvas")
    fi = p.func(f"{VT}.TermCanvas.resize")
    cfg = cfg_of(fi)

    def reads(attr, f, depth=0, seen=None):
        seen = seen if seen is not None else set()
        if f.qualname in seen or depth > 3:
            return False
        seen.add(f.qualname)
        for n in f.own_nodes():
            if isinstance(n, ast.Attribute) and n.attr == attr and isinstance(n.value, ast.Name) and n.value.id == f.self_name and isinstance(n.ctx, ast.Load):
                return True
            if isinstance(n, ast.Call) and isinstance(n.func, ast.Attribute) and isinstance(n.func.value, ast.Name) and n.func.value.id == f.self_name:
                g = p.find_member(tc, n.func.attr)
                if g and g[0] == "method" and reads(attr, g[1], depth + 1, seen):
                    return True
        return False

    for attr, prm in (("width", fi.params[1]), ("height", fi.params[2])):
        stores = []
        for n in cfg.nodes:
            a = n.ast
            if isinstance(a, ast.Assign):
                for t in a.targets:
                    if isinstance(t, ast.Attribute) and t.attr == attr and ast.unparse(a.value) == prm:
                        stores.append(n)
                    elif isinstance(t, ast.Tuple) and isinstance(a.value, ast.Tuple):
                        for te, ve in zip(t.elts, a.value.elts):
                            if isinstance(te, ast.Attribute) and te.attr == attr and ast.unparse(ve) == prm:
                                stores.append(n)
        for n in cfg.nodes:
            if n.ast is None or n.kind in ("for", "with", "handler"):
                continue
            for c in walk_no_nested(n.ast):
                if isinstance(c, ast.Call) and isinstance(c.func, ast.Attribute) and isinstance(c.func.value, ast.Name) and c.func.value.id == fi.self_name:
                    g = p.find_member(tc, c.func.attr)
                    if not (g and g[0] == "method") or not reads(attr, g[1]):
                        continue
                    rr.inst(f"{attr}:{norm(c, 40)}@{n.lineno - fi.node.lineno}", True, {"call": norm(c, 50), "reads": f"self.{attr}"} if len(rr.samples) < 6 else None)
                    if not stores or not cfg.dominated(n, stores):
                        rr.add(finding("ORDER", fi, n.stmt, f"`{norm(c, 50)}` reads self.{attr}, but on some path resize() calls it before `self.{attr} = {prm}`: it still works with the old {attr} (rows of the old width, tab stops / scroll region for the old size)", construct=f"{c.func.attr}() before self.{attr} is stored"))
    return rr


# functions that manage the pending wrap themselves or move relative to a position where the flag stays meaningful
ROTTEN_MANAGERS = {
    "push_cursor": "decides the flag for every character written",
    "push_char": "writes one character at given coordinates for push_cursor",
    "process_char": "backspace: one step left of the current cell",
    "linefeed": "keeps the column; the wrap stays pending on the new row as on xterm",
    "resize": "clamps the cursor into the new grid",
}


_PURE_MOVES = ("tab", "carriage_return", "move_cursor", "save_cursor", "restore_cursor")


def rule_moves_do_not_write(ctx: Ctx) -> RuleResult:
    """'screen contents ... equal those of a VT100-style terminal fed the same bytes': HT, CR, the cursor-addressing
    sequences and DECSC / DECRC move the cursor and change no cell.  The functions that implement them (a confirmed
    list) call none of the cell writers - set_char, push_char, erase, insert / remove of characters or lines, blank
    lines - directly.  Before fix 8ed1786 tab() called set_char(b' ') at the unchanged cursor on every step:
    'ab\\r\\t' blanked the 'a'."""
    p = ctx.p
    rr = RuleResult("WRITER", "C15.28", "the pure cursor movements of TermCanvas (tab, carriage return, cursor addressing, save / restore) call no cell writer", floor=5)
    writers = {"set_char", "push_char", "erase", "insert_chars", "remove_chars", "insert_lines", "remove_lines", "empty_line", "empty_char", "clear", "blank_line", "scroll"}
    tc = p.cls(f"{VT}.TermCanvas")
    for name in _PURE_MOVES:
        fi = tc.methods.get(name)
        if fi is None:
            raise AnalysisError(f"TermCanvas.{name} not found (pure-movement table)")
        hits = [c for c in fi.own_nodes() if isinstance(c, ast.Call) and isinstance(c.func, ast.Attribute) and c.func.attr in writers and isinstance(c.func.value, ast.Name) and c.func.value.id == fi.self_name]
        rr.inst(name, True, {"function": name, "cell_writers_called": [norm(c, 30) for c in hits]})
        for c in hits:
            rr.add(finding("WRITER", fi, c, f"{name}() is a pure cursor movement but calls `{norm(c, 40)}`: a cell changes although the byte sequence only moves the cursor - the screen differs from a VT100 fed the same bytes", construct=f"{name}: cell writer {c.func.attr} in a pure movement"))
    return rr


def rule_esc_restarts(ctx: Ctx) -> RuleResult:
    """An ESC that arrives while a control sequence is still unfinished abandons that sequence and begins a new one
    (ECMA-48 / every VT100-style terminal).  process_char()'s ESC arm therefore resets the parser - parsestate and
    the sequence buffer, i.e. leave_escape() - before it marks the start of the new sequence.  Before fix abf2912 it
    only set within_escape: `zz ESC[1 ESC[2J x` stayed in the old CSI, the '[' aborted it and `2Jx` was printed."""
    from ..rules.exc import ExcEngine

    p = ctx.p
    rr = RuleResult("ORDER", "C15.29", "the ESC arm of process_char resets the parser state before it opens the new sequence", floor=1)
    fi = p.func(f"{VT}.TermCanvas.process_char")
    cfg = cfg_of(fi)
    tests = [t for t in cfg.nodes if t.kind == "test" and "ESC_B" in ast.unparse(t.ast)]
    if not tests:
        raise AnalysisError("process_char: the ESC test was not found")
    opens = [n for n in cfg.nodes if isinstance(n.ast, ast.Assign) and any(isinstance(t, ast.Attribute) and t.attr == "within_escape" for t in n.ast.targets) and isinstance(n.ast.value, ast.Constant) and n.ast.value.value is True and any(n not in ExcEngine._reach_without_edge(cfg, t, "T") for t in tests)]
    if not opens:
        raise AnalysisError("process_char: `self.within_escape = True` under the ESC test was not found")
    resets = nodes_where(cfg, lambda c: isinstance(c, ast.Call) and isinstance(c.func, ast.Attribute) and c.func.attr == "leave_escape") + [n for n in cfg.nodes if isinstance(n.ast, ast.Assign) and any(isinstance(t, ast.Attribute) and t.attr == "parsestate" for t in n.ast.targets)]
    for o in opens:
        ok = any(o not in cfg.reachable_from_edges([(t, "T")], avoid=resets) for t in tests)
        rr.inst("ESC arm", True, {"opens": norm(o.ast, 40), "parser_reset_first": ok})
        if not ok:
            rr.add(finding("ORDER", fi, o.ast, "the ESC arm sets within_escape without resetting parsestate / the sequence buffer: an ESC inside an unfinished CSI leaves the parser in the old sequence, the following '[' aborts it and the parameter and final bytes of the new sequence are printed as text", construct="ESC does not abandon an unfinished sequence"))
    return rr


def rule_resize_keeps_cursor_line(ctx: Ctx) -> RuleResult:
    """resize() changes the height by moving whole lines between the top of the screen and the scrollback
    (self.term.insert(0, line) / self.term.pop(0)): every line on the screen shifts by one row each time.  The cursor
    belongs to its line, so the row that is handed to set_term_cursor() at the end shifts with it - each such move is
    followed, before the next one, by an adjustment of the cursor-row local in the matching direction.  Before fix
    a4455ef the row was left alone: after growing a 4-row terminal whose scrollback held a line, the next line feed
    overwrote the last printed line."""
    p = ctx.p
    rr = RuleResult("PAIR", "C15.30", "every line moved between the screen top and the scrollback by resize() shifts the cursor row with it", floor=2)
    fi = p.func(f"{VT}.TermCanvas.resize")
    cfg = cfg_of(fi)
    yname = None
    for n in fi.own_nodes():
        if isinstance(n, ast.Assign) and isinstance(n.targets[0], ast.Tuple) and len(n.targets[0].elts) == 2 and isinstance(n.value, ast.Attribute) and n.value.attr == "term_cursor":
            yname = n.targets[0].elts[1].id
    if yname is None:
        raise AnalysisError("resize: `x, y = self.term_cursor` not found")
    for want, meth in ((ast.Add, "insert"), (ast.Sub, "pop")):
        moves = nodes_where(cfg, lambda c, meth=meth: isinstance(c, ast.Call) and isinstance(c.func, ast.Attribute) and c.func.attr == meth and ast.unparse(c.func.value) == f"{fi.self_name}.term" and c.args and isinstance(c.args[0], ast.Constant) and c.args[0].value == 0)
        adj = [n for n in cfg.nodes if isinstance(n.ast, ast.AugAssign) and isinstance(n.ast.target, ast.Name) and n.ast.target.id == yname and isinstance(n.ast.op, want)]
        # the spelled-out form `y = y + 1`
        adj += [n for n in cfg.nodes if isinstance(n.ast, ast.Assign) and len(n.ast.targets) == 1 and isinstance(n.ast.targets[0], ast.Name) and n.ast.targets[0].id == yname and isinstance(n.ast.value, ast.BinOp) and isinstance(n.ast.value.op, want) and isinstance(n.ast.value.left, ast.Name) and n.ast.value.left.id == yname]
        for mv in moves:
            # from the move, every way on (to the next move, to the end) passes the adjustment
            ok = bool(adj) and not ({cfg.exit} | set(moves)) & (cfg.reachable([mv], avoid=adj, labels=("n", "T", "F")) - {mv})
            rr.inst(f"term.{meth}(0)", True, {"move": norm(mv.stmt, 50), "cursor_row": yname, "adjusted": ok})
            if not ok:
                rr.add(finding("PAIR", fi, mv.stmt, f"`{norm(mv.stmt, 50)}` shifts every line of the screen by one row but the cursor row `{yname}` is not adjusted before the next move / the end of resize(): the cursor ends up on another line than the one it was on - the next output overwrites a printed line", construct=f"resize: {meth}(0) without moving the cursor row"))
    return rr


def rule_scroll_mirror(ctx: Ctx) -> RuleResult:
    """scroll() moves the rows of the scrolling region by one: it removes the row at one margin and inserts a blank
    row at the other, so every row outside the region keeps its place.  Both arms (forward, reverse) pop at a region
    bound and insert at the *other* region bound; a pop() without index removes the last row of the screen - right
    only while the region ends there; with a bottom margin above the last row the status lines below the region are
    pushed down and the last one is lost (seed C15-r8b)."""
    p = ctx.p
    rr = RuleResult("SIB", "C15.27", "each arm of TermCanvas.scroll removes a row at one margin of the scrolling region and inserts one at the other", floor=2)
    fi = p.func(f"{VT}.TermCanvas.scroll")
    ifs = [n for n in fi.own_nodes() if isinstance(n, ast.If)]
    if not ifs:
        raise AnalysisError("TermCanvas.scroll: the reverse / forward branch was not found")
    for arm_name, body in (("reverse", ifs[0].body), ("forward", ifs[0].orelse)):
        pops = [c for st in body for c in ast.walk(st) if isinstance(c, ast.Call) and isinstance(c.func, ast.Attribute) and c.func.attr == "pop" and ast.unparse(c.func.value).endswith(".term")]
        ins = [c for st in body for c in ast.walk(st) if isinstance(c, ast.Call) and isinstance(c.func, ast.Attribute) and c.func.attr == "insert" and ast.unparse(c.func.value).endswith(".term")]
        def arg_text(c):
            if not c.args:
                return None
            a = c.args[0]
            if isinstance(a, ast.Name):  # a bound held in a local: `end = self.scrollregion_end`
                ds = [n.value for n in fi.own_nodes() if isinstance(n, ast.Assign) and any(isinstance(t, ast.Name) and t.id == a.id for t in n.targets)]
                if len(ds) == 1:
                    a = ds[0]
            return ast.unparse(a)

        pa = [arg_text(c) for c in pops]
        ia = [arg_text(c) for c in ins]
        bounds = {"self.scrollregion_start", "self.scrollregion_end"}
        ok = len(pa) == 1 and len(ia) == 1 and {pa[0], ia[0]} == bounds
        rr.inst(f"scroll {arm_name}", True, {"arm": arm_name, "pop_at": pa, "insert_at": ia, "margins_paired": ok})
        if not ok:
            rr.add(finding("SIB", fi, (pops or ins or [ifs[0]])[0], f"the {arm_name} arm of scroll() pops at {pa} and inserts at {ia}: not one row out at one margin of the scrolling region and one in at the other - with margins inside the screen (DECSTBM) rows outside the region move and a row below it is lost", construct=f"scroll {arm_name}: rows not exchanged between the two margins"))
    return rr


def rule_snapshot_stays_snapshot(ctx: Ctx) -> RuleResult:
    """DECSC saves a *copy* of the character-set state (copy.copy(self.charset)); the live TermCharset is edited in
    place afterwards by SO / SI / ESC ( x.  DECRC must hand out a copy as well: if the saved object itself becomes
    the live one, the next designation edits the snapshot and a second ESC 8 restores the wrong character set (seed
    C15-r8a).  Every store into self.charset / self.attrspec whose value is taken from the saved state goes through
    copy.copy() / copy.deepcopy(); and symmetrically every store into the saved state that reads the live one."""
    p = ctx.p
    rr = RuleResult("ALIAS", "C15.26", "saved cursor attributes and live attributes never share an object: both directions of save / restore copy", floor=2)
    tc = p.cls(f"{VT}.TermCanvas")
    live, saved = {"charset", "attrspec"}, {"saved_attrs"}
    for fi in p.all_class_functions(tc):
        for n in fi.own_nodes():
            if not isinstance(n, ast.Assign):
                continue
            tnames = {x.attr for t in n.targets for x in ast.walk(t) if isinstance(x, ast.Attribute) and isinstance(x.value, ast.Name) and x.value.id == fi.self_name}
            for dst, src in ((live, saved), (saved, live)):
                if not (tnames & dst):
                    continue
                par = {id(ch): pa for pa in ast.walk(n.value) for ch in ast.iter_child_nodes(pa)}
                reads = [x for x in ast.walk(n.value) if isinstance(x, ast.Attribute) and x.attr in src and isinstance(x.value, ast.Name) and x.value.id == fi.self_name]
                for r in reads:
                    x, copied = r, False
                    while id(x) in par:
                        x = par[id(x)]
                        if isinstance(x, ast.Call) and callee_name(x) in ("copy", "deepcopy"):
                            copied = True
                            break
                    rr.inst(f"{short(fi)}: {norm(n, 50)}", True, {"store": f"{short(fi)}: {norm(n, 70)}", "reads": ast.unparse(r), "copied": copied})
                    if not copied:
                        rr.add(finding("ALIAS", fi, n, f"`{norm(n, 70)}` makes the {'live' if dst is live else 'saved'} state share an object with the {'saved' if dst is live else 'live'} one (`{ast.unparse(r)}` not copied): TermCharset is edited in place by SO / SI / designations, so the edit shows through - a later ESC 8 restores a character set that was never saved", construct=f"{fi.name}: saved and live attributes share an object"))
    return rr


def rule_rotten_flag(ctx: Ctx) -> RuleResult:
    """push_cursor() is the one place that decides, for every character written, whether the cursor is 'rotten'
    (parked on the last column with the wrap still pending).  Every path through it must decide the flag anew: a
    path that leaves the old value lets a wrap that was pending under other circumstances fire later."""
    p = ctx.p
    rr = RuleResult("PASS", "C15.11", "every path through TermCanvas.push_cursor stores is_rotten_cursor", floor=1)
    fi = p.func(f"{VT}.TermCanvas.push_cursor")
    cfg = cfg_of(fi)
    stores = [n for n in cfg.nodes if isinstance(n.ast, ast.Assign) and any(isinstance(t, ast.Attribute) and t.attr == "is_rotten_cursor" for t in n.ast.targets)]
    rr.inst("push_cursor", True, {"stores": len(stores)})
    if not stores:
        raise AnalysisError("push_cursor: no store to is_rotten_cursor found")
    # explicit cursor addressing (every CSI cursor movement goes through move_cursor) cancels a pending wrap
    mv = p.func(f"{VT}.TermCanvas.move_cursor")
    mcfg = cfg_of(mv)
    mstores = [n for n in mcfg.nodes if isinstance(n.ast, ast.Assign) and any(isinstance(t, ast.Attribute) and t.attr == "is_rotten_cursor" for t in n.ast.targets) and isinstance(n.ast.value, ast.Constant) and n.ast.value.value is False]
    rr.inst("move_cursor", True, {"stores": len(mstores)})
    if not mstores or mcfg.exit in mcfg.reachable([mcfg.entry], avoid=mstores, labels=("n", "T", "F")):
        rr.add(finding("PASS", mv, mv.node, "move_cursor() can position the cursor without clearing is_rotten_cursor: after a character was written into the last column, CUP to a last-column cell followed by a character wraps that character onto the next row", construct="move_cursor keeps a pending wrap"))
    # ... and so does every other command that places the cursor at coordinates of its own (DECRC, DECSTBM, DECOM,
    # the homing clear, tab): a call self.set_term_cursor(<coordinates>) outside the functions that manage the wrap
    # themselves is dominated by `self.is_rotten_cursor = False`.  Before fix c127c49 ESC 8 / CSI r / CSI ?6h moved
    # the cursor with the flag still armed and the next character wrapped from a cell it was never written to.
    tc = p.cls(f"{VT}.TermCanvas")
    for q, g in sorted(p.functions.items()):
        if g.cls is not tc or g.is_lambda or g.parent is not None:
            continue
        name = q.rsplit(".", 1)[1]
        if name in ROTTEN_MANAGERS or name == "move_cursor":
            continue
        gcfg = None
        for cn_call in [c for c in g.own_nodes() if isinstance(c, ast.Call) and isinstance(c.func, ast.Attribute) and c.func.attr == "set_term_cursor" and isinstance(c.func.value, ast.Name) and c.func.value.id == g.self_name and c.args]:
            if any(isinstance(a, ast.Starred) for a in cn_call.args):
                continue  # clear(cursor=...) puts the cursor back where the caller had it: not a movement
            gcfg = gcfg or cfg_of(g)
            owner = next((n for n in gcfg.nodes for e in node_exprs(n) for x in walk_no_nested(e) if x is cn_call), None)
            gstores = [n for n in gcfg.nodes if isinstance(n.ast, ast.Assign) and any(isinstance(t, ast.Attribute) and t.attr == "is_rotten_cursor" for t in n.ast.targets) and isinstance(n.ast.value, ast.Constant) and n.ast.value.value is False]
            rr.inst(f"{name}: {norm(cn_call, 40)}", True, {"function": name, "call": norm(cn_call, 40), "clears": len(gstores)} if len(rr.samples) < 10 else None)
            if owner is None or not gstores or not gcfg.dominated(owner, gstores):
                rr.add(finding("PASS", g, cn_call, f"{name}() places the cursor with `{norm(cn_call, 40)}` without clearing is_rotten_cursor on every path to it: with a wrap pending (a character was just written into the last column) the next character printed at the new position is wrapped onto the following row instead", construct=f"{name}: cursor placed with the pending wrap kept"))
    if cfg.exit in cfg.reachable([cfg.entry], avoid=stores, labels=("n", "T", "F")):
        path = cfg.witness_path(cfg.entry, [cfg.exit], avoid=stores, labels=("n", "T", "F"))
        last_test = next((n for n in reversed(path or []) if n.kind == "test"), None)
        rr.add(finding("PASS", fi, last_test.stmt if last_test is not None else fi.node, f"a path through push_cursor (via `{norm(last_test.ast, 40) if last_test is not None else '?'}`) writes a character without deciding is_rotten_cursor: a wrap left pending from an earlier state fires on a later character", construct="path without is_rotten_cursor store"))
    # in the autowrap arm "no wrap pending" is only true while the new column is inside the grid: a store of the
    # constant False must be control-dependent on a test that puts the column below self.width; a store reached with
    # a column the function itself set (x = 1 after the wrap) has to compare it with the width (one-column grids)
    auto = [t for t in cfg.nodes if t.kind == "test" and "autowrap" in ast.unparse(t.ast)]
    for st in stores:
        if not (isinstance(st.ast.value, ast.Constant) and st.ast.value.value is False):
            continue
        if not auto or not all(st not in ExcEngine._reach_without_edge(cfg, t, "T") for t in auto):
            continue
        bounded = False
        for t in cfg.nodes:
            if t.kind != "test" or t in auto:
                continue
            for lab in ("T", "F"):
                if st in ExcEngine._reach_without_edge(cfg, t, lab):
                    continue
                for c in ast.walk(t.ast):
                    if isinstance(c, ast.Compare) and len(c.ops) == 1 and "width" in ast.unparse(c) and not isinstance(t.ast, ast.BoolOp):
                        op = type(c.ops[0])
                        left_w = "width" in ast.unparse(c.left)
                        below = (op in (ast.Lt, ast.LtE) and not left_w) or (op in (ast.Gt, ast.GtE) and left_w)
                        if (lab == "T") == below:
                            bounded = True
        rr.inst(f"push_cursor: {norm(st.stmt, 40)}", True, {"store": norm(st.stmt, 50), "column_known_inside_grid": bounded})
        if not bounded:
            rr.add(finding("PASS", fi, st.stmt, f"`{norm(st.stmt, 50)}` in the autowrap arm declares that no wrap is pending on paths where nothing has shown the new column to be left of self.width (after a wrap the column is the constant 1): on a grid one column wide the cursor is constrained back onto the cell just written and the next character overwrites it", construct="pending wrap cleared without comparing the column with the width"))
    return rr


_MIRROR = {ast.Lt: ast.Gt, ast.Gt: ast.Lt, ast.LtE: ast.GtE, ast.GtE: ast.LtE, ast.Eq: ast.Eq, ast.NotEq: ast.NotEq}


def rule_linefeed_mirror(ctx: Ctx) -> RuleResult:
    """linefeed(reverse) has two arms that mirror each other (top of the scroll region / bottom, up / down): the
    comparison at each position of the reverse arm is the mirror image of the forward arm's (<= vs >=, == vs ==)."""
    p = ctx.p
    rr = RuleResult("SIB", "C15.12", "the reverse and forward arms of TermCanvas.linefeed test mirrored conditions", floor=2)
    fi = p.func(f"{VT}.TermCanvas.linefeed")
    top = [n for n in fi.own_nodes() if isinstance(n, ast.If) and isinstance(n.test, ast.Name) and n.test.id == fi.params[1]]
    if not top or not top[0].orelse:
        raise AnalysisError("linefeed: `if reverse: ... else: ...` not found")

    def chain(stmts):
        out = []
        cur = stmts[0] if stmts and isinstance(stmts[0], ast.If) else None
        while cur is not None:
            out.append(cur.test)
            cur = cur.orelse[0] if cur.orelse and isinstance(cur.orelse[0], ast.If) and len(cur.orelse) == 1 else None
        return out

    a, b = chain(top[0].body), chain(top[0].orelse)
    if len(a) != len(b) or not a:
        raise AnalysisError("linefeed: the two arms do not have if-chains of the same length")
    for i, (x, y) in enumerate(zip(a, b)):
        rr.inst(f"test {i}", True, {"reverse": norm(x, 50), "forward": norm(y, 50)})
        ox = [type(o) for c in ast.walk(x) if isinstance(c, ast.Compare) for o in c.ops]
        oy = [type(o) for c in ast.walk(y) if isinstance(c, ast.Compare) for o in c.ops]
        if [(_MIRROR.get(o)) for o in ox] != oy:
            rr.add(finding("SIB", fi, x, f"the reverse arm tests `{norm(x, 50)}` where the forward arm tests `{norm(y, 50)}`: the comparisons are not mirror images, so a reverse line feed above the scroll region scrolls the region although the cursor is outside it (or the forward case differs accordingly)", construct=f"linefeed arms not mirrored at test {i}"))
    return rr


def rule_scroll_margin(ctx: Ctx) -> RuleResult:
    """Whether writing moves the cursor down a line or scrolls is decided against the bottom margin of the scrolling
    region (DECSTBM), and all sites that make that decision must agree: every forward `self.scroll()` of the
    cursor-advancing functions is guarded by a comparison of the row with self.scrollregion_end (reverse ones with
    scrollregion_start) - not with the screen height, which only coincides while the region is the whole screen."""
    from ..rules.exc import ExcEngine

    p = ctx.p
    rr = RuleResult("SIB", "C15.13", "every scroll decision of linefeed / push_cursor compares the row with the scroll-region margin", floor=3)
    for q in (f"{VT}.TermCanvas.linefeed", f"{VT}.TermCanvas.push_cursor"):
        fi = p.func(q)
        cfg = cfg_of(fi)
        calls = nodes_where(cfg, lambda x: isinstance(x, ast.Call) and isinstance(x.func, ast.Attribute) and x.func.attr == "scroll" and isinstance(x.func.value, ast.Name) and x.func.value.id == fi.self_name)
        for cn in calls:
            call = next(x for x in ast.walk(cn.ast) if isinstance(x, ast.Call) and isinstance(x.func, ast.Attribute) and x.func.attr == "scroll")
            rev = any(k.arg == "reverse" for k in call.keywords) or bool(call.args)
            want = "scrollregion_start" if rev else "scrollregion_end"
            guards = [t for t in cfg.nodes if t.kind == "test" and cn not in ExcEngine._reach_without_edge(cfg, t, "T") and isinstance(t.ast, ast.Compare)]
            rr.inst(f"{short(fi)}:{norm(call, 30)}", True, {"function": short(fi), "scroll": norm(call, 30), "guards": [norm(g.ast, 50) for g in guards]})
            exact = [g for g in guards if want in ast.unparse(g.ast) and len(g.ast.ops) == 1 and isinstance(g.ast.ops[0], ast.Eq)]
            if any(want in ast.unparse(g.ast) for g in guards) and not exact:
                rr.add(finding("SIB", fi, cn.stmt, f"`{norm(call, 30)}` is decided by {[norm(g.ast, 40) for g in guards]}: the region scrolls when the row *is* the margin (`y == self.{want}`); an inequality also scrolls it from a row outside the region ({'below the bottom' if not rev else 'above the top'} margin), where the cursor only moves - linefeed() makes exactly that distinction", construct=f"scroll decided by an inequality with {want}"))
            if not any(want in ast.unparse(g.ast) for g in guards):
                rr.add(finding("SIB", fi, cn.stmt, f"`{norm(call, 30)}` is decided by {[norm(g.ast, 40) for g in guards] or 'no comparison'}, not by a comparison with self.{want}: with a scroll region smaller than the screen (CSI t;b r) text that wraps on the margin leaves the region instead of scrolling it, while linefeed scrolls at the margin", construct=f"scroll not decided against {want}"))
    return rr


def rule_region_edits(ctx: Ctx) -> RuleResult:
    """Line edits inside the scrolling region (scroll, IL, DL) pair one `self.term.pop(i)` with one
    `self.term.insert(j, ...)`.  The indexes are written in terms of the grid *before* the edit, so the pop has to come
    first (after an insert every index at or below it has moved by one).  IL and DL work on the cursor row and must
    be ignored when that row lies outside the region - otherwise lines cross the margins."""
    p = ctx.p
    rr = RuleResult("ORDER", "C15.14", "scroll / insert_lines / remove_lines pop before they insert; IL and DL return when the row is outside the scrolling region", floor=4)
    for q in ("scroll", "insert_lines", "remove_lines"):
        fi = p.func(f"{VT}.TermCanvas.{q}")
        for owner in ast.walk(fi.node):
            for fld in ("body", "orelse"):
                blk = getattr(owner, fld, None)
                if not isinstance(blk, list):
                    continue
                seq = []
                for st in blk:
                    for c in ast.walk(st) if isinstance(st, (ast.Expr, ast.Assign)) else []:
                        if isinstance(c, ast.Call) and isinstance(c.func, ast.Attribute) and c.func.attr in ("pop", "insert") and ast.unparse(c.func.value) == f"{fi.self_name}.term":
                            seq.append((c.func.attr, st))
                if {k for k, _ in seq} == {"pop", "insert"}:
                    rr.inst(f"{short(fi)}:{norm(seq[0][1], 40)}", True, {"function": short(fi), "order": [k for k, _ in seq]})
                    if seq[0][0] != "pop":
                        rr.add(finding("ORDER", fi, seq[0][1], f"{fi.name}() inserts before it pops: `{norm(seq[1][1], 50)}` then removes the line that was one above the intended one (the indexes are those of the grid before the edit)", construct=f"{fi.name}: insert before pop"))
    for q in ("insert_lines", "remove_lines"):
        fi = p.func(f"{VT}.TermCanvas.{q}")
        cfg = cfg_of(fi)
        edits = nodes_where(cfg, lambda x: isinstance(x, ast.Call) and isinstance(x.func, ast.Attribute) and x.func.attr in ("pop", "insert") and ast.unparse(x.func.value) == f"{fi.self_name}.term")
        guards = [t for t in cfg.nodes if t.kind == "test" and "scrollregion_start" in ast.unparse(t.ast) and "scrollregion_end" in ast.unparse(t.ast)]
        rr.inst(f"{short(fi)}:region guard", True, {"function": short(fi), "guards": [norm(g.ast, 70) for g in guards]})
        ok = guards and all(e not in cfg.reachable([cfg.entry], avoid=guards, include_start=True) for e in edits)
        if not ok:
            rr.add(finding("ORDER", fi, fi.node, f"{fi.name}() edits the grid without first testing that the row lies inside the scrolling region: with the cursor outside the region IL/DL move lines across the margins (a VT100 ignores them there)", construct=f"{fi.name}: no region test"))
    return rr


def rule_erase_inclusive(ctx: Ctx) -> RuleResult:
    """TermCanvas.erase(start, end) takes *inclusive* end coordinates; 'erase up to the cursor' (EL 1, ED 1) includes
    the cursor cell on a VT100.  The two CSI handlers are siblings: in the same mode they must hand the cursor
    coordinates to erase() unshifted (only `width - 1` / `height - 1`, the last column / row, carry a `- 1`)."""
    p = ctx.p
    rr = RuleResult("SIB", "C15.15", "csi_erase_line / csi_erase_display pass cursor coordinates to erase() unshifted (inclusive ends)", floor=4)
    for q in ("csi_erase_line", "csi_erase_display"):
        fi = p.func(f"{VT}.TermCanvas.{q}")
        for c in fi.own_nodes():
            if isinstance(c, ast.Call) and isinstance(c.func, ast.Attribute) and c.func.attr == "erase" and len(c.args) == 2:
                rr.inst(f"{short(fi)}:{norm(c, 50)}", True, {"call": f"{short(fi)}: {norm(c, 60)}"})
                for b in ast.walk(c):
                    if isinstance(b, ast.BinOp) and isinstance(b.op, (ast.Add, ast.Sub)) and isinstance(b.right, ast.Constant):
                        base = ast.unparse(b.left)
                        if base.endswith(".width") or base.endswith(".height"):
                            continue
                        rr.add(finding("SIB", fi, c, f"`{norm(c, 60)}` shifts a cursor coordinate (`{norm(b, 30)}`) before handing it to erase(), whose ends are inclusive: the cursor cell itself is not erased (or one cell too many is)", construct=f"{fi.name}: shifted coordinate {norm(b, 30)}"))
    return rr


def rule_cursor_constrained(ctx: Ctx) -> RuleResult:
    """set_term_cursor() clamps the requested position to the grid (constrain_coords) before storing it; the canvas
    cursor derived from it must be built from the *clamped* coordinates, not from the raw arguments - a canvas whose
    cursor lies outside it breaks every container that places the cursor."""
    from ..rules.defuse import DefUse

    p = ctx.p
    rr = RuleResult("POSBOUND", "C15.16", "TermCanvas.set_term_cursor builds the canvas cursor from the constrained coordinates, under a test that its row is < height", floor=2)
    fi = p.func(f"{VT}.TermCanvas.set_term_cursor")
    du = DefUse(fi)
    for node in du.cfg.nodes:
        a = node.ast
        if isinstance(a, ast.Assign) and any(isinstance(t, ast.Attribute) and t.attr == "cursor" for t in a.targets) and isinstance(a.value, ast.Tuple):
            rr.inst(norm(a, 50), True, {"store": norm(a, 60)})
            for nm in [x for x in ast.walk(a.value) if isinstance(x, ast.Name) and x.id in fi.params[1:3]]:
                defs = du.reaching(nm.id, node)
                raw = [dn for v, how, dn in defs if not (isinstance(v, ast.AST) and "constrain_coords" in ast.unparse(v))]
                if raw:
                    rr.add(finding("POSBOUND", fi, a, f"`{norm(a, 50)}` uses `{nm.id}` as it was passed in (or defaulted), not the value constrain_coords() clamped it to: after a cursor movement beyond the grid (CSI 500 C) the canvas reports a cursor outside itself", construct=f"canvas cursor from unconstrained {nm.id}"))
                    break
            # the stored row R (scrolled-back view: y + scrolling_up) is a row of the canvas: the store is made under
            # a test equivalent to R < height (half-open) - R <= height publishes a cursor one row below the grid
            from ..rules.exc import ExcEngine
            from ..rules.runpos import _atoms
            from ..rules.util import lin_str, linear

            row = linear(a.value.elts[1]) if len(a.value.elts) == 2 else None
            if row is None:
                continue
            facts = []
            for t in du.cfg.nodes:
                if t.kind == "test" and node not in ExcEngine._reach_without_edge(du.cfg, t, "T"):
                    facts += _atoms(t.ast, True)
            height_atoms = [k for e, _o in facts for k in e if k.endswith(".height") or k == "height"]
            ok = False
            for e, o in facts:
                for sign, op in ((1, o), (-1, {"<": ">", "<=": ">=", ">": "<", ">=": "<=", "==": "==", "!=": "!="}[o])):
                    es = {k: v * sign for k, v in e.items()}
                    for hgt in set(height_atoms):
                        want = dict(row)
                        want[hgt] = want.get(hgt, 0) - 1
                        want = {k: v for k, v in want.items() if v}
                        if es == want and op == "<":
                            ok = True
                        want1 = dict(want)
                        want1[""] = want1.get("", 0) + 1
                        if es == {k: v for k, v in want1.items() if v} and op == "<=":
                            ok = True
            rr.inst(f"{norm(a, 40)}: row inside the canvas", True, {"row": lin_str(row), "facts": [f"{lin_str(e)} {o} 0" for e, o in facts][:6], "half_open": ok})
            if not ok:
                rr.add(finding("POSBOUND", fi, a, f"`{norm(a, 50)}` publishes row `{ast.unparse(a.value.elts[1])}` as the canvas cursor without a test equivalent to `{ast.unparse(a.value.elts[1])} < height` on the way (known: {', '.join(f'{lin_str(e)} {o} 0' for e, o in facts) or 'nothing'}): scrolled back by exactly height - y lines the cursor is reported one row below the grid while content() still yields height rows", construct="canvas cursor row not shown inside the canvas"))
    return rr


def rule_bounded_counts(ctx: Ctx) -> RuleResult:
    """A `while count > 0: ...; count -= 1` loop whose counter is a method parameter runs as often as the terminal
    output asks (CSI 2147483647 @): the counter must be clamped with min(count, <what the grid can hold>) before the
    loop, or one escape sequence stalls the emulator for minutes."""
    p = ctx.p
    rr = RuleResult("BOUND", "C15.17", "counting loops of TermCanvas whose counter comes from a parameter are clamped with min() first", floor=4)
    tc = p.cls(f"{VT}.TermCanvas")
    for fi in p.all_class_functions(tc):
        cfg = None
        for n in fi.own_nodes():
            if isinstance(n, ast.While) and isinstance(n.test, ast.Compare) and isinstance(n.test.left, ast.Name) and n.test.left.id in fi.params and any(isinstance(x, ast.AugAssign) and isinstance(x.target, ast.Name) and x.target.id == n.test.left.id for x in ast.walk(n)):
                v = n.test.left.id
                cfg = cfg or cfg_of(fi)
                clamps = [c for c in cfg.nodes if isinstance(c.ast, ast.Assign) and any(isinstance(t, ast.Name) and t.id == v for t in c.ast.targets) and isinstance(c.ast.value, ast.Call) and callee_name(c.ast.value) == "min" and any(isinstance(a, ast.Name) and a.id == v for a in c.ast.value.args)]
                heads = [h for h in cfg.nodes if h.kind == "test" and h.ast is n.test]
                rr.inst(f"{short(fi)}:{norm(n.test, 30)}", True, {"function": short(fi), "loop": norm(n.test, 30), "clamp": [norm(c.stmt, 60) for c in clamps]})
                if not clamps or not heads or not all(cfg.dominated(h, clamps) for h in heads):
                    rr.add(finding("BOUND", fi, n, f"`while {norm(n.test, 30)}` counts down the parameter `{v}` without a min() clamp before the loop: the count comes straight from the escape sequence, so one CSI with a huge parameter keeps the emulator busy for minutes", construct=f"{fi.name}: unclamped count {v}"))
    return rr


def rule_sgr_state(ctx: Ctx) -> RuleResult:
    """SGR is incremental: csi_set_attr() rebuilds (fg, bg, attributes) from the stored AttrSpec, sgi_to_attrspec()
    applies the new parameters and maps the result to a new AttrSpec.  Two structural conditions:

    (a) the only adjustment sgi_to_attrspec() makes to a colour number after parsing is `fg += K` under a condition on
        "bold" (bold -> bright in 16-colour mode).  The reconstruction in csi_set_attr() may undo exactly that: a
        `-= K` on the number taken from foreground_number must be conditioned on the stored spec's `.bold`, and a
        colour role sgi_to_attrspec() never adjusts (the background) must not be adjusted at all - otherwise a
        bright colour chosen with 90-97 / 100-107 turns dark at the next SGR sequence;
    (b) the parameter list is interpreted only by the index-advancing loop of sgi_to_attrspec(), which skips the
        operands of 38 / 48: no other test of an element of the list (a trailing 0 is the operand of 38;5;0)."""
    p = ctx.p
    rr = RuleResult("SIB", "C15.18", "csi_set_attr() undoes exactly the colour adjustments sgi_to_attrspec() applies (bold->bright on the foreground only) and does not interpret SGR parameters by position", floor=3)
    sgi = p.func(f"{VT}.TermCanvas.sgi_to_attrspec")
    csa = p.func(f"{VT}.TermCanvas.csi_set_attr")
    sp = [x for x in sgi.params if x != sgi.self_name]
    if len(sp) < 4:
        raise AnalysisError("sgi_to_attrspec: expected (attrs, fg, bg, attributes, ...) parameters")
    calls = [c for c in csa.own_nodes() if isinstance(c, ast.Call) and isinstance(c.func, ast.Attribute) and c.func.attr == sgi.name]
    if len(calls) != 1:
        raise AnalysisError("csi_set_attr: expected one sgi_to_attrspec() call")
    role_of = {}
    for i, a in enumerate(calls[0].args):
        if isinstance(a, ast.Name) and i < len(sp):
            role_of[a.id] = sp[i]
    # adjustments in sgi: AugAssign +K on a colour parameter outside the parsing loop
    loops = [n for n in sgi.own_nodes() if isinstance(n, ast.While)]
    in_loop = {id(x) for l in loops for x in ast.walk(l)}
    cfg_s = cfg_of(sgi)
    applied = {}
    for n in cfg_s.nodes:
        a = n.ast
        if isinstance(a, ast.AugAssign) and isinstance(a.target, ast.Name) and a.target.id in sp[1:3] and isinstance(a.op, ast.Add) and isinstance(a.value, ast.Constant) and id(a) not in in_loop:
            conds = " and ".join(norm(t.ast, 80) for t in cfg_s.nodes if t.kind == "test" and n not in ExcEngine._reach_without_edge(cfg_s, t, "T"))
            applied[a.target.id] = (a.value.value, conds)
    cfg_c = cfg_of(csa)
    seen_roles = set()
    for n in cfg_c.nodes:
        a = n.ast
        if isinstance(a, ast.AugAssign) and isinstance(a.target, ast.Name) and a.target.id in role_of and role_of[a.target.id] in sp[1:3] and isinstance(a.op, (ast.Sub, ast.Add)) and isinstance(a.value, ast.Constant):
            role = role_of[a.target.id]
            seen_roles.add(role)
            conds = [t for t in cfg_c.nodes if t.kind == "test" and n not in ExcEngine._reach_without_edge(cfg_c, t, "T")]
            ctext = " and ".join(norm(t.ast, 80) for t in conds)
            rr.inst(f"undo on {role}", True, {"role": role, "undo": norm(a), "under": ctext, "applied_in_sgi": applied.get(role)})
            if role not in applied:
                rr.add(finding("SIB", csa, a, f"`{norm(a)}` adjusts the stored {role} number before the next SGR is applied, but sgi_to_attrspec() never adjusts `{role}` after parsing: a bright colour selected with 100-107 / 90-97 is turned into its dark counterpart by the next SGR sequence", construct=f"{role}: adjustment without counterpart"))
                continue
            k, acond = applied[role]
            bold_needed = "bold" in acond
            # the mapping's own state conditions (`colors == 16`) have to be repeated by the undo: what is not mapped
            # must not be un-mapped (a bold 256-colour foreground would lose 8 at every later SGR)
            depth_consts = {c.comparators[0].value for t in cfg_s.nodes if t.kind == "test" for c in ast.walk(t.ast) if isinstance(c, ast.Compare) and len(c.ops) == 1 and isinstance(c.ops[0], ast.Eq) and "colors" in ast.unparse(c.left) and isinstance(c.comparators[0], ast.Constant) and norm(t.ast, 80) in acond}
            undo_consts = {c.comparators[0].value for t in conds for c in ast.walk(t.ast) if isinstance(c, ast.Compare) and len(c.ops) == 1 and isinstance(c.ops[0], ast.Eq) and "colors" in ast.unparse(c.left) and isinstance(c.comparators[0], ast.Constant)}
            if depth_consts - undo_consts:
                rr.add(finding("SIB", csa, a, f"`{norm(a)}` (under `{ctext}`) undoes the bold->bright mapping without the colour-depth test the mapping itself is made under (`{acond}`): a bold foreground of a deeper colour mode (38;5;N with N >= 8, 38;2;r;g;b) is never mapped but loses {k} at every later SGR sequence", construct=f"{role}: undo without the mapping's colour-depth test"))
                continue
            has_bold = any(isinstance(x, ast.Attribute) and x.attr == "bold" for t in conds for x in ast.walk(t.ast)) or any(isinstance(x, ast.Constant) and x.value == "bold" for t in conds for x in ast.walk(t.ast))
            if not isinstance(a.op, ast.Sub) or a.value.value != k or (bold_needed and not has_bold):
                rr.add(finding("SIB", csa, a, f"`{norm(a)}` (under `{ctext}`) is not the inverse of `{role} += {k}` (under `{acond}`) in sgi_to_attrspec(): a bright {role} that does not come from bold (SGR 90-97) is turned dark by the next SGR sequence", construct=f"{role}: undo not conditioned like the mapping"))
    for role, (k, acond) in applied.items():
        rr.inst(f"mapping on {role}", True, {"role": role, "mapping": f"{role} += {k}", "under": acond, "undone_in_csi_set_attr": role in seen_roles})
        if role not in seen_roles:
            rr.add(finding("SIB", csa, calls[0], f"sgi_to_attrspec() maps `{role} += {k}` under `{acond}` but csi_set_attr() passes the stored (already mapped) number back in without undoing it", construct=f"{role}: mapping never undone"))
    # (b) positional tests on the parameter list
    cp = [x for x in csa.params if x != csa.self_name]
    n_ok = 0
    for fi, lst in ((csa, cp[0]), (sgi, sp[0])):
        for n in fi.own_nodes():
            if isinstance(n, ast.Subscript) and isinstance(n.value, ast.Name) and n.value.id == lst:
                idx = n.slice
                names = {x.id for x in ast.walk(idx) if isinstance(x, ast.Name)}
                ok = fi is sgi and bool(names) and id(n) in in_loop
                n_ok += 1
                if not ok:
                    rr.add(finding("SIB", fi, n, f"`{norm(n)}` reads an SGR parameter by fixed position: whether that element is a command or the operand of 38;5;n / 48;5;n / 38;2;r;g;b is only known to the index-advancing loop of sgi_to_attrspec() (ESC[38;5;0m ends in 0 without being a reset)", construct=f"positional SGR parameter: {norm(n)}"))
    rr.inst("parameter list read only through the parsing index", True, {"subscripts": n_ok})
    return rr


def rule_scrollback(ctx: Ctx) -> RuleResult:
    """Lines in the scrollback keep the width they had when they scrolled off, and `scrolling_up` (how far the view
    is scrolled back) is only meaningful while it does not exceed the scrollback length.  So (a) every function
    that takes lines *out of* the scrollback (pop() into the grid, the scrolled-back content()) brings them to
    self.width - a `[: self.width]` cut and an empty_char() padding; (b) every function that shortens the scrollback
    re-clamps scrolling_up (min(..., len(scrollback)) or 0) on every path to its exit."""
    p = ctx.p
    rr = RuleResult("PASS", "C15.19", "lines leaving the scrollback are cut / padded to the current width, and shortening the scrollback re-clamps scrolling_up", floor=3)
    tc = p.cls(f"{VT}.TermCanvas")

    def is_sb(e, sn):
        return isinstance(e, ast.Attribute) and e.attr == "scrollback_buffer" and isinstance(e.value, ast.Name) and e.value.id == sn

    for fi in p.all_class_functions(tc):
        sn = fi.self_name
        if sn is None:
            continue
        takes, shortens = [], []
        for n in fi.own_nodes():
            if isinstance(n, ast.Call) and isinstance(n.func, ast.Attribute) and is_sb(n.func.value, sn):
                if n.func.attr in ("pop", "popleft"):
                    takes.append(n)
                    shortens.append(n)
                elif n.func.attr == "clear":
                    shortens.append(n)
            elif isinstance(n, ast.Starred) and is_sb(n.value, sn):
                takes.append(n)
            elif isinstance(n, (ast.For, ast.comprehension)) and is_sb(n.iter, sn):
                takes.append(n)
            elif isinstance(n, ast.Subscript) and is_sb(n.value, sn) and isinstance(n.ctx, ast.Load):
                takes.append(n)
            elif isinstance(n, ast.Call) and n.args and is_sb(n.args[0], sn) and callee_name(n) in ("islice", "list", "tuple", "reversed"):
                takes.append(n)
        if takes:
            cut = any(isinstance(x, ast.Subscript) and isinstance(x.slice, ast.Slice) and x.slice.upper is not None and ast.unparse(x.slice.upper) == f"{sn}.width" for x in fi.own_nodes())
            pad = any(isinstance(x, ast.BinOp) and isinstance(x.op, ast.Mult) and "empty_char" in ast.unparse(x) for x in fi.own_nodes())
            rr.inst(f"{short(fi)}: takes lines", True, {"function": short(fi), "takes": [norm(t, 50) for t in takes], "cut_to_width": cut, "padded": pad})
            if not (cut and pad):
                rr.add(finding("PASS", fi, takes[0], f"{fi.name}() takes lines out of the scrollback (`{norm(takes[0], 50)}`) without bringing them to the current width ({'no `[: self.width]` cut' if not cut else 'no empty_char() padding'}): after a width change the rows it hands on are not `width` cells long - the grid / the scrolled-back canvas is ragged", construct=f"{fi.name}: scrollback lines not brought to self.width"))
        if shortens:
            cfg = cfg_of(fi)
            clamps = [c for c in cfg.nodes if isinstance(c.ast, ast.Assign) and any(isinstance(t, ast.Attribute) and t.attr == "scrolling_up" for t in c.ast.targets) and ((isinstance(c.ast.value, ast.Constant) and c.ast.value.value == 0) or (isinstance(c.ast.value, ast.Call) and callee_name(c.ast.value) == "min" and "scrollback_buffer" in ast.unparse(c.ast.value)))]
            for sh in shortens:
                nodes = nodes_where(cfg, lambda x, sh=sh: x is sh)
                ok = bool(clamps) and all(cfg.must_pass(n, clamps, ends=[cfg.exit], labels=("T", "F", "n")) for n in nodes)
                rr.inst(f"{short(fi)}: shortens", True, {"function": short(fi), "shortens": norm(sh, 50), "clamps": [norm(c.stmt, 70) for c in clamps]})
                if not ok:
                    rr.add(finding("PASS", fi, sh, f"`{norm(sh, 50)}` shortens the scrollback and a path to the end of {fi.name}() does not re-clamp self.scrolling_up to its new length: a view scrolled back further than the scrollback now reaches yields fewer than `height` rows", construct=f"{fi.name}: scrolling_up not re-clamped after {norm(sh, 40)}"))
    return rr


def rule_negative_slice(ctx: Ctx) -> RuleResult:
    """`seq[: a - b]` means "all but the last b - a" as soon as a < b: a slice bound that is a difference of two
    runtime quantities silently changes its meaning when it goes negative.  The grid / scrollback code of TermCanvas
    has no such bound today (it writes the negative bounds it wants explicitly, `buf[-(height + up) : -up]`); any new
    one has to be clamped with max(.., 0) or made under a test of the two operands."""
    p = ctx.p
    rr = RuleResult("BOUND", "C15.20", "no slice bound in TermCanvas is an unclamped difference of runtime quantities (it would flip to from-the-end indexing when negative)", floor=1)
    tc = p.cls(f"{VT}.TermCanvas")
    n_slices = 0
    for fi in p.all_class_functions(tc):
        for n in fi.own_nodes():
            if not (isinstance(n, ast.Subscript) and isinstance(n.slice, ast.Slice)):
                continue
            n_slices += 1
            for b in (n.slice.lower, n.slice.upper):
                if isinstance(b, ast.BinOp) and isinstance(b.op, ast.Sub) and not isinstance(b.left, ast.Constant) and not isinstance(b.right, ast.Constant):
                    rr.add(finding("BOUND", fi, n, f"the slice bound `{norm(b, 40)}` in `{norm(n, 60)}` is a difference of two runtime quantities with no clamp: when it goes negative (the view scrolled back further than one screen) the slice counts from the end and returns most of the sequence instead of nothing - the canvas yields more than `height` rows", construct=f"unclamped difference as slice bound: {norm(n, 60)}"))
    rr.inst("slices of TermCanvas", True, {"slices_examined": n_slices})
    return rr


def rule_shadowed_locals(ctx: Ctx) -> RuleResult:
    from ..rules import shadow

    return shadow.run_shadow(ctx.p, "C15.21", [VT], floor=15, description="no `for` target in vterm.py clobbers a local that is read after the loop with its earlier meaning (resize(): the saved cursor row)")


def rule_osc_palette_length(ctx: Ctx) -> RuleResult:
    """parse_escape() sees one character at a time and tests the buffer *before* appending the character.  A
    fixed-length sequence of n characters (ESC ] P nrrggbb: 'P' + 7 hex digits = 8) is therefore complete when the
    buffer holds n - 1 of them; a test against n fires one character late and swallows the character that follows."""
    p = ctx.p
    rr = RuleResult("BOUND", "C15.22", "the fixed-length palette sequence (P + 7 digits) is recognised when the buffer holds 7 characters and the 8th arrives", floor=1)
    fi = p.func(f"{VT}.TermCanvas.parse_escape")
    tests = [t for t in fi.own_nodes() if isinstance(t, ast.If) and 'startswith(b"P")' in ast.unparse(t.test).replace("'", '"')]
    if not tests:
        raise AnalysisError("parse_escape: the palette-sequence test (escbuf.startswith(b'P') ...) was not found")
    for t in tests:
        lens = [c for c in ast.walk(t.test) if isinstance(c, ast.Compare) and isinstance(c.left, ast.Call) and callee_name(c.left) == "len" and isinstance(c.comparators[0], ast.Constant)]
        for c in lens:
            arg = c.left.args[0]
            includes_char = isinstance(arg, ast.BinOp)  # len(self.escbuf + char)
            want = 8 if includes_char else 7
            rr.inst(norm(c, 40), True, {"test": norm(c, 50), "expected_length": want})
            if not isinstance(c.ops[0], ast.Eq) or c.comparators[0].value != want:
                rr.add(finding("BOUND", fi, c, f"`{norm(c, 40)}`: the buffer is tested before the current character is appended, so the 8-character sequence P nrrggbb is complete when it holds 7; with {c.comparators[0].value} the test fires one character late and the character after the sequence is swallowed", construct=f"palette sequence length {norm(c, 40)}"))
    return rr


def rule_erase_display_absolute(ctx: Ctx) -> RuleResult:
    """ED (erase in display) works on the whole grid whatever the scrolling margins are; erase() clamps its corners to
    the scrolling region in origin mode unless a corner carries the ignore flag.  Every corner csi_erase_display()
    passes therefore carries it (a 3-tuple ending in True)."""
    p = ctx.p
    rr = RuleResult("SIB", "C15.23", "csi_erase_display passes erase() corners that ignore the scrolling margins", floor=2)
    fi = p.func(f"{VT}.TermCanvas.csi_erase_display")
    for c in [c for c in fi.own_nodes() if isinstance(c, ast.Call) and isinstance(c.func, ast.Attribute) and c.func.attr == "erase"]:
        for a in c.args:
            ok = isinstance(a, ast.Tuple) and len(a.elts) in (2, 3) and isinstance(a.elts[-1], ast.Constant) and a.elts[-1].value is True and (len(a.elts) == 3 or isinstance(a.elts[0], ast.Starred))
            rr.inst(f"{norm(c, 30)}: {norm(a, 30)}", True, {"corner": norm(a, 50), "ignores_margins": ok})
            if not ok:
                rr.add(finding("SIB", fi, c, f"`{norm(c, 70)}` passes the corner `{norm(a, 40)}` without the ignore-scrolling flag: in origin mode erase() clamps it to the scrolling region, so ED 0 stops at the bottom margin and ED 1 starts at the top margin while ED 2 clears the whole screen", construct=f"erase corner {norm(a, 40)} limited by the margins"))
    return rr


def run(ctx: Ctx):
    p = ctx.p
    tc = f"{VT}.TermCanvas"
    loops = [f.qualname for f in p.all_class_functions(p.cls(tc)) if any(isinstance(n, ast.While) for n in f.own_nodes())]
    out = [
        exc.run_exc(
            p, "C15.1", [(f"{tc}.addstr", None), (f"{tc}.addbyte", None), (f"{tc}.resize", None)], allowed={}, infeasible=C15_INFEASIBLE, floor=3,
            description="no modelled exception escapes TermCanvas.addstr/addbyte/resize (CSI dispatch resolved through CSI_COMMANDS)", boundary_ok=C15_BOUNDARY_OK,
        ),
        rule_csi_table(ctx),
        rule_writers(ctx),
        rule_grid_shape(ctx),
        prog.run_progress(p, "C15.5", loops, floor=5, description="every while loop in TermCanvas assigns its driving variable on every back edge"),
        kind.run_kind(p, "C15.6", [VT], floor=3),
        rule_nullable_args(ctx),
        rule_resize_width_first(ctx),
        rule_row_fresh(ctx),
        rule_resize_state_order(ctx),
        rule_rotten_flag(ctx),
        rule_linefeed_mirror(ctx),
        rule_scroll_margin(ctx),
        rule_region_edits(ctx),
        rule_erase_inclusive(ctx),
        rule_cursor_constrained(ctx),
        rule_bounded_counts(ctx),
        rule_sgr_state(ctx),
        rule_scrollback(ctx),
        rule_negative_slice(ctx),
        rule_shadowed_locals(ctx),
        rule_osc_palette_length(ctx),
        rule_erase_display_absolute(ctx),
        lookahead.run_lookahead(p, "C15.24", [VT], floor=4),
        alias.run_shallow_copy(p, "C15.25", [VT], floor=1),
        rule_snapshot_stays_snapshot(ctx),
        rule_scroll_mirror(ctx),
        rule_moves_do_not_write(ctx),
        rule_esc_restarts(ctx),
        rule_resize_keeps_cursor_line(ctx),
    ]
    return out


from ..mutants import Mut  # noqa: E402

_V = "urwid/vterm.py"
MUTANTS = [
    Mut("twin-scroll-bounds-in-locals", "urwid/vterm.py", "TermCanvas.scroll", "        if reverse:\n            self.term.pop(self.scrollregion_end)\n            self.term.insert(self.scrollregion_start, self.empty_line())", "        first = self.scrollregion_start\n        last = self.scrollregion_end\n        if reverse:\n            self.term.pop(last)\n            self.term.insert(first, self.empty_line())", twin=True),
    Mut("twin-esc-resets-parser-by-hand", "urwid/vterm.py", "TermCanvas.process_char", "            self.leave_escape()\n            self.within_escape = True\n", "            self.parsestate = 0\n            self.escbuf = b\"\"\n            self.within_escape = True\n", twin=True),
    Mut("twin-resize-cursor-row-spelled-out", "urwid/vterm.py", "TermCanvas.resize", "                y += 1  # the cursor stays on its line\n", "                y = y + 1\n", twin=True),
    Mut("twin-decrc-deepcopy", "urwid/vterm.py", "TermCanvas.restore_cursor", "(copy.copy(self.saved_attrs[0]), copy.copy(self.saved_attrs[1]))", "(copy.copy(self.saved_attrs[0]), copy.deepcopy(self.saved_attrs[1]))", twin=True),
    Mut("resize-grow-leaves-cursor-row", "urwid/vterm.py", "TermCanvas.resize", "                y += 1  # the cursor stays on its line\n", "", "PAIR|vterm.TermCanvas.resize|resize: insert(0) without moving the cursor row"),
    Mut("resize-shrink-leaves-cursor-row", "urwid/vterm.py", "TermCanvas.resize", "                y -= 1  # the cursor stays on its line\n", "", "PAIR|vterm.TermCanvas.resize|resize: pop(0) without moving the cursor row"),
    Mut("esc-keeps-unfinished-sequence", "urwid/vterm.py", "TermCanvas.process_char", "            # an ESC abandons an unfinished sequence and starts a new one\n            self.leave_escape()\n", "", "ORDER|vterm.TermCanvas.process_char|ESC does not abandon an unfinished sequence"),
    Mut("cr-keeps-pending-wrap", "urwid/vterm.py", "TermCanvas.carriage_return", "        self.is_rotten_cursor = False  # column 0 is not a pending wrap, also on a terminal one column wide\n", "", "PASS|vterm.TermCanvas.carriage_return|carriage_return: cursor placed with the pending wrap kept"),
    Mut("tab-blanks-the-cursor-cell", "urwid/vterm.py", "TermCanvas.tab", "        while x < self.width - 1:\n            x += 1\n", "        while x < self.width - 1:\n            self.set_char(b\" \")\n            x += 1\n", "WRITER|vterm.TermCanvas.tab|tab: cell writer set_char in a pure movement"),
    Mut("charset-designation-in-place", _V, "TermCharset.define", "        self._g = [*self._g[:g], charset, *self._g[g + 1 :]]\n", "        self._g[g] = charset\n", "ALIAS|vterm.TermCharset.define|TermCharset: container edited in place although instances are shallow-copied"),
    Mut("scrollback-cursor-closed-bound", _V, "TermCanvas.set_term_cursor", "self.scrolling_up < self.height - y:", "y + self.scrolling_up <= self.height:", "POSBOUND|vterm.TermCanvas.set_term_cursor|canvas cursor row not shown inside the canvas"),
    Mut("twin-scrollback-cursor-sum-form", _V, "TermCanvas.set_term_cursor", "self.scrolling_up < self.height - y:", "y + self.scrolling_up < self.height:", twin=True),
    Mut("twin-scrollback-cursor-le-minus-one", _V, "TermCanvas.set_term_cursor", "self.scrolling_up < self.height - y:", "y + self.scrolling_up <= self.height - 1:", twin=True),
    Mut("sgr-256-lookahead-short-guard", _V, "TermCanvas.sgi_to_attrspec", "if idx + 2 < len(attrs) and attrs[idx + 1] == 5:", "if idx + 1 < len(attrs) and attrs[idx + 1] == 5:", "BOUND|vterm.TermCanvas.sgi_to_attrspec|look-ahead attrs[idx + 2] beyond the length test"),
    Mut("sgr-rgb-lookahead-short-guard", _V, "TermCanvas.sgi_to_attrspec", "elif idx + 4 < len(attrs) and attrs[idx + 1] == 2:", "elif idx + 3 < len(attrs) and attrs[idx + 1] == 2:", "BOUND|vterm.TermCanvas.sgi_to_attrspec|look-ahead attrs[idx + 4] beyond the length test"),
    Mut("twin-sgr-guard-len-first", _V, "TermCanvas.sgi_to_attrspec", "if idx + 2 < len(attrs) and attrs[idx + 1] == 5:", "if len(attrs) > idx + 2 and attrs[idx + 1] == 5:", twin=True),
    Mut("resize-loop-variable-clobbers-cursor-row", _V, "TermCanvas.resize", "            for row in range(self.height):\n                self.term[row] += [self.empty_char()] * (width - self.width)", "            for y in range(self.height):\n                self.term[y] += [self.empty_char()] * (width - self.width)", "SHADOW|vterm.TermCanvas.resize"),
    Mut("autowrap-scrolls-from-below-the-region", _V, "TermCanvas.push_cursor", "                    if y >= self.height - 1 > self.scrollregion_end:\n                        pass\n                    elif y == self.scrollregion_end:\n                        self.scroll()", "                    if y >= self.scrollregion_end:\n                        self.scroll()", "SIB|vterm.TermCanvas.push_cursor|scroll decided by an inequality"),
    Mut("palette-sequence-one-late", _V, "TermCanvas.parse_escape", "len(self.escbuf) == 7:", "len(self.escbuf) == 8:", "BOUND|vterm.TermCanvas.parse_escape"),
    Mut("ed0-limited-by-margins", _V, "TermCanvas.csi_erase_display", "self.erase((*self.term_cursor, True), (self.width - 1, self.height - 1, True))", "self.erase(self.term_cursor, (self.width - 1, self.height - 1))", "SIB|vterm.TermCanvas.csi_erase_display"),
    Mut("sgr-fg-undo-without-depth-test", _V, "TermCanvas.csi_set_attr", "if fg >= 8 and self.attrspec.colors == 16 and self.attrspec.bold:", "if fg >= 8 and self.attrspec.bold:", "SIB|vterm.TermCanvas.csi_set_attr|fg: undo without the mapping's colour-depth test"),
    Mut("scrollback-view-negative-slice", _V, "TermCanvas.content", "            buf = [*self.scrollback_buffer, *self.term]\n            for line in buf[-(self.height + self.scrolling_up) : -self.scrolling_up]:", "            first = len(self.scrollback_buffer) - self.scrolling_up\n            for line in (*list(self.scrollback_buffer)[first : first + self.height], *self.term[: self.height - self.scrolling_up]):", "BOUND|vterm.TermCanvas.content"),
    Mut("autowrap-clears-pending-wrap-blindly", _V, "TermCanvas.push_cursor", "                self.is_rotten_cursor = x >= self.width\n", "                self.is_rotten_cursor = False\n", "PASS|vterm.TermCanvas.push_cursor|pending wrap cleared"),
    Mut("twin-autowrap-pending-not-form", _V, "TermCanvas.push_cursor", "                self.is_rotten_cursor = x >= self.width\n", "                self.is_rotten_cursor = not x < self.width\n", twin=True),
    Mut("scrollback-view-old-width", _V, "TermCanvas.content", "                if (padding := self.width - len(line)) > 0:\n                    yield line + [self.empty_char()] * padding\n                else:\n                    yield line[: self.width]\n", "                yield line\n", "PASS|vterm.TermCanvas.content"),
    Mut("resize-keeps-scrolling-up", _V, "TermCanvas.resize", "        self.scrolling_up = min(self.scrolling_up, len(self.scrollback_buffer))\n", "", "PASS|vterm.TermCanvas.resize"),
    Mut("twin-resize-clamp-if-form", _V, "TermCanvas.resize", "        self.scrolling_up = min(self.scrolling_up, len(self.scrollback_buffer))\n", "        self.scrolling_up = min(len(self.scrollback_buffer), self.scrolling_up)\n", twin=True),
    Mut("sgr-fg-undo-unconditional", _V, "TermCanvas.csi_set_attr", "if fg >= 8 and self.attrspec.colors == 16 and self.attrspec.bold:", "if fg >= 8 and self.attrspec.colors == 16:", "SIB|vterm.TermCanvas.csi_set_attr|fg"),
    Mut("sgr-bg-darkened", _V, "TermCanvas.csi_set_attr", "                bg = self.attrspec.background_number\n", "                bg = self.attrspec.background_number\n                if bg >= 8 and self.attrspec.colors == 16:\n                    bg -= 8\n", "SIB|vterm.TermCanvas.csi_set_attr|bg"),
    Mut("sgr-trailing-zero-reset", _V, "TermCanvas.csi_set_attr", "        attributes = set()\n", "        if attrs[-1] == 0:\n            self.attrspec = None\n        attributes = set()\n", "SIB|vterm.TermCanvas.csi_set_attr|positional"),
    Mut("twin-sgr-undo-condition-order", _V, "TermCanvas.csi_set_attr", "if fg >= 8 and self.attrspec.colors == 16 and self.attrspec.bold:", "if self.attrspec.bold and self.attrspec.colors == 16 and fg >= 8:", twin=True),
    Mut("ich-count-unclamped", "urwid/vterm.py", "TermCanvas.insert_chars", "        # more than the rest of the row cannot be shifted in\n        chars = min(chars, self.width - x)\n", "", "BOUND|vterm.TermCanvas.insert_chars"),
    Mut("decrc-keeps-pending-wrap", "urwid/vterm.py", "TermCanvas.restore_cursor", "        # an explicit cursor movement cancels a pending wrap\n        self.is_rotten_cursor = False\n", "", "PASS|vterm.TermCanvas.restore_cursor"),
    Mut("decstbm-keeps-pending-wrap", "urwid/vterm.py", "TermCanvas.csi_set_scroll", "            self.is_rotten_cursor = False  # homing the cursor cancels a pending wrap\n", "", "PASS|vterm.TermCanvas.csi_set_scroll"),
    Mut("decom-keeps-pending-wrap", "urwid/vterm.py", "TermCanvas.set_mode", "                self.is_rotten_cursor = False  # homing the cursor cancels a pending wrap\n", "", "PASS|vterm.TermCanvas.set_mode"),
    Mut("twin-decstbm-clears-earlier", "urwid/vterm.py", "TermCanvas.csi_set_scroll", "            self.is_rotten_cursor = False  # homing the cursor cancels a pending wrap\n            self.set_term_cursor(0, 0)", "            self.is_rotten_cursor = False\n            home = (0, 0)\n            self.set_term_cursor(*home[:1], home[1])" , twin=True),
    Mut("cup-keeps-pending-wrap", "urwid/vterm.py", "TermCanvas.move_cursor", "        # an explicit cursor movement cancels a pending wrap\n        self.is_rotten_cursor = False\n", "", "PASS|vterm.TermCanvas.move_cursor"),
    Mut("canvas-cursor-unconstrained", "urwid/vterm.py", "TermCanvas.set_term_cursor", "        self.term_cursor = x, y = self.constrain_coords(x, y)", "        self.term_cursor = self.constrain_coords(x, y)", "POSBOUND|vterm.TermCanvas.set_term_cursor"),
    Mut("ed1-stops-before-cursor", "urwid/vterm.py", "TermCanvas.csi_erase_display", "self.erase((0, 0, True), (*self.term_cursor, True))", "self.erase((0, 0, True), (self.term_cursor[0] - 1, self.term_cursor[1], True))", "SIB|vterm.TermCanvas.csi_erase_display"),
    Mut("il-inserts-before-pop", "urwid/vterm.py", "TermCanvas.insert_lines", "            self.term.pop(self.scrollregion_end)\n            self.term.insert(row, self.empty_line())", "            self.term.insert(row, self.empty_line())\n            self.term.pop(self.scrollregion_end)", "ORDER|vterm.TermCanvas.insert_lines"),
    Mut("dl-outside-region", "urwid/vterm.py", "TermCanvas.remove_lines", "        if not self.scrollregion_start <= row <= self.scrollregion_end:\n            # outside the scrolling region: ignored\n            return\n", "", "ORDER|vterm.TermCanvas.remove_lines"),
    Mut("autowrap-scrolls-at-screen-bottom", "urwid/vterm.py", "TermCanvas.push_cursor", "                    elif y == self.scrollregion_end:\n                        self.scroll()\n                    else:\n                        y += 1\n\n                    x = 1", "                    elif y == self.height - 1:\n                        self.scroll()\n                    else:\n                        y += 1\n\n                    x = 1", "SIB|vterm.TermCanvas.push_cursor"),
    Mut("dch-by-slice-overpads", "urwid/vterm.py", "TermCanvas.remove_chars", "        while chars > 0:\n            self.term[y].pop(x)\n            self.term[y].append(self.empty_char())\n            chars -= 1", "        line = self.term[y]\n        del line[x : x + chars]\n        line.extend([self.empty_char()] * chars)", "PAIR|vterm.TermCanvas.remove_chars"),
    Mut("rotten-flag-kept-at-last-column", "urwid/vterm.py", "TermCanvas.push_cursor", "            if x + 1 < self.width:\n                x += 1\n\n            self.is_rotten_cursor = False", "            if x + 1 < self.width:\n                x += 1\n                self.is_rotten_cursor = False\n", "PASS|vterm.TermCanvas.push_cursor"),
    Mut("reverse-linefeed-above-region-scrolls", "urwid/vterm.py", "TermCanvas.linefeed", "elif y == self.scrollregion_start:", "elif y <= self.scrollregion_start:", "SIB|vterm.TermCanvas.linefeed"),
    Mut("osc-strict-decode", _V, "TermCanvas.parse_osc", "decode(\"utf-8\", \"replace\")", "decode(\"utf-8\")", "EXC|", note="anchor depends on the fixed tree's decode call"),
    Mut("csi-sanitise-declared-only", _V, "TermCanvas.parse_csi", "for i in range(len(escbuf)):", "for i in range(number_of_args):", "NULLABLE|"),
    Mut("resize-width-stored-late", _V, "TermCanvas.resize", "        self.width = width\n\n        if height > self.height:", "        if height > self.height:", "ORDER|vterm.TermCanvas.resize"),
    Mut("cursor-set-unclamped", _V, "TermCanvas.set_term_cursor", "self.term_cursor = x, y = self.constrain_coords(x, y)", "self.term_cursor = (x, y)", "WRITER|"),
    Mut("insert-chars-unbalanced", _V, "TermCanvas.insert_chars", "            self.term[y].insert(x, char_spec)\n            self.term[y].pop()\n", "            self.term[y].insert(x, char_spec)\n", "PAIR|"),
    Mut("remove-lines-shared-blank", _V, "TermCanvas.remove_lines", "        while lines > 0:\n            self.term.pop(row)\n            self.term.insert(self.scrollregion_end, self.empty_line())", "        blank = self.empty_line()\n        while lines > 0:\n            self.term.pop(row)\n            self.term.insert(self.scrollregion_end, blank)", "ALIAS|vterm.TermCanvas.remove_lines"),
    Mut("tabstops-before-width", _V, "TermCanvas.resize", "        if width > self.width:\n            # grow\n", "        if width > self.width:\n            self.init_tabstops(extend=True)\n            # grow\n", "ORDER|vterm.TermCanvas.resize"),
    Mut("twin-csi-sanitise-enumerate", _V, "TermCanvas.parse_csi", "            for i in range(len(escbuf)):\n                if escbuf[i] is None or escbuf[i] == 0:\n                    escbuf[i] = default_value", "            for i, _v in enumerate(escbuf):\n                if escbuf[i] is None or escbuf[i] == 0:\n                    escbuf[i] = default_value", twin=True),
]
