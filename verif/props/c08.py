"""C08 - container focus is always a valid child and input follows the focus path."""

from __future__ import annotations

import ast

from ..core import Ctx, RuleResult, finding, short, walk_no_nested
from ..model import AnalysisError, norm
from ..mutants import Mut
from ..rules import ret, sib
from ..rules.defuse import DefUse, Elem
from ..rules.exc import ExcEngine
from ..rules.util import callee_name, cfg_of, node_exprs, nodes_where
from ..tables import C08_RET_EXEMPT

EXPLANATION = (
    '(23) SENTINEL: a widget obtained from the walker is compared with None by identity, never tested for truthiness (empty containers are falsy; fix for rows_max / __iter__). '
    '(22) GUARD: ListBox.set_focus raises IndexError for an empty body before it parks the pending change and delegates to the walker. '
    '(21) GUARD: a parameter that is range-tested against a length and stored as the focus is first shown to be an integer - isinstance test whose failing edge raises, operator.index - unless the store goes through the MonitoredFocusList.focus property (before fix 54e7f14 SimpleListWalker.set_focus(0.5) stored the float and the ListBox then reported itself empty). '
    "Decided (necessary structural conditions of C08): (1) setter validation: in every focus_position setter (Pile, Columns, GridFlow, Frame, Overlay; Widget's default) the store of the "
    "focus state is dominated by a range / membership test whose failing edge raises IndexError, the three list containers share one body (sibling comparison) including the "
    "TypeError -> IndexError conversion, and the getters raise IndexError for an empty container; (2) selectable follows the contents: Pile and Columns recompute _selectable from "
    "any(child.selectable()) in the callback registered for content modification, and GridFlow.selectable() is computed from the current contents, not from the memoised display widget; "
    "(3) Frame: the header / footer setters move the focus back to 'body' when the part being removed is the focused one (the test names the setter's own part); (4) RET: every keypress() "
    "returns None, the key, or a child/super/helper keypress result; (5) focus-only routing: in each container keypress the child receiving the key is the focus child; (6) get_focus_path "
    "and set_focus_path walk focus_position and focus.base_widget in the same order; (7) focus moves made by keypress / move_cursor_to_coords in Pile and Columns only land on children whose "
    "selectable() was tested on that path; (9) the focus-tracking list behind Pile/Columns/GridFlow/list walkers keeps its index valid structurally (shared with C16: the focus setter validates and pins the "
    "empty list to 0, single indices are converted with slice(i, i + 1 or None), every mutator computes the focus before one list call and stores it after); (10) the widget-API methods of the list containers read focus_position (which raises IndexError when empty, by contract) only where emptiness was excluded, so an empty "
    "container hands keys back and reports no cursor instead of raising; (8) the dict-like Frame.contents does not define __len__/__iter__ through the Mapping mixin methods that are themselves derived from them."
    " Added after seed round 3: (11) EXHAUST - an if/else on the key's command whose else-arm stands for the other command is reached only after the key was restricted to those two commands (only a `self.selectable()` test may bypass the restriction: the calling convention); (12) CommandMap.copy() gives the copy its own dict."
    " Round 4: (13) OPTCALL - get_cursor_coords / get_pref_col / move_cursor_to_coords / mouse_event are called on a child only under hasattr(child, method); (14) GridFlow: every store of a row's focus_position sets the latch the default-focus test reads; (15) an index is clamped to len-1 under `index >= len`."
    " Round-4 triage: (16) NONE-SENTINEL - optional parts are tested with `is (not) None`, never by truthiness; (3, extended) every writer of Frame.focus_part that can store 'header' / 'footer' tests that the part exists; (17) the position ListBox.set_focus() parks in set_focus_pending is handed back to the walker only under an IndexError/KeyError handler; (18) every attribute the synthetic contents reader of Overlay / Frame reports is stored by the contents writer. Round 5: (19) GridFlow copies the display widget's focus back on every path of mouse_event / move_cursor_to_coords; (20) Frame.render gives each part the focus flag conjoined with the test that this part is the focus part, also through a temporary Filler."
    ' Round 8: (24) KIND: an enumerate() index that becomes a focus position / contents index counts all children, not a filtered walk.'
    ' Round-8 triage: (13) OPTCALL extended: a WidgetWrap subclass forwards an optional cursor method to the wrapped widget only under hasattr(self._w, .) (fix 3f5f19c).'
    ' (25) GUARD: GridFlow stores the position taken from its display widget only under a test against the current number of cells (fix 0a00874).'
)
NOT_DECIDED = "Validity of the index after arbitrary edit histories (C16's arithmetic), the choice of the arrow-key target, which widgets are rendered with focus=True, ListBox focus bookkeeping."
ASSUMPTIONS = []

LISTS = ["urwid.widget.pile.Pile", "urwid.widget.columns.Columns", "urwid.widget.grid_flow.GridFlow"]


def _setter(p, cq, prop="focus_position"):
    cls = p.cls(cq)
    r = p.find_member(cls, prop)
    if not r or r[0] != "property" or r[1].setter is None:
        raise AnalysisError(f"{cq}.{prop} setter not found")
    return r[1]


def rule_setters(ctx: Ctx) -> RuleResult:
    p = ctx.p
    rr = RuleResult("GUARD", "C08.1", "focus_position setters validate before they store and raise IndexError; getters raise IndexError when empty", floor=10)
    bodies = {}
    for cq in [*LISTS, "urwid.widget.frame.Frame", "urwid.widget.overlay.Overlay"]:
        pi = _setter(p, cq)
        st = pi.setter
        cfg = cfg_of(st)
        prm = st.params[1]
        raises = [n for n in cfg.nodes if n.kind == "raisestmt" and "IndexError" in ast.unparse(n.ast)]
        stores = [n for n in cfg.nodes if isinstance(n.ast, ast.Assign) and any(isinstance(t, ast.Attribute) and t.attr in ("focus", "focus_part", "_focus") for t in n.ast.targets)]
        ident = f"{short(st)}"
        rr.inst(ident, True, {"setter": short(st), "IndexError_raises": len(raises), "focus_stores": [norm(s.stmt, 40) for s in stores]} if len(rr.samples) < 6 else None)
        if not raises:
            rr.add(finding("GUARD", st, st.node, "the focus_position setter never raises IndexError: an invalid position is accepted", construct="setter without IndexError"))
            continue
        # tests whose one edge leads straight to a raise IndexError
        guards = []
        for n in cfg.nodes:
            if n.kind != "test":
                continue
            for t, lab in n.succ:
                if lab in ("T", "F") and t in raises and prm in ast.unparse(n.ast):
                    guards.append((n, lab))
        for s in stores:
            ok = any(cfg.dominated(s, [g]) and s not in cfg.reachable_from_edges([(g, lab)], avoid=[]) or (cfg.dominated(s, [g]) and s not in ExcEngine._reach_without_edge(cfg, g, "F" if lab == "T" else "T") and False) for g, lab in guards)
            if not ok:
                ok = any(cfg.dominated(s, [g]) and all(s not in cfg.reachable([r]) for r in raises) for g, lab in guards)
            if not ok:
                rr.add(finding("GUARD", st, s.stmt, f"`{norm(s.stmt, 50)}` is not dominated by a validity test of `{prm}` that raises IndexError: an out-of-range position becomes the focus", construct=f"unvalidated focus store {norm(s.stmt, 40)}"))
        if cq in LISTS:
            # the range test and the TypeError conversion
            rng = [g for g, lab in guards if f"{prm} < 0" in ast.unparse(g.ast) and f"{prm} >= len(self.contents)" in ast.unparse(g.ast) and isinstance(g.ast, ast.BoolOp) and isinstance(g.ast.op, ast.Or)]
            rr.inst(f"{ident}:range", True)
            if not rng:
                rr.add(finding("GUARD", st, st.node, f"the range test is not `{prm} < 0 or {prm} >= len(self.contents)`", construct="range test form"))
            conv = [h for h in ast.walk(st.node) if isinstance(h, ast.ExceptHandler) and h.type is not None and "TypeError" in ast.unparse(h.type) and any(isinstance(x, ast.Raise) and "IndexError" in ast.unparse(x) for x in ast.walk(h))]
            rr.inst(f"{ident}:TypeError conversion", True)
            if not conv:
                rr.add(finding("GUARD", st, st.node, "a position of the wrong type no longer becomes IndexError (TypeError escapes from the comparison)", construct="no TypeError -> IndexError conversion"))
            bodies[cq] = ast.dump(ast.Module(body=[x for x in st.node.body if not (isinstance(x, ast.Expr) and isinstance(x.value, ast.Constant))], type_ignores=[])).replace(p.cls(cq).name, "C")
        # getter
        g = pi.getter
        if g is not None and cq != "urwid.widget.overlay.Overlay":
            gr = [n for n in g.own_nodes() if isinstance(n, ast.Raise) and "IndexError" in ast.unparse(n)]
            rr.inst(f"{short(g)}:getter", True)
            if not gr and cq != "urwid.widget.frame.Frame":
                rr.add(finding("GUARD", g, g.node, "the focus_position getter does not raise IndexError for an empty container", construct="getter without IndexError"))
    vals = list(bodies.values())
    rr.inst("list container setters agree", True)
    import re

    norm_bodies = {k: re.sub(r"Constant\(value='[^']*'\)", "STR", re.sub(r"lineno=\d+|col_offset=\d+|end_lineno=\d+|end_col_offset=\d+", "", v)) for k, v in bodies.items()}
    if len(set(norm_bodies.values())) > 1:
        odd = [k for k, v in norm_bodies.items() if list(norm_bodies.values()).count(v) == 1]
        rr.add(finding("GUARD", short(_setter(p, odd[0] if odd else LISTS[0]).setter), None, f"the focus_position setters of Pile, Columns and GridFlow no longer have the same body ({', '.join(x.split('.')[-1] for x in odd) or 'all'} differ): they accept different positions", construct="list container setters differ", file=""))
    # Widget default
    for q in ("urwid.widget.widget.Widget",):
        c = p.cls(q)
        r = p.find_member(c, "focus_position")
        if r and r[0] == "property":
            for f in (r[1].getter, r[1].setter):
                if f is None:
                    continue
                rr.inst(f"{short(f)}:default", True)
                if not any(isinstance(n, ast.Raise) and "IndexError" in ast.unparse(n) for n in f.own_nodes()):
                    rr.add(finding("GUARD", f, f.node, "Widget's default focus_position does not raise IndexError", construct="default focus_position"))
    return rr


def rule_selectable(ctx: Ctx) -> RuleResult:
    p = ctx.p
    rr = RuleResult("SIB", "C08.2", "selectable() of Pile / Columns / GridFlow is a function of the current contents", floor=3)
    for cq in LISTS:
        cls = p.cls(cq)
        r = p.find_member(cls, "selectable")
        ident = f"{cls.name}.selectable"
        own = cls.methods.get("selectable")

        def reads_contents_any(fi):
            for n in fi.own_nodes():
                if isinstance(n, ast.Call) and isinstance(n.func, ast.Name) and n.func.id == "any" and "selectable()" in ast.unparse(n) and "contents" in ast.unparse(n):
                    return True
            return False

        if own is not None:
            rr.inst(ident, True, {"class": cls.name, "selectable": "own method reading the contents" if reads_contents_any(own) else "own method"})
            if not reads_contents_any(own) and "_selectable" not in ast.unparse(own.node):
                rr.add(finding("SIB", own, own.node, "selectable() neither reads the current contents nor the _selectable flag", construct="selectable not from contents"))
            if reads_contents_any(own):
                continue
        # inherited: Widget.selectable returns self._selectable -> the modified callback must refresh it
        target = r[1] if r and r[0] == "method" else None
        if r and r[0] == "property":
            rr.inst(ident, True, {"class": cls.name, "selectable": "delegated to the wrapped (memoised) widget"})
            rr.add(finding("SIB", cq.replace("urwid.", ""), None, f"{cls.name}.selectable() is delegated to the memoised display widget, which is rebuilt only by the next render/keypress: right after the contents change it still answers for the old cells", construct=f"{cls.name}.selectable delegates to the cached display widget", file=cls.relpath))
            continue
        cb = cls.methods.get("_contents_modified")
        rr.inst(ident, True, {"class": cls.name, "selectable": "Widget._selectable refreshed by _contents_modified"})
        ok = cb is not None and any(isinstance(n, ast.Assign) and any(isinstance(t, ast.Attribute) and t.attr == "_selectable" for t in n.targets) and isinstance(n.value, ast.Call) and callee_name(n.value) == "any" and "selectable()" in ast.unparse(n.value) and "contents" in ast.unparse(n.value) for n in cb.own_nodes())
        if not ok:
            rr.add(finding("SIB", cb or cq.replace("urwid.", ""), cb.node if cb else None, f"{cls.name}._contents_modified does not recompute _selectable = any(w.selectable() ...) over the contents", construct=f"{cls.name}: _selectable not refreshed", file=cls.relpath))
            continue
        # the callback is registered
        reg = any(isinstance(n, ast.Call) and callee_name(n) == "set_modified_callback" and n.args and ast.unparse(n.args[0]).endswith("_contents_modified") for f in p.all_class_functions(cls) for n in f.own_nodes())
        if not reg:
            rr.add(finding("SIB", cb, cb.node, f"{cls.name}._contents_modified is not registered as the contents' modified callback", construct=f"{cls.name}: callback not registered"))
    return rr


def rule_frame_repair(ctx: Ctx) -> RuleResult:
    p = ctx.p
    rr = RuleResult("WRITER", "C08.3", "Frame: removing the focused header / footer moves the focus to 'body'; every writer of focus_part checks that the part exists", floor=6)
    cls = p.cls("urwid.widget.frame.Frame")
    for part in ("header", "footer"):
        st = _setter(p, "urwid.widget.frame.Frame", part).setter
        cfg = cfg_of(st)
        prm = st.params[1]
        store = [n for n in cfg.nodes if isinstance(n.ast, ast.Assign) and any(isinstance(t, ast.Attribute) and t.attr == f"_{part}" for t in n.ast.targets)]
        repair = [n for n in cfg.nodes if isinstance(n.ast, ast.Assign) and any(isinstance(t, ast.Attribute) and t.attr in ("focus_part", "focus_position") for t in n.ast.targets) and isinstance(n.ast.value, ast.Constant) and n.ast.value.value == "body"]
        rr.inst(f"Frame.{part} setter", True, {"setter": short(st), "repair": [norm(n.stmt, 50) for n in repair]})
        if not store:
            raise AnalysisError(f"Frame.{part} setter: store to _{part} not found")
        if not repair:
            rr.add(finding("WRITER", st, st.node, f"the {part} setter never moves the focus back to 'body': after `frame.{part} = None` the focus designates a part that no longer exists", construct=f"{part} setter without focus repair"))
            continue
        # the guard of the repair must test: new value is None and focus_part == this part
        for r in repair:
            tests = [n for n in cfg.nodes if n.kind == "test" and r in cfg.reachable_from_edges([(n, "T")]) and r not in cfg.reachable_from_edges([(n, "F")])]
            txt = " and ".join(ast.unparse(t.ast) for t in tests)
            names_part = f"'{part}'" in txt
            other = "'footer'" if part == "header" else "'header'"
            if not names_part or other in txt:
                rr.add(finding("WRITER", st, r.stmt, f"the focus repair in the {part} setter is guarded by `{txt}`: it does not test that the focused part is {part!r}, so removing the focused {part} leaves focus_part pointing at nothing", construct=f"{part} setter repairs under the wrong part test"))
            if f"{prm} is None" not in txt and f"not {prm}" not in txt and f"{prm} is None" not in ast.unparse(st.node):
                rr.add(finding("WRITER", st, r.stmt, f"the focus repair in the {part} setter does not test that the new {part} is None", construct=f"{part} setter repair without None test"))
    # every writer of focus_part that can store 'header' / 'footer' checks that the part exists: either a raising
    # `... is None` test dominates the store (focus_position setter) or every path from the store to the end of the
    # function passes an `... is None` test that falls back (constructor)
    for fi in p.all_class_functions(cls):
        if fi.cls is not cls:
            continue
        cfg = None
        for n in fi.own_nodes():
            if not (isinstance(n, ast.Assign) and any(isinstance(t, ast.Attribute) and t.attr == "focus_part" and isinstance(t.value, ast.Name) and t.value.id == fi.self_name for t in n.targets)):
                continue
            if isinstance(n.value, ast.Constant) and n.value.value == "body":
                continue
            cfg = cfg or cfg_of(fi)
            nodes = cfg.stmt_nodes(n)
            none_tests = [t for t in cfg.nodes if t.kind == "test" and any(isinstance(c, ast.Compare) and isinstance(c.ops[0], (ast.Is, ast.IsNot)) and isinstance(c.comparators[0], ast.Constant) and c.comparators[0].value is None for c in ast.walk(t.ast))]
            ok = bool(nodes) and all(cfg.dominated(x, none_tests) or cfg.must_pass(x, none_tests, ends=[cfg.exit], labels=("T", "F", "n")) for x in nodes)
            rr.inst(f"{short(fi)}: {norm(n, 40)}", True, {"writer": short(fi), "store": norm(n, 50), "none_tests": [norm(t.ast, 70) for t in none_tests]})
            if not ok:
                rr.add(finding("WRITER", fi, n, f"`{norm(n, 50)}` in {fi.name}() can put the focus on the header / footer without any test that this part exists (`... is None`): focus_position then names a part that is not in contents and `focus` is None", construct=f"{fi.name}: focus_part stored without an existence test"))
    return rr


FOCUS_EXPR = {
    "urwid.widget.pile.Pile": ("self.focus",),
    "urwid.widget.columns.Columns": ("self._contents[self.focus_position][0]", "self.contents[self.focus_position][0]", "self.focus"),
    "urwid.widget.frame.Frame": ("self._header", "self._footer", "self._body", "self.header", "self.footer", "self.body"),
    "urwid.widget.overlay.Overlay": ("self.top_w",),
    "urwid.widget.listbox.ListBox": ("self._body.get_focus()[0]",),
    "urwid.widget.filler.Filler": ("self._original_widget",),
    "urwid.widget.padding.Padding": ("self._original_widget",),
}


def rule_routing(ctx: Ctx) -> RuleResult:
    p = ctx.p
    rr = RuleResult("ROUTE", "C08.5", "in each container keypress the child receiving the key is derived from the class's focus expression", floor=7)
    for cq, allowed in FOCUS_EXPR.items():
        cls = p.cls(cq)
        kp = cls.methods.get("keypress")
        if kp is None:
            raise AnalysisError(f"{cq}.keypress not found")
        du = DefUse(kp)
        n = 0
        for c in kp.own_nodes():
            if not (isinstance(c, ast.Call) and isinstance(c.func, ast.Attribute) and c.func.attr == "keypress"):
                continue
            v = c.func.value
            if isinstance(v, ast.Call) and isinstance(v.func, ast.Name) and v.func.id == "super":
                continue
            if isinstance(v, ast.Name) and v.id == kp.self_name:
                continue
            at = du.node_of(c)
            txt = ast.unparse(du.expand(v, at)) if at is not None else ast.unparse(v)
            n += 1
            rr.inst(f"{short(kp)}:{norm(c, 40)}", True, {"keypress": short(kp), "receiver": txt} if len(rr.samples) < 7 else None)
            if txt not in allowed:
                rr.add(finding("ROUTE", kp, c, f"`{norm(c, 50)}` sends the key to `{txt}`, which is not this container's focus child ({' / '.join(allowed[:2])}): a widget off the focus path receives input", construct=f"key routed to {txt}"))
        if cq == "urwid.widget.frame.Frame":
            # each part only under focus_part == that part
            cfg = du.cfg
            for c in kp.own_nodes():
                if isinstance(c, ast.Call) and isinstance(c.func, ast.Attribute) and c.func.attr == "keypress" and isinstance(c.func.value, ast.Attribute) and c.func.value.attr.lstrip("_") in ("header", "footer", "body"):
                    part = c.func.value.attr.lstrip("_")
                    cn = nodes_where(cfg, lambda x, c=c: x is c)
                    tests_t = [t for t in cfg.nodes if t.kind == "test" and f"self.focus_part == '{part}'" in ast.unparse(t.ast) and all(x not in ExcEngine._reach_without_edge(cfg, t, "T") for x in cn)]
                    tests_f = [t for t in cfg.nodes if t.kind == "test" and f"self.focus_part != '{part}'" in ast.unparse(t.ast) and all(x not in ExcEngine._reach_without_edge(cfg, t, "F") for x in cn)]
                    rr.inst(f"Frame part {part}", True)
                    if not tests_t and not tests_f:
                        rr.add(finding("ROUTE", kp, c, f"Frame.keypress offers the key to the {part} on a path where focus_part == {part!r} was not established", construct=f"Frame {part} keypress not under focus_part test"))
        if n == 0:
            raise AnalysisError(f"{cq}.keypress forwards to no child")
    return rr


def rule_focus_path(ctx: Ctx) -> RuleResult:
    p = ctx.p
    rr = RuleResult("SIB", "C08.6", "get_focus_path and set_focus_path walk focus_position and focus.base_widget in the same order", floor=2)
    for nm in ("get_focus_path", "set_focus_path"):
        fi = p.func(f"urwid.widget.container.WidgetContainerMixin.{nm}")
        cfg = cfg_of(fi)
        pos = nodes_where(cfg, lambda x: isinstance(x, ast.Attribute) and x.attr == "focus_position")
        # the walker variable: the local that starts as `self` (by role, not by name)
        walkers = {t.id for n in fi.own_nodes() if isinstance(n, (ast.Assign, ast.AnnAssign)) and isinstance(n.value, ast.Name) and n.value.id == fi.self_name for t in (n.targets if isinstance(n, ast.Assign) else [n.target]) if isinstance(t, ast.Name)}
        step = [n for n in cfg.nodes if isinstance(n.ast, (ast.Assign, ast.AnnAssign)) and isinstance(n.ast.value, ast.Attribute) and n.ast.value.attr == "base_widget" and isinstance(n.ast.value.value, ast.Attribute) and n.ast.value.value.attr == "focus" and isinstance(n.ast.value.value.value, ast.Name) and n.ast.value.value.value.id in walkers and any(isinstance(t, ast.Name) and t.id in walkers for t in (n.ast.targets if isinstance(n.ast, ast.Assign) else [n.ast.target]))]
        rr.inst(nm, True, {"function": nm, "focus_position_uses": len(pos), "descends_by": [norm(s.stmt, 40) for s in step]})
        if not pos or not step:
            rr.add(finding("SIB", fi, fi.node, f"{nm} no longer walks `w.focus_position` then `w = w.focus.base_widget`", construct=f"{nm} walk shape"))
            continue
        # in each loop iteration: position use precedes the descent
        heads = [h for h in cfg.nodes if h.kind == "for" or (h.kind == "test" and isinstance(h.stmt, ast.While))]
        for s in step:
            for h in heads:
                body = cfg.reachable_from_edges([(h, "T")], avoid=[h])
                if s in body and s in cfg.reachable_from_edges([(h, "T")], avoid=[h, *pos]):
                    rr.add(finding("SIB", fi, s.stmt, f"{nm} descends into the focus child before it read/wrote the position of the current container in that iteration: the path is applied one level off", construct=f"{nm} order"))
        if nm == "set_focus_path":
            stores = [n for n in cfg.nodes if isinstance(n.ast, ast.Assign) and any(isinstance(t, ast.Attribute) and t.attr == "focus_position" for t in n.ast.targets)]
            if not stores or not all(any(s in cfg.reachable([st]) for s in step) for st in stores):
                rr.add(finding("SIB", fi, fi.node, "set_focus_path does not assign focus_position before descending into the new focus", construct="set_focus_path assigns after descending"))
    return rr


def rule_selectable_target(ctx: Ctx) -> RuleResult:
    p = ctx.p
    rr = RuleResult("GUARD", "C08.7", "focus moves made by Pile/Columns keypress and move_cursor_to_coords land only on children whose selectable() was tested", floor=4)
    for cq in ("urwid.widget.pile.Pile", "urwid.widget.columns.Columns"):
        cls = p.cls(cq)
        for mn in ("keypress", "move_cursor_to_coords"):
            fi = cls.methods.get(mn)
            if fi is None:
                continue
            cfg = cfg_of(fi)
            stores = [n for n in cfg.nodes if isinstance(n.ast, ast.Assign) and any(isinstance(t, ast.Attribute) and t.attr == "focus_position" and isinstance(t.value, ast.Name) and t.value.id == fi.self_name for t in n.ast.targets)]
            sel_tests = [n for n in cfg.nodes if n.kind == "test" and ".selectable()" in ast.unparse(n.ast) and "self.selectable()" not in ast.unparse(n.ast)]
            for s in stores:
                rr.inst(f"{short(fi)}:{norm(s.stmt, 40)}", True, {"function": short(fi), "store": norm(s.stmt, 50), "selectable_tests": len(sel_tests)} if len(rr.samples) < 6 else None)
                # on every path to the store, a selectable() test was passed on its 'selectable' edge
                ok = False
                for t in sel_tests:
                    neg = isinstance(t.ast, ast.UnaryOp) and isinstance(t.ast.op, ast.Not)
                    good = "F" if neg else "T"
                    if s not in ExcEngine._reach_without_edge(cfg, t, good):
                        ok = True
                if not ok:
                    # data dependence: the stored index was itself only bound under a selectable() test
                    # (Columns: `best = i, x, end, w` inside `if w.selectable():`, then `i, ... = best`)
                    du = DefUse(fi)

                    def guarded(dn):
                        for t in sel_tests:
                            neg = isinstance(t.ast, ast.UnaryOp) and isinstance(t.ast.op, ast.Not)
                            if dn not in ExcEngine._reach_without_edge(cfg, t, "F" if neg else "T"):
                                return True
                        return False

                    def trace(name, at, seen):
                        res = []
                        for v, how, dn in du.reaching(name, at):
                            if (name, dn.id) in seen:
                                continue
                            seen.add((name, dn.id))
                            if isinstance(v, ast.Constant) and v.value is None:
                                continue
                            if guarded(dn):
                                res.append(True)
                            elif isinstance(v, ast.Subscript) and isinstance(v.value, ast.Name):
                                res.extend(trace(v.value.id, dn, seen))
                            elif isinstance(v, ast.Name):
                                res.extend(trace(v.id, dn, seen))
                            else:
                                res.append(False)
                        return res

                    val = s.ast.value
                    if isinstance(val, ast.Name):
                        r = trace(val.id, s, set())
                        ok = bool(r) and all(r)
                if not ok:
                    rr.add(finding("GUARD", fi, s.stmt, f"`{norm(s.stmt, 50)}` in {mn}() can be reached without the target child's selectable() having been found true on that path: an arrow key / cursor move can put the focus on an unselectable child", construct=f"{mn}: focus store not guarded by selectable()"))
    return rr


API = ("keypress", "mouse_event", "render", "rows", "pack", "get_cursor_coords", "get_pref_col", "move_cursor_to_coords")


def rule_empty_guard(ctx: Ctx, clause="C08.10") -> RuleResult:
    """focus_position raises IndexError for an empty list container (that is the contract); the widget API of the
    container itself must therefore not read it unless emptiness was excluded on that path."""
    p = ctx.p
    rr = RuleResult("GUARD", clause, "the widget-API methods of Pile / Columns / GridFlow read self.focus_position only where the container is known to be non-empty", floor=6)
    for cq in LISTS:
        cls = p.cls(cq)
        # the widget API, and the setters of the class's option properties (cell_width, ...): assigning an option of an
        # empty container is as legitimate as asking it for its rows
        setters = [(f"{pn} setter", pr.setter) for pn, pr in sorted(cls.props.items()) if pr.setter is not None and pn not in ("focus_position", "focus", "contents", "focus_item", "focus_cell", "focus_col")]
        for name, fi in [*[(n_, cls.methods.get(n_)) for n_ in API], *setters]:
            if fi is None:
                continue
            cfg = cfg_of(fi)
            loads = nodes_where(cfg, lambda x: isinstance(x, ast.Attribute) and x.attr == "focus_position" and isinstance(x.ctx, ast.Load) and isinstance(x.value, ast.Name) and x.value.id == fi.self_name)
            if not loads:
                continue
            safe = []
            for t in cfg.nodes:
                if t.kind != "test":
                    continue
                txt = ast.unparse(t.ast)
                if txt in ("not self.contents", "not self._contents", "not self.selectable()", "len(self.contents) == 0"):
                    safe.append((t, "F"))
                elif txt in ("self.contents", "self._contents", "self.selectable()"):
                    safe.append((t, "T"))
            tries = [n for n in ast.walk(fi.node) if isinstance(n, ast.Try) and any(h.type is not None and "IndexError" in ast.unparse(h.type) for h in n.handlers)]
            first_bad = None
            # the conditional-expression form of the guard: `self.focus_position if self.contents else <default>`
            guarded_exprs = set()
            for ie in [x for x in fi.own_nodes() if isinstance(x, ast.IfExp)]:
                tt = ast.unparse(ie.test)
                if tt in ("self.contents", "self._contents"):
                    guarded_exprs |= {id(y) for y in ast.walk(ie.body)}
                elif tt in ("not self.contents", "not self._contents"):
                    guarded_exprs |= {id(y) for y in ast.walk(ie.orelse)}
            for l in sorted(loads, key=lambda n: n.lineno):
                ok = any(l not in ExcEngine._reach_without_edge(cfg, t, lab) for t, lab in safe)
                reads = [x for e in node_exprs(l) for x in ast.walk(e) if isinstance(x, ast.Attribute) and x.attr == "focus_position" and isinstance(x.ctx, ast.Load)]
                if reads and all(id(x) in guarded_exprs for x in reads):
                    ok = True
                for h in cfg.nodes:
                    if h.kind == "for" and "contents" in ast.unparse(h.ast.iter) and l is not h and l in cfg.reachable_from_edges([(h, "T")], avoid=[h]) and l not in cfg.reachable([cfg.entry], avoid=[h], include_start=True):
                        ok = True
                for tr in tries:
                    if any(y is l.stmt for x in tr.body for y in ast.walk(x)):
                        ok = True
                if not ok and first_bad is None:
                    first_bad = l
            rr.inst(f"{short(fi)}", True, {"method": short(fi), "focus_position_reads": len(loads), "guarded": first_bad is None} if len(rr.samples) < 8 else None)
            if first_bad is not None:
                rr.add(finding("GUARD", fi, first_bad.stmt, f"`{norm(first_bad.stmt, 60)}` reads self.focus_position on a path where the container may be empty (no `if not self.contents: return ...`, no loop over the contents, no IndexError handler): {cls.name}([]).{name}(...) raises IndexError instead of giving the 'nothing here' answer", construct=f"{name}: focus_position read without emptiness guard"))
    return rr


MAPPING_MIXIN = {"keys", "items", "values", "get", "__contains__", "__eq__", "pop", "popitem", "clear", "update", "setdefault"}


def rule_mapping_cycle(ctx: Ctx) -> RuleResult:
    p = ctx.p
    rr = RuleResult("ABC", "C08.8", "dict-like contents objects do not define the Mapping primitives through the mixin methods derived from them", floor=1)
    for c in p.classes.values():
        bases = [ast.unparse(b) for b in c.node.bases]
        if not any("Mapping" in b for b in bases):
            continue
        defined = set(c.methods) | set(c.class_attrs)
        for prim in ("__len__", "__iter__", "__getitem__"):
            fi = c.methods.get(prim)
            if fi is None:
                continue
            rr.inst(f"{short(c.qualname)}.{prim}", True, {"class": short(c.qualname), "primitive": prim})
            sn = fi.params[0] if fi.params else None
            for n in fi.own_nodes():
                if isinstance(n, ast.Call) and isinstance(n.func, ast.Attribute) and isinstance(n.func.value, ast.Name) and n.func.value.id == sn and n.func.attr in MAPPING_MIXIN and n.func.attr not in defined:
                    rr.add(finding("ABC", fi, n, f"{prim} is implemented with `{norm(n, 40)}`, which the Mapping base class implements through {prim} again: len()/iteration of this object recurses until RecursionError", construct=f"{prim} via mixin {n.func.attr}()"))
    return rr


def rule_command_else(ctx: Ctx) -> RuleResult:
    """`if self._command_map[key] == UP: ... else:  # down` treats every other key as the second command.  That
    is only right when each path to the dispatch has first restricted the key to the two commands (`not in {UP,
    DOWN}` -> return, or `in {...}`).  No path is exempt: "keypress() is only called on selectable widgets" does not
    make the false edge of `self.selectable()` dead, because containers cache that flag and it goes stale when a
    nested container or placeholder changes (a failing input exists: see the fix eeb8a5a)."""
    from ..rules.exc import ExcEngine

    p = ctx.p
    rr = RuleResult("EXHAUST", "C08.11", "an if/else on the key's command whose else-arm stands for the other command is reached only after the key was restricted to those two commands", floor=4)

    def cmd_subject(e):
        return isinstance(e, ast.Subscript) and "_command_map" in ast.unparse(e.value)

    for fi in p.functions.values():
        if not fi.module.name.startswith("urwid.widget") or fi.name != "keypress":
            continue
        disp = []
        for n in fi.own_nodes():
            if isinstance(n, ast.If) and n.orelse and isinstance(n.test, ast.Compare) and len(n.test.ops) == 1 and isinstance(n.test.ops[0], ast.Eq) and cmd_subject(n.test.left):
                first = n.orelse[0]
                if isinstance(first, ast.If) and "_command_map" in ast.unparse(first.test):
                    continue
                disp.append(n)
        if not disp:
            continue
        cfg = cfg_of(fi)
        sn = fi.self_name
        for d in disp:
            A = ast.unparse(d.test.comparators[0])
            subj = ast.unparse(d.test.left)
            dn = [n for n in cfg.nodes if n.kind == "test" and n.ast is d.test]
            if not dn:
                continue
            # restricting edges
            cut = []
            for t in cfg.nodes:
                if t.kind != "test":
                    continue
                for c in ast.walk(t.ast):
                    if isinstance(c, ast.Compare) and len(c.ops) == 1 and isinstance(c.ops[0], (ast.In, ast.NotIn)) and ast.unparse(c.left) == subj and isinstance(c.comparators[0], (ast.Set, ast.Tuple, ast.List)):
                        elts = [ast.unparse(x) for x in c.comparators[0].elts]
                        if len(elts) == 2 and A in elts and c is t.ast:
                            cut.append((t, "T" if isinstance(c.ops[0], ast.In) else "F"))
            contract = [(t, "T") for t in cfg.nodes if t.kind == "test" and ast.unparse(t.ast) == f"{sn}.selectable()"]
            # reach the dispatch from entry while only ever leaving a restricting test through its non-restricting edge
            seen, work, bad = {cfg.entry}, [cfg.entry], False
            while work:
                n = work.pop()
                for m, lab in n.succ:
                    if lab == "e":
                        continue
                    if any(n is t and lab == l_ for t, l_ in cut):
                        continue  # restricted from here on
                    if m in seen:
                        continue
                    seen.add(m)
                    work.append(m)
            bad = dn[0] in seen
            rr.inst(f"{short(fi)}:{norm(d.test, 50)}", True, {"dispatch": f"{short(fi)}: if {norm(d.test, 50)} ... else", "restricting_tests": [norm(t.ast, 60) for t, _ in cut], "contract_bypass": [norm(t.ast, 30) for t, _ in contract]})
            if bad:
                rr.add(finding("EXHAUST", fi, d, f"`if {norm(d.test, 50)}: ... else:` can be reached with a key that was never restricted to the two commands (every path, also the one on which the key was not offered to the child): any other key - 'x', 'enter', 'tab' - takes the else-arm, moves the focus and is swallowed", construct=f"unrestricted else-arm of {norm(d.test, 50)}"))
    return rr


def rule_copy_fresh(ctx: Ctx) -> RuleResult:
    """CommandMap.copy() is the documented way to give one widget its own key bindings: the copy must own a fresh
    mapping, otherwise rebinding a key on the copy changes the shared map of every container."""
    p = ctx.p
    rr = RuleResult("FRESH", "C08.12", "CommandMap.copy() gives the copy its own key->command dict", floor=1)
    fi = p.func("urwid.command_map.CommandMap.copy")
    sn = fi.self_name
    stores = [n for n in fi.own_nodes() if isinstance(n, ast.Assign) and any(isinstance(t, ast.Attribute) and t.attr == "_command" and not (isinstance(t.value, ast.Name) and t.value.id == sn) for t in n.targets)]
    shallow = [c for c in fi.own_nodes() if isinstance(c, ast.Call) and isinstance(c.func, ast.Attribute) and c.func.attr == "update" and "__dict__" in ast.unparse(c.func.value)]
    rr.inst("copy", True, {"stores": [norm(s_, 60) for s_ in stores], "dict_updates": [norm(c, 60) for c in shallow]})
    FRESH = ("dict", "copy", "deepcopy")
    ok = bool(stores) and all(isinstance(s_.value, (ast.Dict, ast.DictComp)) or (isinstance(s_.value, ast.Call) and callee_name(s_.value) in FRESH) for s_ in stores)
    if shallow or not ok:
        at = shallow[0] if shallow else (stores[0] if stores else fi.node)
        rr.add(finding("FRESH", fi, at, "copy() does not give the new CommandMap a dict of its own (dict(self._command) / .copy()): the copy and the shared urwid.command_map alias one mapping, so rebinding 'j' on one ListBox's private copy makes every Pile/Columns treat 'j' as a cursor key", construct="copy shares the _command dict"))
    return rr


def rule_gridflow_latch(ctx: Ctx) -> RuleResult:
    """GridFlow builds a Pile of Columns rows; within a row the Columns focus defaults to the first selectable cell but
    must end up on the GridFlow's own focus cell when that cell is in the row.  The default is guarded by a latch
    (`not column_focused`): every store of the row's focus_position has to set the latch, otherwise a later selectable
    cell takes the row focus back from the GridFlow focus cell."""
    p = ctx.p
    rr = RuleResult("GUARD", "C08.14", "GridFlow.generate_display_widget: every store of a row's focus_position sets the latch the default-focus test reads", floor=1)
    fi = p.func("urwid.widget.grid_flow.GridFlow.generate_display_widget")
    # the latch: a name tested as `not <name>` together with a selectable() call
    latch = None
    for n in fi.own_nodes():
        if isinstance(n, ast.If):
            for c in ast.walk(n.test):
                if isinstance(c, ast.UnaryOp) and isinstance(c.op, ast.Not) and isinstance(c.operand, ast.Name) and any(isinstance(x, ast.Call) and callee_name(x) == "selectable" for x in ast.walk(n.test)):
                    latch = c.operand.id
    if latch is None:
        raise AnalysisError("GridFlow.generate_display_widget: the default-focus latch (`not <flag> and w.selectable()`) was not found")
    # blocks
    n_st = 0
    for owner in ast.walk(fi.node):
        for fld in ("body", "orelse"):
            blk = getattr(owner, fld, None)
            if not isinstance(blk, list):
                continue
            for st in blk:
                if isinstance(st, ast.Assign) and any(isinstance(t, ast.Attribute) and t.attr == "focus_position" and isinstance(t.value, ast.Name) for t in st.targets):
                    recv = next(t.value.id for t in st.targets if isinstance(t, ast.Attribute) and t.attr == "focus_position" and isinstance(t.value, ast.Name))
                    # only the row (Columns) receiver: the one whose store is guarded by the latch somewhere
                    sets = any(isinstance(x, ast.Assign) and any(isinstance(t, ast.Name) and t.id == latch for t in x.targets) and isinstance(x.value, ast.Constant) and x.value.value is True for x in blk)
                    guarded_somewhere = any(isinstance(x, ast.If) and latch in ast.unparse(x.test) and any(isinstance(y, ast.Assign) and any(isinstance(t, ast.Attribute) and t.attr == "focus_position" and isinstance(t.value, ast.Name) and t.value.id == recv for t in y.targets) for y in ast.walk(x)) for x in ast.walk(fi.node))
                    if not guarded_somewhere:
                        continue
                    n_st += 1
                    rr.inst(f"{norm(st, 50)}", True, {"store": norm(st, 60), "sets_latch": sets})
                    if not sets:
                        rr.add(finding("GUARD", fi, st, f"`{norm(st, 60)}` moves the row's focus without setting `{latch}`: the next selectable cell of the row passes the `not {latch}` test and takes the row focus, so the display widget focuses (renders in focus, offers keys to) a cell that is not GridFlow.focus", construct=f"row focus stored without setting {latch}"))
    if not n_st:
        raise AnalysisError("GridFlow.generate_display_widget: no store of the row's focus_position found")
    return rr


def rule_index_clamp(ctx: Ctx) -> RuleResult:
    """`if i <op> len(s): i = ... len(s) - 1` pulls an index back into range; valid indexes are 0..len-1, so the
    test has to fire for i == len(s) (`>=`).  With `>` an index one past the end survives: a non-empty walker reports
    no focus widget and focus_position raises."""
    p = ctx.p
    rr = RuleResult("BOUND", "C08.15", "an index is clamped to max(0, len - 1) under `index >= len` (not `>`, not below 0)", floor=2)
    for fi in p.functions.values():
        if not fi.module.name.startswith("urwid.widget"):
            continue
        for n in fi.own_nodes():
            if not (isinstance(n, ast.If) and isinstance(n.test, ast.Compare) and len(n.test.ops) == 1):
                continue
            l, r, op = n.test.left, n.test.comparators[0], n.test.ops[0]
            off = 0
            if isinstance(r, ast.BinOp) and isinstance(r.op, ast.Sub) and isinstance(r.right, ast.Constant) and isinstance(r.right.value, int):
                off, r = -r.right.value, r.left
            if not (isinstance(r, ast.Call) and isinstance(r.func, ast.Name) and r.func.id == "len"):
                continue
            lhs, L = ast.unparse(l), ast.unparse(r)
            clamp = [st for st in n.body if isinstance(st, ast.Assign) and ast.unparse(st.targets[0]) == lhs and f"{L} - 1" in ast.unparse(st.value)]
            if not clamp:
                continue
            # smallest index value for which the test fires, relative to len
            first = off + (1 if isinstance(op, ast.Gt) else 0 if isinstance(op, ast.GtE) else None) if isinstance(op, (ast.Gt, ast.GtE)) else None
            rr.inst(f"{short(fi)}:{norm(n.test, 40)}", True, {"function": short(fi), "test": norm(n.test, 50), "clamp": norm(clamp[0], 50)})
            if first != 0:
                rr.add(finding("BOUND", fi, n, f"`{norm(n.test, 50)}` does not fire for {lhs} == {L}, so `{norm(clamp[0], 50)}` leaves an index one past the end in place: after the list shrank to exactly the old focus index a non-empty walker has no focus widget", construct=f"index clamp test {norm(n.test, 50)}"))
            # the clamp fires for an emptied list too (0 >= 0): len - 1 is then -1 - the stored index has to be
            # max(0, len - 1), otherwise a refill leaves the focus on the *last* item "at position -1" and the items
            # wrap around in the view
            v = clamp[0].value
            nonneg = isinstance(v, ast.Call) and callee_name(v) == "max" and any(isinstance(a, ast.Constant) and a.value == 0 for a in v.args)
            rr.inst(f"{short(fi)}:{norm(clamp[0], 40)}:floor", True, {"clamp": norm(clamp[0], 50), "non_negative": nonneg})
            if not nonneg:
                rr.add(finding("BOUND", fi, clamp[0], f"`{norm(clamp[0], 50)}` stores {L} - 1 without max(0, ...): the test also fires for an emptied list, the index becomes -1 and stays so after a refill - the focus is the last item 'at position -1', next_position(-1) is 0, and the view shows the items wrapped around", construct=f"index clamped to {L} - 1 without a floor of 0"))
    return rr


def rule_stale_position(ctx: Ctx) -> RuleResult:
    """ListBox.set_focus() parks (coming_from, old widget, old position) in `set_focus_pending` until the next call
    that knows the size.  Between the two calls the walker's contents can change, so the parked position is a
    *stale* position: handing it to the walker's set_focus() is only allowed where the walker's IndexError /
    KeyError is handled (exception edge to a handler in the same function)."""
    p = ctx.p
    rr = RuleResult("EXC", "C08.17", "a focus position parked in ListBox.set_focus_pending is handed back to the walker only under an IndexError/KeyError handler", floor=1)
    lb = p.cls("urwid.widget.listbox.ListBox")
    for fi in p.all_class_functions(lb):
        if fi.cls is not lb:
            continue
        du = None
        for c in fi.own_nodes():
            if not (isinstance(c, ast.Call) and isinstance(c.func, ast.Attribute) and c.func.attr == "set_focus" and c.args and isinstance(c.args[0], ast.Name)):
                continue
            du = du or DefUse(fi)
            at = du.node_of(c)
            if at is None:
                continue
            stale = False
            for v, how, dn in du.reaching(c.args[0].id, at):
                src = ast.unparse(dn.ast.value) if dn is not None and isinstance(dn.ast, ast.Assign) else ""
                if src.endswith(".set_focus_pending"):
                    stale = True
            if not stale:
                continue
            handled = set()
            for t, lab in at.succ:
                if lab == "e" and t.kind == "handler" and t.ast.type is not None:
                    handled |= {x.id for x in ast.walk(t.ast.type) if isinstance(x, ast.Name)}
            # both ways a walker can say "no such position": IndexError (list-like) and KeyError (mapping-like walkers)
            ok = ({"IndexError", "KeyError"} <= handled) or "LookupError" in handled or "Exception" in handled
            rr.inst(f"{short(fi)}:{norm(c, 40)}", True, {"function": short(fi), "call": norm(c, 50), "handled": sorted(handled)})
            if not ok:
                rr.add(finding("EXC", fi, c, f"`{norm(c, 50)}` restores the position that set_focus() parked in set_focus_pending during an earlier call without handling the walker's IndexError: when the list shrank in between (focus moved, then items deleted, then render) the error escapes render()/keypress()", construct=f"stale position restored unguarded: {norm(c, 50)}"))
            # ... and only when the walker has a focus at all *now*: the list may have been emptied since the change
            # was parked - then there is nothing to place and the method has to leave (a SimpleFocusListWalker
            # ignores the restore while empty and calculate_visible() answers (None, None, None))
            cfg = du.cfg
            none_tests = []
            for t in cfg.nodes:
                if t.kind != "test":
                    continue
                for q in ast.walk(t.ast):
                    if isinstance(q, ast.Compare) and isinstance(q.left, ast.Name) and isinstance(q.ops[0], ast.Is) and isinstance(q.comparators[0], ast.Constant) and q.comparators[0].value is None:
                        defs = du.reaching(q.left.id, t)
                        if any(isinstance(v, Elem) or (isinstance(v, ast.AST) and "get_focus" in ast.unparse(v)) or (dn is not None and dn.ast is not None and "get_focus" in ast.unparse(dn.ast)) for v, how, dn in defs):
                            none_tests.append(t)
            guarded = any(cfg.dominated(at, [t]) and at not in cfg.reachable_from_edges([(t, "T")]) for t in none_tests)
            rr.inst(f"{short(fi)}:{norm(c, 40)}:walker not empty", True, {"restore": norm(c, 50), "after_a_None_test_of_the_current_focus": guarded})
            if not guarded:
                rr.add(finding("EXC", fi, c, f"`{norm(c, 50)}` goes on to restore / re-place the focus without first testing that the walker has a focus widget at all: when the list was emptied after set_focus() parked the change, render() raises (IndexError 'No widget at position None' / TypeError 'cannot unpack NoneType') instead of drawing an empty box", construct="pending focus change completed on an emptied list"))
    return rr


def rule_contents_rw(ctx: Ctx) -> RuleResult:
    """Containers with a synthetic `contents` object (Overlay, Frame) implement it with a reader
    `_contents__getitem__` and a writer `_contents__setitem__`.  Whatever state the reader reports for a position
    the writer has to store: an attribute that is read but never written makes `contents[k] = (w, options)`
    silently drop that part of the pair (the focus widget read back is not the one written)."""
    p = ctx.p
    rr = RuleResult("SIB", "C08.18", "every attribute the synthetic contents reader reports is stored by the contents writer", floor=2)
    for C in p.classes.values():
        g, w = C.methods.get("_contents__getitem__"), C.methods.get("_contents__setitem__")
        if g is None or w is None:
            continue

        def attrs(fi, store):
            out = set()
            for n in fi.own_nodes():
                if isinstance(n, ast.Attribute) and isinstance(n.value, ast.Name) and n.value.id == fi.self_name and isinstance(n.ctx, ast.Store if store else ast.Load) and not n.attr.lstrip("_").isupper():
                    out.add(n.attr.lstrip("_"))
            return out

        # only what is part of a returned value counts as reported
        reported = set()
        for n in g.own_nodes():
            if isinstance(n, ast.Return) and n.value is not None:
                for a in ast.walk(n.value):
                    if isinstance(a, ast.Attribute) and isinstance(a.value, ast.Name) and a.value.id == g.self_name and not a.attr.lstrip("_").isupper():
                        reported.add(a.attr.lstrip("_"))
        written = attrs(w, True)
        rr.inst(short(C) if hasattr(C, "qualname") else C.name, True, {"class": C.name, "reported": sorted(reported), "written": sorted(written)})
        for a in sorted(reported - written):
            rr.add(finding("SIB", w, w.node, f"{C.name}.contents reports `{a}` for a position (in _contents__getitem__) but _contents__setitem__ never stores it: `contents[k] = (widget, options)` silently keeps the old `{a}`", construct=f"{C.name}: contents writer never stores {a}"))
    return rr


def rule_gridflow_focus_sync(ctx: Ctx) -> RuleResult:
    """GridFlow shows its cells through a generated Pile of Columns (the display widget) and keeps its own focus in
    `contents.focus`.  A mouse press or a cursor move changes the focus *inside the display widget* whether or not the
    cell's widget then handles the event (Pile / Columns focus a selectable child on a button-1 press before they
    forward it), so mouse_event() and move_cursor_to_coords() have to copy the display widget's focus back on
    every path after delegating - not only when the event was reported as handled."""
    p = ctx.p
    rr = RuleResult("PASS", "C08.19", "GridFlow.mouse_event / move_cursor_to_coords copy the display widget's focus back on every path after delegating to it", floor=2)
    cls = p.cls("urwid.widget.grid_flow.GridFlow")
    for name in ("mouse_event", "move_cursor_to_coords"):
        fi = cls.methods.get(name)
        if fi is None:
            raise AnalysisError(f"GridFlow.{name} not found")
        cfg = cfg_of(fi)
        deleg = nodes_where(cfg, lambda x: isinstance(x, ast.Call) and isinstance(x.func, ast.Attribute) and x.func.attr == name and isinstance(x.func.value, ast.Call) and isinstance(x.func.value.func, ast.Name) and x.func.value.func.id == "super")
        sync = nodes_where(cfg, lambda x: isinstance(x, ast.Call) and isinstance(x.func, ast.Attribute) and x.func.attr == "_set_focus_from_display_widget")
        if not deleg:
            raise AnalysisError(f"GridFlow.{name}: the super().{name}() call was not found")
        ok = bool(sync) and all(cfg.must_pass(d, sync, ends=[cfg.exit], labels=("n", "T", "F")) for d in deleg)
        rr.inst(f"GridFlow.{name}", True, {"entry_point": name, "sync_calls": len(sync), "on_every_path": ok})
        if not ok:
            rr.add(finding("PASS", fi, deleg[0].stmt, f"after `{norm(deleg[0].stmt, 60)}` a path reaches the end of {name}() without _set_focus_from_display_widget(): a press on a selectable cell whose widget does not consume the event moves the focus inside the display widget only - keys and the focused rendering then go to the clicked cell while focus / focus_position / get_focus_path() still name the old one", construct=f"GridFlow.{name}: focus not copied back on every path"))
    return rr


def rule_frame_focus_arg(ctx: Ctx) -> RuleResult:
    """'only the focus path is rendered with focus': Frame.render() draws each of its parts possibly in two ways (as it
    is, or - when it has to be cut - through a temporary Filler).  Every one of these render() calls gets as focus
    flag the frame's own flag *and* the test that this very part is the focus part."""
    p = ctx.p
    rr = RuleResult("SIB", "C08.20", "every part Frame.render() draws is given `focus and self.focus_part == <that part>` (also through the temporary Filler)", floor=5)
    fi = p.func("urwid.widget.frame.Frame.render")
    fprm = fi.params[2]
    parts = ("header", "body", "footer")
    for c in fi.own_nodes():
        if not (isinstance(c, ast.Call) and isinstance(c.func, ast.Attribute) and c.func.attr == "render"):
            continue
        recv = ast.unparse(c.func.value)
        part = next((x for x in parts if f"{fi.self_name}.{x}" in recv or f"{fi.self_name}._{x}" in recv), None)
        if part is None:
            continue
        farg = c.args[1] if len(c.args) > 1 else next((k.value for k in c.keywords if k.arg == "focus"), None)
        conj = list(farg.values) if isinstance(farg, ast.BoolOp) and isinstance(farg.op, ast.And) else ([farg] if farg is not None else [])
        has_flag = any(isinstance(x, ast.Name) and x.id == fprm for x in conj)
        has_part = any(isinstance(x, ast.Compare) and len(x.ops) == 1 and isinstance(x.ops[0], ast.Eq) and "focus_part" in ast.unparse(x) and any(isinstance(k, ast.Constant) and k.value == part for k in ast.walk(x)) for x in conj)
        rr.inst(f"{part}: {norm(c, 50)}", True, {"part": part, "call": norm(c, 90), "focus_argument": ast.unparse(farg) if farg is not None else None})
        if not (has_flag and has_part):
            rr.add(finding("SIB", fi, c, f"`{norm(c, 80)}` draws the {part} with focus flag `{ast.unparse(farg) if farg is not None else 'False'}` instead of `{fprm} and self.focus_part == '{part}'`: when another part has the focus the {part} (and its own focus child) is still rendered as focused - off the focus path", construct=f"{part} rendered with focus flag {ast.unparse(farg) if farg is not None else 'missing'}"))
    return rr


def rule_integral_position(ctx: Ctx) -> RuleResult:
    """'assigning an invalid position raises IndexError': a position that is validated by order comparisons against
    len(...) alone is not yet an index - 0 <= 0.5 < 3 holds.  Wherever a parameter is range-tested against a length
    and then stored as the focus, either the store goes through the MonitoredFocusList.focus property (whose setter
    converts with operator.index, C08.9a) or the store itself is dominated by an integrality step on that parameter:
    an isinstance(<p>, int) test whose failing edge raises, or operator.index(<p>).  Before fix 54e7f14
    SimpleListWalker.set_focus(0.5) stored the float; every later get_focus() then failed to index the list and the
    ListBox reported itself empty."""
    p = ctx.p
    rr = RuleResult("GUARD", "C08.21", "a parameter range-tested against len(...) and stored as the focus is first shown to be an integer (isinstance test raising / operator.index) unless the store goes through MonitoredFocusList.focus", floor=5)
    mfl = p.cls("urwid.widget.monitored_list.MonitoredFocusList")
    for fi in p.functions.values():
        if not fi.module.name.startswith("urwid.widget") or fi.is_lambda:
            continue
        params = set(fi.all_params) - {fi.self_name, "cls"}
        cfg = None
        for n in fi.own_nodes():
            if not (isinstance(n, ast.Assign) and isinstance(n.value, ast.Name) and n.value.id in params):
                continue
            prm = n.value.id
            tg = [t for t in n.targets if isinstance(t, ast.Attribute)]
            if not tg:
                continue
            if not any(isinstance(c, ast.Compare) and "len(" in ast.unparse(c) and any(isinstance(x, ast.Name) and x.id == prm for x in ast.walk(c)) and any(isinstance(o, (ast.Lt, ast.LtE, ast.Gt, ast.GtE)) for o in c.ops) for c in fi.own_nodes()):
                continue
            t = tg[0]
            ident = f"{short(fi)}: {norm(n, 50)}"
            in_mfl = fi.cls is not None and mfl in p.mro(fi.cls)
            via_property = t.attr == "focus" and (not (isinstance(t.value, ast.Name) and t.value.id == fi.self_name) or (in_mfl and fi.name != "focus"))
            if via_property:
                rr.inst(ident, True, {"store": ident, "integrality": "MonitoredFocusList.focus setter (C08.9a)"})
                continue
            cfg = cfg or cfg_of(fi)
            sn = next((x for x in cfg.nodes if x.stmt is n), None)
            if sn is None:
                continue
            ok = False
            how = None
            for x in cfg.nodes:
                txt = [c for e in node_exprs(x) for c in walk_no_nested(e) if isinstance(c, ast.Call)]
                for c in txt:
                    nm = callee_name(c)
                    if nm == "index" and isinstance(c.func, ast.Attribute) and ast.unparse(c.func.value) == "operator" and c.args and isinstance(c.args[0], ast.Name) and c.args[0].id == prm and cfg.dominated(sn, [x]):
                        ok, how = True, norm(c, 40)
                    if nm == "isinstance" and x.kind == "test" and len(c.args) == 2 and isinstance(c.args[0], ast.Name) and c.args[0].id == prm and ast.unparse(c.args[1]) in ("int", "numbers.Integral", "Integral") and cfg.dominated(sn, [x]):
                        # the store is unreachable along one edge of the test (that edge raises)
                        for lab in ("T", "F"):
                            if sn not in cfg.reachable_from_edges([(x, lab)], avoid=[]):
                                ok, how = True, norm(x.ast, 60)
            rr.inst(ident, True, {"store": ident, "integrality": how})
            if not ok:
                rr.add(finding("GUARD", fi, n, f"`{norm(n, 50)}` stores `{prm}` as the focus after order comparisons against a length only: a non-integral number inside the range (0.5) is accepted, after which the container cannot index its focus any more and reports itself empty", construct=f"non-integral {prm} stored as focus"))
    return rr


def rule_listbox_empty_setter(ctx: Ctx) -> RuleResult:
    """'an empty container ... raises IndexError for its position, as does assigning an invalid position': ListBox
    delegates the position to its walker, but cannot leave the empty case to it - MonitoredFocusList ignores a focus
    assignment while the list is empty, so SimpleFocusListWalker.set_focus() accepts anything then.  ListBox.set_focus
    itself asks the walker for the current focus and raises IndexError when there is none, *before* it parks the
    pending change and delegates (a parked (None, None, None) makes the next render raise TypeError)."""
    p = ctx.p
    rr = RuleResult("GUARD", "C08.22", "ListBox.set_focus raises IndexError for an empty body before it parks the pending focus change and delegates to the walker", floor=2)
    fi = p.func("urwid.widget.listbox.ListBox.set_focus")
    cfg = cfg_of(fi)
    raises = [n for n in cfg.nodes if n.kind == "raisestmt" and "IndexError" in ast.unparse(n.ast)]
    guards = []
    for t in cfg.nodes:
        if t.kind != "test":
            continue
        if not any(isinstance(c, ast.Compare) and isinstance(c.ops[0], ast.Is) and isinstance(c.comparators[0], ast.Constant) and c.comparators[0].value is None for c in ast.walk(t.ast)):
            continue
        if any(tg in raises for tg, lab in t.succ if lab == "T"):
            guards.append(t)
    acts = [n for n in cfg.nodes if n.ast is not None and ((isinstance(n.ast, ast.Assign) and any(isinstance(tg, ast.Attribute) and tg.attr == "set_focus_pending" for tg in n.ast.targets)) or any(isinstance(c, ast.Call) and isinstance(c.func, ast.Attribute) and c.func.attr == "set_focus" and "_body" in ast.unparse(c.func.value) for c in ast.walk(n.ast)))]
    if not acts:
        raise AnalysisError("ListBox.set_focus: the pending store / the delegation to the walker was not found")
    for a in acts:
        ok = bool(guards) and any(cfg.dominated(a, [g]) and a not in cfg.reachable_from_edges([(g, "T")]) for g in guards)
        rr.inst(norm(a.stmt, 50), True, {"action": norm(a.stmt, 60), "after_the_empty_test": ok})
        if not ok:
            rr.add(finding("GUARD", fi, a.stmt, f"`{norm(a.stmt, 50)}` is reached without the test that the body has a focus at all (`... is None` -> raise IndexError): an empty ListBox over a SimpleFocusListWalker silently accepts any focus_position (the walker ignores focus assignments while it is empty) and keeps a pending (None, None, None) that makes the next render raise TypeError", construct="empty ListBox accepts a focus position"))
    return rr


def rule_widget_none_test(ctx: Ctx, clause="C08.23") -> RuleResult:
    """The walker protocol answers (None, None) when there is no widget.  A widget is an arbitrary object - containers
    define __len__, so an *empty* Pile, Columns, GridFlow or ListBox is falsy - hence the first element of what
    get_focus() / get_next() / get_prev() return is compared with None by identity, never tested for truthiness:
    `if not w` takes an emptied nested container for 'no widget' (focus_position raises for a non-empty ListBox, the
    focus path is cut short, rows_max() is 0, iteration stops early)."""
    p = ctx.p
    rr = RuleResult("SENTINEL", clause, "a widget obtained from the walker (get_focus / get_next / get_prev) is compared with None by identity, never tested for truthiness", floor=20)
    mods = [p.modules[m] for m in ("urwid.widget.listbox", "urwid.widget.grid_flow") if m in p.modules]
    for fi in [f for m in mods for f in m.functions]:
        if fi.is_lambda:
            continue
        wn = set()
        # a local bound to some container's `.focus` (the focus *widget*, or None when the container is empty)
        for n in fi.own_nodes():
            if isinstance(n, ast.Assign) and isinstance(n.targets[0], ast.Name) and isinstance(n.value, ast.Attribute) and n.value.attr == "focus":
                wn.add(n.targets[0].id)
        for n in fi.own_nodes():
            tests = [n.test] if isinstance(n, (ast.If, ast.While, ast.IfExp)) else []
            for t in tests:
                for x in (list(t.values) if isinstance(t, ast.BoolOp) else [t]):
                    y = x.operand if isinstance(x, ast.UnaryOp) and isinstance(x.op, ast.Not) else x
                    if isinstance(y, ast.Attribute) and y.attr == "focus" and not (isinstance(y.value, ast.Name) and y.value.id == fi.self_name):
                        rr.inst(f"{short(fi)}: {norm(t, 30)}", True)
                        rr.add(finding("SENTINEL", fi, t, f"`{norm(t, 40)}` tests a focus *widget* for truthiness; an empty container (Pile([]) as a GridFlow cell) is falsy although it is the focus: it is taken for 'no focus'", construct=f"widget {ast.unparse(y)} tested for truthiness"))
        for n in fi.own_nodes():
            if isinstance(n, ast.Assign) and isinstance(n.value, ast.Call) and isinstance(n.value.func, ast.Attribute) and n.value.func.attr in ("get_focus", "get_next", "get_prev") and isinstance(n.targets[0], ast.Tuple) and n.targets[0].elts and isinstance(n.targets[0].elts[0], ast.Name):
                wn.add(n.targets[0].elts[0].id)
        if not wn:
            continue
        for n in fi.own_nodes():
            if isinstance(n, ast.Compare) and isinstance(n.left, ast.Name) and n.left.id in wn and isinstance(n.ops[0], (ast.Is, ast.IsNot)):
                rr.inst(f"{short(fi)}: {norm(n, 30)}", True, {"test": f"{short(fi)}: {norm(n, 40)}"} if len(rr.samples) < 4 else None)
            tests = [n.test] if isinstance(n, (ast.If, ast.While, ast.IfExp)) else ([n] if isinstance(n, ast.Assert) else [])
            for t in tests:
                parts = list(t.values) if isinstance(t, ast.BoolOp) else [t]
                for x in parts:
                    y = x.operand if isinstance(x, ast.UnaryOp) and isinstance(x.op, ast.Not) else x
                    if isinstance(y, ast.Name) and y.id in wn:
                        rr.inst(f"{short(fi)}: {norm(t, 30)}", True)
                        rr.add(finding("SENTINEL", fi, t, f"`{norm(t, 40)}` tests the widget `{y.id}` the walker returned for truthiness; the 'no widget' answer is None, while an empty container widget (Pile([]), Columns([]), an empty ListBox) is falsy too: it is taken for 'nothing there'", construct=f"widget {y.id} tested for truthiness"))
    return rr


def rule_display_focus_in_range(ctx: Ctx) -> RuleResult:
    """GridFlow copies the focus of its display widget back into focus_position after the display widget handled a key
    or a click.  The display widget is a snapshot built *before* the event; a handler run by the event may have
    edited the contents (a button that removes its own cell), and the contents list has already moved the focus.
    The position computed from the snapshot is stored only where a test has shown it inside the current contents.
    Before fix 0a00874 the stale position was stored as it was: keypress() raised IndexError 'No GridFlow child widget
    at position 2' after the handler had run."""
    from ..rules.exc import ExcEngine

    p = ctx.p
    rr = RuleResult("GUARD", "C08.25", "GridFlow stores the position taken from its display widget only under a test against the current number of cells", floor=1)
    fi = p.func("urwid.widget.grid_flow.GridFlow._set_focus_from_display_widget")
    cfg = cfg_of(fi)
    stores = [n for n in cfg.nodes if isinstance(n.ast, ast.Assign) and any(isinstance(t, ast.Attribute) and t.attr == "focus_position" for t in n.ast.targets)]
    if not stores:
        raise AnalysisError("GridFlow._set_focus_from_display_widget: no store to focus_position")
    for st in stores:
        ok = False
        for t in cfg.nodes:
            if t.kind == "test" and "len(" in ast.unparse(t.ast) and "contents" in ast.unparse(t.ast):
                if st not in ExcEngine._reach_without_edge(cfg, t, "T") or st not in ExcEngine._reach_without_edge(cfg, t, "F"):
                    ok = True
        v = st.ast.value
        if isinstance(v, ast.Call) and callee_name(v) == "min" and "len(" in ast.unparse(v):
            ok = True
        rr.inst(norm(st.ast, 50), True, {"store": norm(st.ast, 60), "bounded_by_current_contents": ok})
        if not ok:
            rr.add(finding("GUARD", fi, st.ast, f"`{norm(st.ast, 60)}` stores a position computed from the display widget - a snapshot built before the event was handled - without comparing it with len(self.contents): a handler that removed a cell leaves the position out of range and keypress() / mouse_event() raise IndexError after the handler already ran", construct="display focus stored without a range test"))
    return rr


def rule_enumerate_alignment(ctx: Ctx) -> RuleResult:
    """A focus position is an index into `contents`.  Where a method finds the child to focus by walking the children
    with enumerate(), the number only is such an index if the walk goes over all of contents (or sequences zipped
    with it): enumerate() over a *filtered* view (a generator / comprehension with an `if`, filter()) counts the
    items that passed the filter.  With k filtered-out items in front, the stored focus is k positions off and can
    land on an unselectable child (seed C08-r8a: Columns.move_cursor_to_coords enumerated the visible columns).
    Every enumerate() index that flows into a focus store or a contents subscript comes from an unfiltered walk."""
    p = ctx.p
    rr = RuleResult("KIND", "C08.24", "an enumerate() index that becomes a focus position / contents index counts all children, not a filtered selection of them", floor=4)
    for fi in p.functions.values():
        if not fi.module.name.startswith("urwid.widget") or fi.is_lambda or not fi.self_name:
            continue
        loops = [n for n in fi.own_nodes() if isinstance(n, ast.For) and isinstance(n.iter, ast.Call) and callee_name(n.iter) == "enumerate" and n.iter.args and isinstance(n.target, ast.Tuple) and isinstance(n.target.elts[0], ast.Name)]
        if not loops:
            continue
        du = None
        for lp in loops:
            idx = lp.target.elts[0].id
            tainted = {idx}
            changed = True
            while changed:
                changed = False
                for n in fi.own_nodes():
                    if isinstance(n, ast.Assign) and any(isinstance(x, ast.Name) and x.id in tainted for x in ast.walk(n.value)):
                        for t in n.targets:
                            for x in ast.walk(t):
                                if isinstance(x, ast.Name) and x.id not in tainted:
                                    tainted.add(x.id)
                                    changed = True
            sinks = []
            for n in fi.own_nodes():
                if isinstance(n, (ast.Assign, ast.AugAssign)):
                    tg = n.targets if isinstance(n, ast.Assign) else [n.target]
                    if any(isinstance(t, ast.Attribute) and t.attr in ("focus_position", "focus_col", "focus_item", "focus") for t in tg) and any(isinstance(x, ast.Name) and x.id in tainted for x in ast.walk(n.value)):
                        sinks.append(n)
                if isinstance(n, ast.Subscript) and isinstance(n.value, ast.Attribute) and n.value.attr in ("contents", "_contents", "widget_list") and any(isinstance(x, ast.Name) and x.id in tainted for x in ast.walk(n.slice)):
                    sinks.append(n)
                if isinstance(n, ast.Call) and isinstance(n.func, ast.Attribute) and n.func.attr in ("set_focus", "_set_focus_position") and any(isinstance(x, ast.Name) and x.id in tainted for a in n.args for x in ast.walk(a)):
                    sinks.append(n)
            if not sinks:
                continue
            du = du or DefUse(fi)
            at = du.node_of(lp)
            src = lp.iter.args[0]
            ex = du.expand(src, at) if at is not None else src
            cands = [ex]
            if isinstance(ex, ast.Name):
                cands += [v for _dn, v, _how in du.defs.get(ex.id, []) if isinstance(v, ast.AST)]
            filtered = None
            for x in (y for c in cands for y in ast.walk(c)):
                if isinstance(x, (ast.GeneratorExp, ast.ListComp)) and any(g.ifs for g in x.generators):
                    filtered = x
                if isinstance(x, ast.Call) and callee_name(x) == "filter":
                    filtered = x
            rr.inst(f"{short(fi)}: {norm(lp.iter, 50)}", True, {"function": short(fi), "walk": norm(ex, 70), "index_used_at": norm(sinks[0], 50), "filtered": filtered is not None} if len(rr.samples) < 8 else None)
            if filtered is not None:
                rr.add(finding("KIND", fi, lp.iter, f"`{norm(lp.iter, 50)}` numbers the items of a filtered walk (`{norm(filtered, 60)}`), and the number is used as a position in contents (`{norm(sinks[0], 50)}`): with k items filtered out in front (hidden zero-width columns) the focus lands k places too far left - possibly on an unselectable child", construct=f"{fi.name}: enumerate over a filtered walk gives the focus position"))
    return rr


def run(ctx: Ctx):
    p = ctx.p
    from ..rules import optcall, sentinel
    from . import c16

    shared = []
    for fn, cl in ((c16.rule_focus_setter, "C08.9a"), (c16.rule_index_slice_idiom, "C08.9b"), (c16.rule_order, "C08.9c")):
        r = fn(ctx)
        r.clause = cl
        shared.append(r)
    return [
        *shared,
        rule_setters(ctx),
        rule_selectable(ctx),
        rule_frame_repair(ctx),
        ret.run_ret(p, "C08.4", floor=23, exempt=C08_RET_EXEMPT),
        rule_routing(ctx),
        rule_focus_path(ctx),
        rule_selectable_target(ctx),
        rule_mapping_cycle(ctx),
        rule_empty_guard(ctx),
        rule_command_else(ctx),
        rule_copy_fresh(ctx),
        rule_gridflow_latch(ctx),
        rule_index_clamp(ctx),
        sentinel.run_sentinel(p, "C08.16", ("urwid.widget",), floor=10),
        rule_stale_position(ctx),
        rule_contents_rw(ctx),
        rule_gridflow_focus_sync(ctx),
        rule_frame_focus_arg(ctx),
        rule_integral_position(ctx),
        rule_listbox_empty_setter(ctx),
        rule_widget_none_test(ctx),
        optcall.run_optcall(p, "C08.13", ("urwid.widget",), floor=35),
        rule_enumerate_alignment(ctx),
        rule_display_focus_in_range(ctx),
    ]


_P = "urwid/widget/pile.py"
_C = "urwid/widget/columns.py"
_G = "urwid/widget/grid_flow.py"
_F = "urwid/widget/frame.py"
MUTANTS = [
    Mut("twin-gridflow-display-focus-test-negated", "urwid/widget/grid_flow.py", "GridFlow._set_focus_from_display_widget", "        if position >= len(self.contents):", "        if not position < len(self.contents):", twin=True),
    Mut("twin-columns-cursor-move-pairs-local", "urwid/widget/columns.py", "Columns.move_cursor_to_coords", "        for i, (width, (w, _options)) in enumerate(zip(widths, self.contents)):", "        pairs = list(zip(widths, self.contents))\n        for i, (width, (w, _options)) in enumerate(pairs):", twin=True),
    Mut("gridflow-display-focus-unbounded", "urwid/widget/grid_flow.py", "GridFlow._set_focus_from_display_widget", "        if position >= len(self.contents):\n", "        if False:\n", "GUARD|widget.grid_flow.GridFlow._set_focus_from_display_widget|display focus stored without a range test"),
    Mut("gridflow-empty-forwards-cursor-move", "urwid/widget/grid_flow.py", "GridFlow.move_cursor_to_coords", "        if not hasattr(self._w, \"move_cursor_to_coords\"):\n            return False  # no cells: the display widget is a plain Divider\n", "", "OPTCALL|widget.grid_flow.GridFlow.move_cursor_to_coords|GridFlow.move_cursor_to_coords: optional method forwarded to the wrapped widget unguarded"),
    Mut("gridflow-empty-forwards-pref-col", "urwid/widget/grid_flow.py", "GridFlow.get_pref_col", "        if not hasattr(self._w, \"get_pref_col\"):\n            return None  # no cells: the display widget is a plain Divider\n", "", "OPTCALL|widget.grid_flow.GridFlow.get_pref_col|GridFlow.get_pref_col: optional method forwarded to the wrapped widget unguarded"),
    Mut("pending-focus-on-emptied-list", "urwid/widget/listbox.py", "ListBox._set_focus_complete", "        if new_focus_widget is None or focus_pos == position:", "        if focus_pos == position:", "EXC|widget.listbox.ListBox._set_focus_complete|pending focus change completed on an emptied list"),
    Mut("gridflow-focus-cell-truthy", "urwid/widget/grid_flow.py", "GridFlow._set_focus_from_display_widget", "        if c.focus is not None:  # an empty container cell is falsy but still the focus", "        if c.focus:", "SENTINEL|widget.grid_flow.GridFlow._set_focus_from_display_widget|widget c.focus tested for truthiness"),
    Mut("pile-widget-list-reads-focus-of-empty", "urwid/widget/pile.py", "urwid.widget.pile.Pile.widget_list", "        focus_position = self.focus_position if self.contents else 0\n", "        focus_position = self.focus_position\n", "GUARD|widget.pile.Pile.widget_list|widget_list setter: focus_position read without emptiness guard"),
    Mut("walker-clamp-without-floor", "urwid/widget/listbox.py", "SimpleListWalker._modified", "            self.focus = max(0, len(self) - 1)", "            self.focus = len(self) - 1", "BOUND|widget.listbox.SimpleListWalker._modified|index clamped to len(self) - 1 without a floor of 0"),
    Mut("stale-position-only-indexerror", "urwid/widget/listbox.py", "ListBox._set_focus_complete", "        except (IndexError, KeyError):", "        except IndexError:", "EXC|widget.listbox.ListBox._set_focus_complete"),
    Mut("listbox-focus-position-truthy-widget", "urwid/widget/listbox.py", "ListBox._get_focus_position", "        if w is None:", "        if not w:", "SENTINEL|widget.listbox.ListBox._get_focus_position|widget w tested for truthiness"),
    Mut("listbox-rows-max-truthy-focus", "urwid/widget/listbox.py", "ListBox.rows_max", "            if focused_w is not None:  # an empty container is falsy but still a widget", "            if focused_w:", "SENTINEL|widget.listbox.ListBox.rows_max|widget focused_w tested for truthiness"),
    Mut("pile-item-types-reads-focus-of-empty", "urwid/widget/pile.py", "urwid.widget.pile.Pile.item_types", "        focus_position = self.focus_position if self.contents else 0\n", "        focus_position = self.focus_position\n", "GUARD|widget.pile.Pile.item_types|item_types setter: focus_position read without emptiness guard", nth=0),
    Mut("gridflow-cell-width-reads-focus-of-empty", "urwid/widget/grid_flow.py", "urwid.widget.grid_flow.GridFlow.cell_width", "        if not self.contents:\n            # nothing to re-size, and no focus position to keep\n            self._cell_width = width\n            self._invalidate()\n            return\n", "", "GUARD|widget.grid_flow.GridFlow.cell_width|cell_width setter: focus_position read without emptiness guard"),
    Mut("listbox-set-focus-no-empty-test", "urwid/widget/listbox.py", "ListBox.set_focus", "        if focus_widget is None:\n            raise IndexError(\"Can't set focus, ListBox is empty\")\n", "", "GUARD|widget.listbox.ListBox.set_focus|empty ListBox accepts a focus position"),
    Mut("walker-accepts-float-position", "urwid/widget/listbox.py", "SimpleListWalker.set_focus", "        if not isinstance(position, int) or not 0 <= position < len(self):", "        if not 0 <= position < len(self):", "GUARD|widget.listbox.SimpleListWalker.set_focus|non-integral position stored as focus"),
    Mut("twin-walker-integrality-own-test", "urwid/widget/listbox.py", "SimpleListWalker.set_focus", "        if not isinstance(position, int) or not 0 <= position < len(self):\n            raise IndexError(f\"No widget at position {position}\")\n", "        if not isinstance(position, int):\n            raise IndexError(f\"No widget at position {position}\")\n        if not 0 <= position < len(self):\n            raise IndexError(f\"No widget at position {position}\")\n", twin=True),
    Mut("twin-walker-operator-index", "urwid/widget/listbox.py", "SimpleListWalker.set_focus", "        if not isinstance(position, int) or not 0 <= position < len(self):\n            raise IndexError(f\"No widget at position {position}\")\n", "        import operator\n\n        position = operator.index(position)\n        if not 0 <= position < len(self):\n            raise IndexError(f\"No widget at position {position}\")\n", twin=True),
    Mut("frame-trimmed-header-always-focused", _F, "Frame.render", "head = Filler(self.header, VAlign.TOP).render((maxcol, htrim), focus and self.focus_part == \"header\")", "head = Filler(self.header, VAlign.TOP).render((maxcol, htrim), focus)", "SIB|widget.frame.Frame.render"),
    Mut("gridflow-click-syncs-focus-only-when-handled", _G, "GridFlow.mouse_event", "        super().mouse_event(size, event, button, col, row, focus)\n        self._set_focus_from_display_widget()", "        if super().mouse_event(size, event, button, col, row, focus):\n            self._set_focus_from_display_widget()", "PASS|widget.grid_flow.GridFlow.mouse_event"),
    Mut("overlay-contents-drops-top-widget", "urwid/widget/overlay.py", "Overlay._contents__setitem__", "            self.top_w = value_w\n", "", "SIB|widget.overlay.Overlay._contents__setitem__"),
    Mut("overlay-contents-drops-min-height", "urwid/widget/overlay.py", "Overlay._contents__setitem__", "            self.min_height = min_height\n", "", "SIB|widget.overlay.Overlay._contents__setitem__"),
    Mut("listbox-restores-stale-position-unguarded", "urwid/widget/listbox.py", "ListBox._set_focus_complete", "        try:\n            self._body.set_focus(focus_pos)\n        except (IndexError, KeyError):\n            # the old focus position no longer exists: there is nothing to place the new focus relative to\n            focus_offset = focus_rows = 0\n            fill_above = fill_below = ()\n        else:\n", "        self._body.set_focus(focus_pos)\n        if True:\n", "EXC|widget.listbox.ListBox._set_focus_complete"),
    Mut("frame-ctor-focuses-absent-part", _F, "Frame.__init__", "        if (self.focus_part == \"header\" and header is None) or (self.focus_part == \"footer\" and footer is None):\n            # an absent part cannot have the focus (as when the part is removed later)\n            self.focus_part = \"body\"\n", "", "WRITER|widget.frame.Frame.__init__"),
    Mut("frame-keys-by-truthiness", "urwid/widget/frame.py", "Frame._contents_keys", "        if self._header is not None:\n            keys.append(\"header\")", "        if self._header:\n            keys.append(\"header\")", "SENTINEL|widget.frame.Frame._contents_keys"),
    Mut("walker-focus-clamp-off-by-one", "urwid/widget/listbox.py", "SimpleListWalker._modified", "if self.focus >= len(self):", "if self.focus > len(self):", "BOUND|widget.listbox.SimpleListWalker._modified"),
    Mut("twin-walker-focus-clamp-respelled", "urwid/widget/listbox.py", "SimpleListWalker._modified", "if self.focus >= len(self):", "if self.focus > len(self) - 1:", twin=True),
    Mut("gridflow-focus-cell-does-not-latch", "urwid/widget/grid_flow.py", "GridFlow.generate_display_widget", "            if (i == self.focus_position) or (not column_focused and w.selectable()):\n                c.focus_position = len(c.contents) - 1\n                column_focused = True\n            if i == self.focus_position:\n", "            if not column_focused and w.selectable():\n                c.focus_position = len(c.contents) - 1\n                column_focused = True\n            if i == self.focus_position:\n                c.focus_position = len(c.contents) - 1\n", "GUARD|widget.grid_flow.GridFlow.generate_display_widget"),
    Mut("twin-pile-offer-guard-on-focus", "urwid/widget/pile.py", "Pile.keypress", "        if self.selectable():\n            key = self.focus.keypress(size_args[i], key)\n        if self._command_map[key] not in {Command.UP, Command.DOWN}:\n            return key\n", "        if self.focus.selectable():\n            key = self.focus.keypress(size_args[i], key)\n        if self._command_map[key] not in {Command.UP, Command.DOWN}:\n            return key\n", twin=True),
    Mut("pile-restriction-nested-in-selectable", "urwid/widget/pile.py", "Pile.keypress", "            key = self.focus.keypress(size_args[i], key)\n        if self._command_map[key] not in {Command.UP, Command.DOWN}:\n            return key\n", "            key = self.focus.keypress(size_args[i], key)\n            if self._command_map[key] not in {Command.UP, Command.DOWN}:\n                return key\n", "EXHAUST|widget.pile.Pile.keypress"),
    Mut("command-map-copy-shares-dict", "urwid/command_map.py", "CommandMap.copy", "c._command = dict(self._command)", "c.__dict__.update(self.__dict__)", "FRESH|command_map.CommandMap.copy"),
    Mut("twin-command-map-copy-method", "urwid/command_map.py", "CommandMap.copy", "c._command = dict(self._command)", "c._command = self._command.copy()", twin=True),
    Mut("pile-setter-off-by-one", _P, None, "            if position < 0 or position >= len(self.contents):\n                raise IndexError(f\"No Pile child widget at position {position}\")", "            if position < 0 or position > len(self.contents):\n                raise IndexError(f\"No Pile child widget at position {position}\")", "GUARD|"),
    Mut("columns-setter-unvalidated", _C, None, "        try:\n            if position < 0 or position >= len(self.contents):\n                raise IndexError(f\"No Columns child widget at position {position}\")\n        except TypeError as exc:\n            raise IndexError(f\"No Columns child widget at position {position}\").with_traceback(\n                exc.__traceback__\n            ) from exc\n        self.contents.focus = position", "        self.contents.focus = position", "GUARD|"),
    Mut("pile-selectable-not-refreshed", _P, "Pile._contents_modified", "        self._selectable = any(w.selectable() for w, o in self.contents)\n", "", "SIB|"),
    Mut("frame-header-wrong-part", _F, None, "if header is None and self.focus_part == \"header\":", "if header is None and self.focus_part == \"footer\":", "WRITER|widget.frame.Frame.header"),
    Mut("pile-keypress-first-child", _P, "Pile.keypress", "key = self.focus.keypress(size_args[i], key)", "key = self.contents[0][0].keypress(size_args[i], key)", "ROUTE|widget.pile.Pile.keypress"),
    Mut("frame-body-key-without-focus-test", _F, "Frame.keypress", "        if self.focus_part != \"body\":\n            return key\n", "", "ROUTE|widget.frame.Frame.keypress"),
    Mut("columns-keypress-returns-command", _C, "Columns.keypress", "            return key\n\n        if self._command_map[key] == Command.LEFT:", "            return self._command_map[key]\n\n        if self._command_map[key] == Command.LEFT:", "RET|widget.columns.Columns.keypress"),
    Mut("pile-move-cursor-selectable-after", _P, "Pile.move_cursor_to_coords", "        if not w.selectable():\n            return False\n\n        if hasattr(w, \"move_cursor_to_coords\") and w.move_cursor_to_coords(w_size, col, row - wrow) is False:\n            return False\n", "        if hasattr(w, \"move_cursor_to_coords\"):\n            if w.move_cursor_to_coords(w_size, col, row - wrow) is False:\n                return False\n        elif not w.selectable():\n            return False\n", "GUARD|widget.pile.Pile.move_cursor_to_coords"),
    Mut("set-focus-path-descends-first", "urwid/widget/container.py", "WidgetContainerMixin.set_focus_path", "            if p != w.focus_position:\n                w.focus_position = p  # modifies w.focus\n            w = w.focus.base_widget  # type: ignore[assignment]", "            w = w.focus.base_widget  # type: ignore[assignment]\n            if p != w.focus_position:\n                w.focus_position = p  # modifies w.focus", "SIB|widget.container.WidgetContainerMixin.set_focus_path"),
    Mut("frame-contents-keys-unbound", _F, None, "            keys = self._contents_keys\n", "", "ABC|"),
    Mut("gridflow-selectable-delegated", _G, None, "    def selectable(self) -> bool:", "    def _selectable_unused(self) -> bool:", "SIB|"),
    Mut("columns-keypress-no-empty-guard", _C, "Columns.keypress", "        if not self.contents:\n            return key\n\n        widths, _, size_args", "        widths, _, size_args", "GUARD|widget.columns.Columns.keypress"),
    Mut("twin-pile-setter-reordered", _P, None, "if position < 0 or position >= len(self.contents):\n                raise IndexError(f\"No Pile", "if position < 0 or position >= len(self.contents):  # range\n                raise IndexError(f\"No Pile", twin=True),
]
