"""C02 - canvas composition is equivalent to operating on a plain grid of cells."""

from __future__ import annotations

import ast

from ..core import Ctx, RuleResult, finding, short, walk_no_nested
from ..model import AnalysisError, norm
from ..mutants import Mut
from ..rules import accum, alias, loopfresh, canv, dim, fresh, posbound
from ..rules.defuse import DefUse
from ..rules.exc import ExcEngine
from ..rules.util import callee_name, cfg_of, lin_str, linear, node_exprs, nodes_where
from ..tables import CANV_EXCEPTIONS

EXPLANATION = (
    "Decided (necessary structural conditions of C02): (1) GUARD: each mutating method of Canvas / CompositeCanvas tests the finalised flag before its first store, so operand canvases "
    "that are cached are never changed; (2) CANV + FRESHLIST: no caller applies a mutator to a canvas it did not create, and inside canvas.py no in-place list edit touches a shard / cview "
    "list shared with a wrapped canvas - 'the operand canvases are left unchanged'; (3) coordinates travel with content: in trim, pad_trim_left_right, pad_trim_top_bottom, overlay, "
    "CanvasCombine, CanvasJoin and CanvasOverlay the cursor/pop-up coordinates are translated by exactly the offset at which the content is placed - (0, -top), (left, 0), (0, top) "
    "together with the prepended shard, other.translate_coords(left, top), and the running row/column offset that is also recorded for the child and then advanced by that same canvas's "
    "rows()/cols(); (4) DIM inside canvas.py; (6) the delta generators (content_delta) cannot leak StopIteration and their two running cursors advance only by their own stream's extents; (7) attribute remaps compose with "
    ".get(k, default) - a remap to None (a falsy but legitimate attribute) is not lost; (5) CUTATTR: the space that replaces a double-width character cut by a trim takes its attribute from the character just outside the kept "
    "range on that side (spos - 1 on the left, epos on the right), never from a kept neighbour."
    ' Added after seed round 3: (9) ACCUM - running positions of the canvas composition loops (shards_trim_sides, CanvasJoin, CanvasCombine, shards_trim_rows, the rle walkers) advance in every continuing iteration, `continue` paths included; (10) the column-frame rule of calc_trim_text (C11.9).'
    " Round 4: the coords shift of pad_trim_left_right / trim is made under exactly the conditions under which the shards are replaced; (11) LOOPFRESH - per-shard state (content_delta's row memo, new_cviews, the running column) is defined anew for every shard."
    " Round-4 triage: (12) content_delta pairs cviews by screen column - the unchanged marker is produced from column lists computed with the shard tails, and both tails are carried forward for every shard consumed or stepped over; each column list pairs a shard's cviews with the tail of the same canvas. Round 5: (13) the two content-iterator sites of shard_body() pass canv.content() the same arguments."
    ' Round 6: (12c) the shard comparison of shards_delta is reached only under a test ordering the two row counters (row alignment); (14) ALIAS: coords / shortcuts are never shared with the wrapped canvas.'
    ' Round 7: (15) the unchanged test of content_delta compares the canvas and all five leading cview fields; (16) SIB: cview_trim_top / cview_trim_left are mirror images under the axis swap (offset + trim, extent - trim); (17) POSBOUND over canvas.py: the cursor kept after a trim is tested half-open against cols() / rows(); (18) PASS: overlay() tests the covered canvas\' cursor against the covered rectangle and drops it before the overlaid canvas\' coordinates are merged (fix d4fb084).'
    ' Round 8: (19) ORDER: self.<attr> is not read again after its working copy was replaced by a processed value and before the write-back.'
)
NOT_DECIDED = "Cell-for-cell equality with the grid model, the width arithmetic of cutting wide characters, content_delta round trip - statements about values of the shard algebra."
ASSUMPTIONS = []

CV = "urwid.canvas"


def _translate_args(call):
    return [ast.unparse(a) for a in call.args[:2]]


def rule_coords(ctx: Ctx) -> RuleResult:
    p = ctx.p
    rr = RuleResult("PAIR", "C02.3", "cursor / pop-up coordinates are translated by exactly the offset at which the content is placed", floor=7)

    def tcalls(fi):
        return [c for c in fi.own_nodes() if isinstance(c, ast.Call) and isinstance(c.func, ast.Attribute) and c.func.attr == "translate_coords"]

    def expect_method(q, want, why, guard=None, with_stmt=None):
        fi = p.func(q)
        cs = tcalls(fi)
        ident = short(fi)
        rr.inst(ident, True, {"function": ident, "translate_coords": [norm(c, 50) for c in cs], "expected": want})
        if len(cs) != 1:
            rr.add(finding("PAIR", fi, fi.node, f"{len(cs)} translate_coords calls in {fi.name} (exactly one expected): coordinates are shifted twice or not at all", construct=f"{fi.name}: translate_coords count {len(cs)}"))
            return
        c = cs[0]
        got = [lin_str(linear(a)) for a in c.args[:2]]
        exp = [lin_str(linear(ast.parse(w, mode="eval").body)) for w in want]
        if got != exp:
            rr.add(finding("PAIR", fi, c, f"`{norm(c, 50)}` shifts the coordinates by ({', '.join(_translate_args(c))}) but the content moves by ({', '.join(want)}) ({why}): cursor and pop-up positions no longer follow the content", construct=f"{fi.name}: coords shifted by ({', '.join(_translate_args(c))})"))
        if guard is not None:
            cfg = cfg_of(fi)
            cn = nodes_where(cfg, lambda x: x is c)
            tests = [t for t in cfg.nodes if t.kind == "test" and ast.unparse(t.ast) == guard]
            other = nodes_where(cfg, with_stmt) if with_stmt else []
            ok = tests and all(n not in ExcEngine._reach_without_edge(cfg, tests[0], "T") for n in cn)
            if ok and other:
                ok = all(n not in ExcEngine._reach_without_edge(cfg, tests[0], "T") for n in other)
            if not ok:
                rr.add(finding("PAIR", fi, c, f"the coordinate shift and the shard edit of {fi.name} are not both under `{guard}`", construct=f"{fi.name}: shift and edit under different guards"))

    expect_method(f"{CV}.CompositeCanvas.trim", ["0", "-top"], "rows removed from the top")
    expect_method(f"{CV}.CompositeCanvas.pad_trim_left_right", ["left", "0"], "columns added/removed on the left")
    # the shift of pad_trim_left_right / trim is made under exactly the conditions under which the new shards are
    # stored: it covers padding (offset > 0) and trimming (offset < 0) alike
    for q in (f"{CV}.CompositeCanvas.pad_trim_left_right", f"{CV}.CompositeCanvas.trim"):
        fi = p.func(q)
        cfg = cfg_of(fi)
        cs = tcalls(fi)
        stores = [n for n in cfg.nodes if isinstance(n.ast, ast.Assign) and any(isinstance(t, ast.Attribute) and t.attr == "shards" for t in n.ast.targets)]
        if len(cs) != 1 or not stores:
            continue

        def controlling(node):
            out = set()
            for t in cfg.nodes:
                if t.kind != "test":
                    continue
                for lab in ("T", "F"):
                    if node not in ExcEngine._reach_without_edge(cfg, t, lab):
                        out.add((norm(t.ast, 50), lab))
            return out

        cn = nodes_where(cfg, lambda x: x is cs[0])
        want = set.intersection(*[controlling(n) for n in stores])
        got = controlling(cn[0]) if cn else set()
        rr.inst(f"{short(fi)}:shift unconditional", True, {"function": short(fi), "shift_under": sorted(f"{a}={b}" for a, b in got - want)})
        if got - want:
            rr.add(finding("PAIR", fi, cs[0], f"the coordinates are shifted only under {sorted(f'{a} is {b}' for a, b in got - want)} while the shards are replaced regardless: a trim (negative offset) moves the content but leaves cursor and pop-up coordinates where they were", construct=f"{fi.name}: shift conditional, shard edit not"))
    expect_method(
        f"{CV}.CompositeCanvas.pad_trim_top_bottom", ["0", "top"], "rows prepended", guard="top > 0",
        with_stmt=lambda x: isinstance(x, ast.Starred) and ast.unparse(x.value) == "self.shards",
    )
    # overlay: the other canvas' coordinates move to (left, top)
    ov = p.func(f"{CV}.CompositeCanvas.overlay")
    cs = tcalls(ov)
    rr.inst(short(ov), True, {"function": short(ov), "translate_coords": [norm(c, 50) for c in cs]})
    prm = ov.params
    if len(cs) != 1 or ast.unparse(cs[0].func.value) != prm[1] or _translate_args(cs[0]) != [prm[2], prm[3]]:
        rr.add(finding("PAIR", ov, cs[0] if cs else ov.node, f"overlay() must merge `{prm[1]}.translate_coords({prm[2]}, {prm[3]})`: the overlaid canvas' cursor is not moved to where the canvas is placed", construct="overlay: coords of the top canvas"))
    # CanvasCombine / CanvasJoin: running offset
    for q, axis, ext in ((f"{CV}.CanvasCombine", 1, "rows"), (f"{CV}.CanvasJoin", 0, "cols")):
        fi = p.func(q)
        cfg = cfg_of(fi)
        cs = tcalls(fi)
        rr.inst(short(fi), True, {"function": short(fi), "translate_coords": [norm(c, 50) for c in cs]})
        if len(cs) != 1:
            rr.add(finding("PAIR", fi, fi.node, f"{len(cs)} translate_coords calls in {fi.name} (one per child expected)", construct=f"{fi.name}: translate_coords count"))
            continue
        c = cs[0]
        args = _translate_args(c)
        off = args[axis]
        zero = args[1 - axis]
        recv = ast.unparse(c.func.value)
        if zero != "0" or not off.isidentifier():
            rr.add(finding("PAIR", fi, c, f"`{norm(c, 60)}`: children of {fi.name} are placed along one axis only; expected ({'0, <row>' if axis else '<col>, 0'})", construct=f"{fi.name}: coords shift ({', '.join(args)})"))
            continue
        # the same offset is recorded for the child
        # the children list, by role: the local that ends up in `<result>.children = <name>`
        chnames = {n_.value.id for n_ in fi.own_nodes() if isinstance(n_, ast.Assign) and isinstance(n_.value, ast.Name) and any(isinstance(t_, ast.Attribute) and t_.attr == "children" for t_ in n_.targets)}
        ch = [x for x in fi.own_nodes() if isinstance(x, ast.Call) and isinstance(x.func, ast.Attribute) and x.func.attr == "append" and isinstance(x.func.value, ast.Name) and x.func.value.id in chnames and x.args and isinstance(x.args[0], ast.Tuple)]
        if len(ch) != 1:
            raise AnalysisError(f"{fi.name}: children.append((x, y, canvas, pos)) not found")
        t = ch[0].args[0]
        cx, cy, cc = ast.unparse(t.elts[0]), ast.unparse(t.elts[1]), ast.unparse(t.elts[2])
        if [cx, cy][axis] != off or [cx, cy][1 - axis] != "0" or cc != recv:
            rr.add(finding("PAIR", fi, ch[0], f"the child is recorded at ({cx}, {cy}) for `{cc}` but its coordinates are shifted by ({', '.join(args)}) on `{recv}`", construct=f"{fi.name}: child offset vs coords shift"))
        # the offset advances by the same canvas' extent, after both uses, once per iteration
        adv = [n for n in cfg.nodes if isinstance(n.ast, ast.AugAssign) and isinstance(n.ast.op, ast.Add) and isinstance(n.ast.target, ast.Name) and n.ast.target.id == off]
        cn = nodes_where(cfg, lambda x: x is c)
        chn = nodes_where(cfg, lambda x: x is ch[0])
        ok = len(adv) == 1 and ast.unparse(adv[0].ast.value) == f"{recv}.{ext}()" and all(adv[0] in cfg.reachable([n]) for n in cn + chn) and not any(n in cfg.reachable([adv[0]], avoid=[h for h in cfg.nodes if h.kind == "for"]) for n in cn + chn)
        if not ok:
            rr.add(finding("PAIR", fi, adv[0].stmt if adv else fi.node, f"the running offset `{off}` is not advanced exactly once per child by `{recv}.{ext}()` after the child was placed: later children (and their cursors) are placed at the wrong {'row' if axis else 'column'}", construct=f"{fi.name}: running offset {off}"))
    # CanvasOverlay: children offsets = overlay arguments
    co = p.func(f"{CV}.CanvasOverlay")
    ovc = [c for c in co.own_nodes() if isinstance(c, ast.Call) and isinstance(c.func, ast.Attribute) and c.func.attr == "overlay"]
    chs = [n for n in co.own_nodes() if isinstance(n, ast.Assign) and any(isinstance(t, ast.Attribute) and t.attr == "children" for t in n.targets)]
    rr.inst(short(co), True)
    if len(ovc) == 1 and len(chs) == 1 and isinstance(chs[0].value, ast.List) and chs[0].value.elts and isinstance(chs[0].value.elts[0], ast.Tuple):
        a = [ast.unparse(x) for x in ovc[0].args]
        t = [ast.unparse(x) for x in chs[0].value.elts[0].elts[:3]]
        if [t[2], t[0], t[1]] != a[:3]:
            rr.add(finding("PAIR", co, chs[0], f"CanvasOverlay records the top canvas at ({t[0]}, {t[1]}) but overlays it at ({a[1]}, {a[2]})", construct="CanvasOverlay: child offset vs overlay offset"))
    else:
        raise AnalysisError("CanvasOverlay: overlay call / children assignment not found")
    return rr


def rule_cut_attr(ctx: Ctx) -> RuleResult:
    p = ctx.p
    rr = RuleResult("PAIR", "C02.5", "the space replacing a cut double-width character takes the attribute of the character just outside the kept range (spos - 1 / epos)", floor=2)
    fi = p.func("urwid.util.trim_text_attr_cs")
    cfg = cfg_of(fi)
    # names of the kept range: the slice bounds of the returned text
    unpack = [n for n in fi.own_nodes() if isinstance(n, ast.Assign) and isinstance(n.value, ast.Call) and callee_name(n.value) == "calc_trim_text" and isinstance(n.targets[0], ast.Tuple) and len(n.targets[0].elts) == 4]
    if not unpack:
        raise AnalysisError("trim_text_attr_cs: `spos, epos, pad_left, pad_right = calc_trim_text(...)` not found")
    spos, epos, pl, pr = (e.id for e in unpack[0].targets[0].elts)
    for flag, want, side in ((pl, {spos: 1, "": -1}, "left"), (pr, {epos: 1}, "right")):
        tests = [t for t in cfg.nodes if t.kind == "test" and ast.unparse(t.ast) == flag]
        calls = [c for c in fi.own_nodes() if isinstance(c, ast.Call) and callee_name(c) == "rle_get_at" and len(c.args) == 2]
        mine = []
        for c in calls:
            cn = nodes_where(cfg, lambda x, c=c: x is c)
            if tests and all(n not in ExcEngine._reach_without_edge(cfg, tests[0], "T") for n in cn):
                mine.append(c)
        rr.inst(f"{side} pad attribute", True, {"side": side, "lookup": [norm(c, 50) for c in mine], "expected_offset": lin_str(want)})
        if len(mine) != 1:
            rr.add(finding("PAIR", fi, fi.node, f"under `if {flag}:` there are {len(mine)} attribute lookups (one expected)", construct=f"{side} pad: lookup count"))
            continue
        got = linear(mine[0].args[1])
        if got != want:
            rr.add(finding("PAIR", fi, mine[0], f"the {side} replacement space takes its attribute from offset `{ast.unparse(mine[0].args[1])}`; the cut character is the one just outside the kept range [{spos}:{epos}] ({lin_str(want)}), so the space gets the attribute of a kept neighbour (or none) instead of the cut character's", construct=f"{side} pad attribute from {ast.unparse(mine[0].args[1])}"))
    return rr


_OWN_EXEMPT = {"shards": "CompositeCanvas(canv) shares canv.shards on purpose; every in-place edit is preceded by a copy - decided path by path by FRESHLIST (C06.2c / C02 fresh)"}


def rule_delta(ctx: Ctx) -> RuleResult:
    """The delta generators walk the old canvas with an iterator next to the new one."""
    p = ctx.p
    rr = RuleResult("GENSTOP", "C02.6", "the delta generators never let StopIteration escape (next() with a default or handled), and each running cursor advances only by the extent of its own stream's element", floor=4)
    for q in (f"{CV}.shards_delta", f"{CV}.shard_cviews_delta"):
        fi = p.func(q)
        if not any(isinstance(n, (ast.Yield, ast.YieldFrom)) for n in fi.own_nodes()):
            raise AnalysisError(f"{q} is no longer a generator")
        handled = set()
        for t in ast.walk(fi.node):
            if isinstance(t, ast.Try) and any(h.type is None or "StopIteration" in ast.unparse(h.type) or "Exception" in ast.unparse(h.type) for h in t.handlers):
                for b in t.body:
                    handled |= {id(x) for x in ast.walk(b)}
        for c in fi.own_nodes():
            if isinstance(c, ast.Call) and isinstance(c.func, ast.Name) and c.func.id == "next":
                rr.inst(f"{short(fi)}:{norm(c, 40)}@{c.lineno - fi.node.lineno}", True, {"function": short(fi), "call": norm(c, 50), "has_default": len(c.args) > 1})
                if len(c.args) < 2 and id(c) not in handled:
                    rr.add(finding("GENSTOP", fi, c, f"`{norm(c, 40)}` inside the generator {fi.name}() has no default: when the old canvas runs out of shards / cviews first, StopIteration becomes RuntimeError('generator raised StopIteration') out of content_delta()", construct=f"bare {norm(c, 40)} in generator"))
        # running cursors, by role: integer locals that start at 0 and are advanced with `+=` by a stream element's
        # extent.  Each cursor has exactly one extent variable (its own stream's), no two cursors share one, and no
        # cursor is ever assigned anything but its start value 0
        augs = [n for n in fi.own_nodes() if isinstance(n, ast.AugAssign) and isinstance(n.target, ast.Name) and isinstance(n.op, ast.Add)]
        cursors = {n.target.id for n in augs}
        extents = {}
        for n in augs:
            rr.inst(f"{short(fi)}:{norm(n, 40)}", True)
            extents.setdefault(n.target.id, set()).add(ast.unparse(n.value))
        for c_, ex in sorted(extents.items()):
            if len(ex) > 1:
                n = next(a for a in augs if a.target.id == c_)
                rr.add(finding("GENSTOP", fi, n, f"the cursor `{c_}` is advanced by different quantities ({sorted(ex)}): it may only advance by the extent of its own stream's current element, otherwise the two cursors drift and a re-used canvas at a different position is reported as unchanged", construct=f"cursor {c_} advanced by {sorted(ex)}"))
        shared = [e for e in {x for ex in extents.values() for x in ex} if sum(1 for ex in extents.values() if e in ex) > 1]
        for e in shared:
            n = next(a for a in augs if ast.unparse(a.value) == e)
            rr.add(finding("GENSTOP", fi, n, f"two cursors are advanced by the same quantity `{e}`: each cursor has its own stream", construct=f"cursors share the extent {e}"))
        for n in fi.own_nodes():
            if isinstance(n, ast.Assign) and any(isinstance(t, ast.Name) and t.id in cursors for t in n.targets):
                rr.inst(f"{short(fi)}:{norm(n, 40)}", True)
                if not (isinstance(n.value, ast.Constant) and n.value.value == 0):
                    c_ = next(t.id for t in n.targets if isinstance(t, ast.Name) and t.id in cursors)
                    rr.add(finding("GENSTOP", fi, n, f"`{norm(n, 50)}`: the cursor `{c_}` may only start at 0 and advance by the extent of its own stream's current element; any other update lets the two cursors drift, and a re-used canvas at a different position is reported as unchanged", construct=f"cursor {c_} updated by {norm(n, 40)}"))
    return rr


def rule_delta_columns(ctx: Ctx) -> RuleResult:
    """A shard lists only the cviews that *start* in it; taller cviews of earlier shards (the shard tail) take up
    columns in between.  Marking a cview of the new canvas "unchanged" (canv = None) is right only if the old canvas
    shows the same view of the same canvas in the same *screen column* - so the pairing has to know the tails:
    (a) every call of the function that produces the unchanged marker passes, for each of the two canvases, a column
        list computed by a tail-aware function (one that walks a shard tail, i.e. loops over a parameter unpacking
        (col_gap, done_rows, content_iter, cview));
    (b) the tails handed to it are carried forward with shard_body_tail() for every shard consumed - in the loop over
        the new canvas's shards and wherever a shard of the old canvas is stepped over."""
    p = ctx.p
    rr = RuleResult("PAIR", "C02.12", "content_delta pairs cviews of the two canvases by screen column: the unchanged marker is produced from column lists computed with the shard tails, which are advanced for every shard consumed", floor=3)
    mod = p.modules[CV]
    funcs = [f for f in mod.functions if f.cls is None]
    markers = [f for f in funcs if any(isinstance(n, ast.BinOp) and isinstance(n.op, ast.Add) and any(isinstance(x, ast.Tuple) and len(x.elts) == 1 and isinstance(x.elts[0], ast.Constant) and x.elts[0].value is None for x in (n.left, n.right)) for n in f.own_nodes()) and any(isinstance(n, ast.Yield) for n in f.own_nodes())]
    tail_aware = {f.name for f in funcs if any(isinstance(n, ast.For) and isinstance(n.iter, ast.Name) and n.iter.id in f.params and isinstance(n.target, ast.Tuple) and len(n.target.elts) == 4 for n in f.own_nodes())}
    if not markers or not tail_aware:
        raise AnalysisError("canvas.py: the unchanged-marker generator / a tail-walking helper was not found")
    for m in markers:
        for c_fi in funcs:
            for call in [c for c in c_fi.own_nodes() if isinstance(c, ast.Call) and isinstance(c.func, ast.Name) and c.func.id == m.name]:
                col_args = [a for a in [*call.args, *[k.value for k in call.keywords]] if isinstance(a, ast.Call) and isinstance(a.func, ast.Name) and a.func.id in tail_aware]
                rr.inst(f"{short(c_fi)}: {norm(call, 40)}", True, {"caller": short(c_fi), "call": norm(call, 90), "tail_aware_column_arguments": [norm(a, 50) for a in col_args]})
                if len(col_args) < 2:
                    rr.add(finding("PAIR", c_fi, call, f"`{norm(call, 60)}` pairs the cviews two shards list by their offset within the lists: the cviews of earlier shards that are still running (the shard tails) shift the listed ones to other screen columns, so a leaf canvas that moved sideways is marked unchanged and the delta applied to the old rows does not reproduce the new content", construct=f"{m.name} called without tail-aware columns"))
                    continue
                # each column list is computed from a shard's cviews and the tail of the *same* canvas: the tail
                # variable Y paired with cviews X is the one advanced by `Y = shard_body_tail(.., shard_body(X, Y, ..))`
                for a in col_args:
                    if len(a.args) >= 2 and isinstance(a.args[0], ast.Name) and isinstance(a.args[1], ast.Name):
                        X, Y = a.args[0].id, a.args[1].id
                        same = any(isinstance(n, ast.Assign) and any(isinstance(t, ast.Name) and t.id == Y for t in n.targets) and isinstance(n.value, ast.Call) and callee_name(n.value) == "shard_body_tail" and any(isinstance(b, ast.Call) and callee_name(b) == "shard_body" and len(b.args) >= 2 and isinstance(b.args[0], ast.Name) and b.args[0].id == X and isinstance(b.args[1], ast.Name) and b.args[1].id == Y for b in ast.walk(n.value)) for n in c_fi.own_nodes())
                        rr.inst(f"{short(c_fi)}: {norm(a, 50)}", True, {"column_computation": norm(a, 60), "tail_belongs_to_the_same_canvas": same})
                        if not same:
                            rr.add(finding("PAIR", c_fi, a, f"`{norm(a, 60)}` computes the columns of `{X}` with the tail `{Y}`, which is carried forward from another shard stream (no `{Y} = shard_body_tail(.., shard_body({X}, {Y}, ..))`): when the two canvases have different tall cviews running, the old canvas's cviews get the new canvas's offsets and a leaf that moved sideways is marked unchanged", construct=f"columns of {X} computed with the other canvas's tail {Y}"))
                # (c) the two shards compared start on the same *row*: the comparison is reached only on the side of a
                # test that orders the two row counters (the locals advanced by `+= <rows of a shard>`) such that the
                # old canvas is not ahead - together with the catch-up loop (old canvas not behind) that is alignment
                from ..rules.exc import ExcEngine as _EE
                from ..rules.runpos import _atoms as _at

                counters = sorted({n.target.id for n in c_fi.own_nodes() if isinstance(n, ast.AugAssign) and isinstance(n.op, ast.Add) and isinstance(n.target, ast.Name) and isinstance(n.value, ast.Name) and "rows" in n.value.id})
                ccfg = cfg_of(c_fi)
                cnode = next((x for x in ccfg.nodes if any(y is call for e in node_exprs(x) for y in ast.walk(e))), None)
                if len(counters) == 2 and cnode is not None:
                    facts = []
                    for t in ccfg.nodes:
                        if t.kind != "test" or isinstance(t.stmt, ast.While):
                            continue
                        for lab, truth in (("T", True), ("F", False)):
                            if cnode not in _EE._reach_without_edge(ccfg, t, lab):
                                facts += _at(t.ast, truth)
                    aligned = any(set(e) == set(counters) and sorted(e.values()) == [-1, 1] and o in ("<=", ">=", "==") for e, o in facts)
                    rr.inst(f"{short(c_fi)}: row alignment of {norm(call, 30)}", True, {"row_counters": counters, "ordering_facts_at_the_comparison": [f"{e} {o} 0" for e, o in facts if set(e) <= set(counters)], "aligned": aligned})
                    if not aligned:
                        rr.add(finding("PAIR", c_fi, call, f"`{norm(call, 50)}` compares a shard of the new canvas with a shard of the old one without any test on the way that orders the row counters `{counters[0]}` / `{counters[1]}`: the catch-up loop only makes sure the old canvas is not *behind*; when its next shard starts on a later row (content scrolled by one row, same leaf canvas object) the same view in the same column is marked unchanged although it sits on another row", construct="shards compared without row alignment test"))
                elif cnode is not None and c_fi.name == "shards_delta":
                    raise AnalysisError(f"shards_delta: expected two row counters advanced by `+= <..rows..>`, found {counters}")
                # (b) the tails are carried forward
                tails = []
                for a in col_args:
                    tails += [x.id for x in a.args[1:] if isinstance(x, ast.Name)]
                for tv in tails:
                    stores = [n for n in c_fi.own_nodes() if isinstance(n, ast.Assign) and any(isinstance(t, ast.Name) and t.id == tv for t in n.targets)]
                    adv = [n for n in stores if isinstance(n.value, ast.Call) and callee_name(n.value) == "shard_body_tail"]
                    loops = [n for n in c_fi.own_nodes() if isinstance(n, (ast.For, ast.While))]
                    in_loops = [lp for lp in loops if any(a_ in list(ast.walk(lp)) for a_ in adv)]
                    rr.inst(f"{short(c_fi)}: tail {tv}", True, {"tail": tv, "advanced_by": [norm(n, 70) for n in adv], "in_loops": [norm(lp, 40) for lp in in_loops]})
                    if not adv or not in_loops:
                        rr.add(finding("PAIR", c_fi, call, f"the shard tail `{tv}` handed to the column computation is never carried forward with shard_body_tail() inside the shard loop: from the second shard on the columns are computed as if nothing were running above", construct=f"tail {tv} not advanced"))
                # every place that steps over a shard of the old canvas inside an inner loop advances its tail too
                for w in [n for n in c_fi.own_nodes() if isinstance(n, ast.While)]:
                    nexts = [x for x in ast.walk(w) if isinstance(x, ast.Call) and isinstance(x.func, ast.Name) and x.func.id == "next"]
                    if not nexts:
                        continue
                    upd = [x for x in ast.walk(w) if isinstance(x, ast.Assign) and isinstance(x.value, ast.Call) and callee_name(x.value) == "shard_body_tail"]
                    rr.inst(f"{short(c_fi)}: skip loop", True, {"loop": norm(w, 60), "tail_updates": len(upd)})
                    if not upd:
                        rr.add(finding("PAIR", c_fi, w, f"`{norm(w, 60)}` steps over shards of the old canvas without carrying their unfinished cviews into the tail: after a skipped shard the old canvas's columns are computed without the cviews still running there", construct="old canvas's shards skipped without tail update"))
    return rr


def rule_delta_fields(ctx: Ctx) -> RuleResult:
    """A cview is (trim_left, trim_top, cols, rows, attr_map, canvas): everything but the canvas object decides what
    the cview shows - the attribute map (set by fill_attr_apply) just as much as the trims.  The test that marks a
    cview "unchanged" compares the canvas by identity and the *five* leading fields: a slice comparison `cv[:k] ==
    other[:k]` with k >= 5.  With k == 4 a re-mapped attribute (same leaf canvas, other colours) is skipped by the
    delta and the old colours stay on screen."""
    p = ctx.p
    rr = RuleResult("PAIR", "C02.15", "the unchanged test of content_delta compares the canvas object and all five leading cview fields (incl. the attribute map)", floor=1)
    mod = p.modules[CV]
    for fi in [f for f in mod.functions if f.cls is None]:
        for t in [n for n in fi.own_nodes() if isinstance(n, ast.If) and any(isinstance(c, ast.Compare) and isinstance(c.ops[0], ast.Is) and not isinstance(c.comparators[0], ast.Constant) for c in ast.walk(n.test))]:
            slices = [c for c in ast.walk(t.test) if isinstance(c, ast.Compare) and isinstance(c.ops[0], ast.Eq) and isinstance(c.left, ast.Subscript) and isinstance(c.left.slice, ast.Slice)]
            if not slices:
                continue
            for c in slices:
                up = c.left.slice.upper
                k = up.value if isinstance(up, ast.Constant) else None
                same = ast.unparse(c.left.slice) == ast.unparse(c.comparators[0].slice) if isinstance(c.comparators[0], ast.Subscript) else False
                rr.inst(f"{short(fi)}: {norm(c, 40)}", True, {"test": norm(t.test, 90), "fields_compared": k})
                if k is None or k < 5 or not same or c.left.slice.lower is not None:
                    rr.add(finding("PAIR", fi, c, f"`{norm(c, 50)}` compares the first {k} cview fields: a cview is (trim_left, trim_top, cols, rows, attr_map, canvas), and the attribute map (field 4) decides what is shown as much as the trims - a view whose attributes were re-mapped is marked unchanged and keeps its old colours on screen", construct="unchanged test ignores a cview field"))
    return rr


def rule_trim_mirror(ctx: Ctx, clause="C02.16") -> RuleResult:
    """cview_trim_top and cview_trim_left cut a cview at the top / on the left: the offset into the underlying canvas
    *grows* by the trim (a cview that was trimmed before keeps that offset) and the extent shrinks by it.  The two are
    mirror images under the axis swap (trim_left <-> trim_top, cols <-> rows): after swapping the field indices 0 <-> 1
    and 2 <-> 3 in one of them, both return the same four leading fields.  A top trim that *sets* the offset shows the
    wrong rows for every view that was already trimmed (a scrolled Scrollable inside a Scrollable)."""
    p = ctx.p
    rr = RuleResult("SIB", clause, "cview_trim_top and cview_trim_left are mirror images: the offset grows by the trim, the extent shrinks by it", floor=2)
    top, left = p.func(f"{CV}.cview_trim_top"), p.func(f"{CV}.cview_trim_left")

    def fields(fi):
        """canonical text of the four leading fields of the returned tuple, fields as f0..f3, trim parameter as T"""
        prm, trim = fi.params[0], fi.params[1]
        ret = next((n.value for n in fi.own_nodes() if isinstance(n, ast.Return)), None)
        parts, work = [], [ret]
        while work:
            x = work.pop(0)
            if isinstance(x, ast.BinOp) and isinstance(x.op, ast.Add) and (isinstance(x.left, (ast.Tuple, ast.Subscript, ast.BinOp)) and isinstance(x.right, (ast.Tuple, ast.Subscript))):
                work = [x.left, x.right, *work]
            else:
                parts.append(x)
        out = []
        for x in parts:
            if isinstance(x, ast.Tuple):
                out += list(x.elts)
            elif isinstance(x, ast.Subscript) and isinstance(x.slice, ast.Slice):
                lo = x.slice.lower.value if isinstance(x.slice.lower, ast.Constant) else 0
                hi = x.slice.upper.value if isinstance(x.slice.upper, ast.Constant) else 6
                out += [ast.Subscript(value=ast.Name(id=prm, ctx=ast.Load()), slice=ast.Constant(value=i), ctx=ast.Load()) for i in range(lo, hi)]
        from ..rules.util import lin_str, linear

        res = []
        for e in out[:4]:
            d = linear(e)
            if d is None:
                res.append(ast.unparse(e))
                continue
            d2 = {}
            for k, v in d.items():
                k2 = k.replace(f"{prm}[", "f[").replace(trim, "T") if k else k
                d2[k2] = v
            res.append(lin_str(d2))
        return res

    ft, fl = fields(top), fields(left)
    swap = {"f[0]": "f[1]", "f[1]": "f[0]", "f[2]": "f[3]", "f[3]": "f[2]"}

    def mirrored(fs):
        import re as _re

        sw = [_re.sub(r"f\[[0-3]\]", lambda m: swap[m.group(0)], x) for x in fs]
        return [sw[1], sw[0], sw[3], sw[2]]

    rr.inst("cview_trim_top", True, {"fields": ft})
    rr.inst("cview_trim_left", True, {"fields": fl})
    if mirrored(fl) != ft:
        # say which one deviates from "offset + trim, extent - trim"
        want_top = ["+1*f[0]", "+1*T +1*f[1]", "+1*f[2]", "-1*T +1*f[3]"]
        bad = top if sorted(ft) != sorted(want_top) else left
        rr.add(finding("SIB", bad, bad.node, f"cview_trim_top returns {ft} and cview_trim_left {fl}: they are not mirror images under the axis swap - one of them does not *add* the trim to the offset the cview already has (or does not take it off the extent): a view that was trimmed before shows other rows / columns than the ones it should after a second trim", construct="cview trims are not mirror images"))
    return rr


def rule_shard_body_sites(ctx: Ctx) -> RuleResult:
    """shard_body() creates the content iterator of a new cview at two places - inside the gap loop (cviews to the left
    of a cview running down from the shard above) and in the trailing loop.  Both are the same operation on the same
    unpacked cview fields and must pass the same arguments to canv.content(): a site that leaves out attr_map renders
    those cviews without the attribute mapping fill_attr_apply() recorded for them."""
    p = ctx.p
    rr = RuleResult("SIB", "C02.13", "the two content-iterator sites of shard_body() pass canv.content() the same arguments", floor=2)
    fi = p.func(f"{CV}.shard_body")
    calls = [c for c in fi.own_nodes() if isinstance(c, ast.Call) and isinstance(c.func, ast.Attribute) and c.func.attr == "content"]
    if len(calls) < 2:
        raise AnalysisError("shard_body: expected two canv.content(...) call sites")
    sigs = {}
    for c in calls:
        sig = (tuple(ast.unparse(a) for a in c.args), tuple(sorted((k.arg, ast.unparse(k.value)) for k in c.keywords)))
        sigs.setdefault(sig, []).append(c)
        rr.inst(f"site line +{c.lineno - fi.node.lineno}", True, {"call": norm(c, 80)})
    if len(sigs) > 1:
        ref = max(sigs, key=lambda k: len(k[0]) + len(k[1]))
        for sig, cs in sigs.items():
            if sig != ref:
                rr.add(finding("SIB", fi, cs[0], f"`{norm(cs[0], 70)}` passes other arguments than the sibling site `{norm(sigs[ref][0], 70)}`: cviews that sit to the left of a cview carried over from the shard above are rendered without the missing argument (the attribute mapping set by fill_attr_apply is ignored for them)", construct=f"content() sites disagree: {norm(cs[0], 70)}"))
    return rr


def rule_get_or(ctx: Ctx) -> RuleResult:
    """Attribute values may be falsy (None is the default attribute, '' and 0 are hashable names): a mapping lookup
    with a fallback must be `.get(k, default)`, never `.get(k) or default`."""
    p = ctx.p
    rr = RuleResult("TRUTHY", "C02.7", "attribute mappings are looked up with .get(k, default), never `.get(k) or default` (None is a legitimate attribute)", floor=1)
    for q in (f"{CV}.CompositeCanvas.fill_attr_apply", "urwid.widget.attr_map.AttrMap.render", "urwid.widget.attr_map.AttrMap.set_attr_map", "urwid.widget.attr_map.AttrMap.set_focus_map"):
        fi = p.func(q)
        gets = [c for c in fi.own_nodes() if isinstance(c, ast.Call) and isinstance(c.func, ast.Attribute) and c.func.attr == "get"]
        rr.inst(short(fi), True, {"function": short(fi), "lookups": [norm(g, 40) for g in gets]} if len(rr.samples) < 4 else None)
        for n in fi.own_nodes():
            if isinstance(n, ast.BoolOp) and isinstance(n.op, ast.Or) and isinstance(n.values[0], ast.Call) and isinstance(n.values[0].func, ast.Attribute) and n.values[0].func.attr == "get" and len(n.values[0].args) == 1:
                rr.add(finding("TRUTHY", fi, n, f"`{norm(n, 60)}` falls back whenever the mapped attribute is falsy; mapping an attribute to None (back to the default) is legitimate, so the outer mapping's target is dropped and the inner attribute shows through", construct=f".get() or default: {norm(n, 60)}"))
    return rr


def _trim_frame(ctx: Ctx):
    """overlay / side trims cut text lines with calc_trim_text: its column-frame rule is a necessary condition here"""
    from . import c11

    return c11.rule_trim_frame(ctx, "C02.10")


def rule_overlay_covers_cursor(ctx: Ctx) -> RuleResult:
    """'cursor and pop-up coordinates move with the content they belong to': overlay() replaces the cells of a
    rectangle of this canvas by the other canvas' cells, so a cursor that belonged to a replaced cell goes with it.
    Every path to the merge of the other canvas' coordinates (`self.coords.update(...)`) passes a test of this
    canvas' cursor that names both offset parameters (the covered rectangle), and the true branch of that test
    deletes the cursor.  Before fix d4fb084 the bottom cursor stayed: an Edit below an Overlay whose top widget has
    no cursor showed the terminal cursor in the middle of the top widget."""
    p = ctx.p
    rr = RuleResult("PASS", "C02.18", "CompositeCanvas.overlay() tests this canvas' cursor against the covered rectangle and drops it before it merges the overlaid canvas' coordinates", floor=1)
    fi = p.func(f"{CV}.CompositeCanvas.overlay")
    cfg = cfg_of(fi)
    if len(fi.params) < 4:
        raise AnalysisError("CompositeCanvas.overlay: (self, other, left, top) expected")
    px, py = fi.params[2], fi.params[3]
    merges = nodes_where(cfg, lambda x: isinstance(x, ast.Call) and isinstance(x.func, ast.Attribute) and x.func.attr == "update" and isinstance(x.func.value, ast.Attribute) and x.func.value.attr == "coords")
    if not merges:
        raise AnalysisError("CompositeCanvas.overlay: the merge of the overlaid canvas' coordinates (self.coords.update) was not found")

    def is_drop(n):
        if isinstance(n.ast, ast.Delete):
            return any(isinstance(t, ast.Subscript) and isinstance(t.value, ast.Attribute) and t.value.attr == "coords" and isinstance(t.slice, ast.Constant) and t.slice.value == "cursor" for t in n.ast.targets)
        return any(isinstance(x, ast.Call) and isinstance(x.func, ast.Attribute) and x.func.attr == "pop" and isinstance(x.func.value, ast.Attribute) and x.func.value.attr == "coords" and x.args and isinstance(x.args[0], ast.Constant) and x.args[0].value == "cursor" for e in node_exprs(n) for x in walk_no_nested(e))

    drops = [n for n in cfg.nodes if is_drop(n)]
    tests = []
    for t in cfg.nodes:
        if t.kind != "test":
            continue
        names = {x.id for x in ast.walk(t.ast) if isinstance(x, ast.Name)}
        if {px, py} <= names and any(d not in ExcEngine._reach_without_edge(cfg, t, "T") for d in drops):
            tests.append(t)
    ok = bool(tests) and all(cfg.dominated(m, tests) for m in merges)
    rr.inst("CompositeCanvas.overlay", True, {"merge": norm(merges[0].stmt, 60), "cursor_drops": len(drops), "rectangle_tests": [norm(t.ast, 80) for t in tests], "test_before_every_merge": ok})
    if not ok:
        rr.add(finding("PASS", fi, merges[0].stmt, f"overlay() merges the overlaid canvas' coordinates (`{norm(merges[0].stmt, 50)}`) without first testing this canvas' cursor against the covered rectangle ({px}, {py}, width, height) and dropping it: a cursor of the canvas below stays although its cell now shows the other canvas - the terminal cursor is drawn on top of the overlaid content", construct="overlay keeps a covered cursor"))
    return rr


def rule_working_copy(ctx: Ctx) -> RuleResult:
    """The in-place operations of CompositeCanvas work on a local: `shards = self.shards`, the local is replaced by the
    trimmed list, pieces are taken from it, and the result is stored back into the attribute.  Once the local has
    been replaced, the attribute still holds the *unprocessed* value: reading `self.<attr>` again before the
    write-back mixes the two states (seed C02-r8a: pad_trim_left_right took the first shard from self.shards - for a
    trim on one side and a pad on the other the trim of that shard was lost, the rows came out ragged).  For every
    local initialised from a self attribute and redefined later: no read of that attribute is reachable from the
    redefinition without passing a store to the attribute."""
    p = ctx.p
    rr = RuleResult("ORDER", "C02.19", "after a working copy of self.<attr> was replaced by a processed value, the attribute is not read again before it is stored", floor=2)
    for fi in p.functions.values():
        if fi.module.name != CV or fi.is_lambda or not fi.self_name:
            continue
        inits = [n for n in fi.own_nodes() if isinstance(n, ast.Assign) and len(n.targets) == 1 and isinstance(n.targets[0], ast.Name) and isinstance(n.value, ast.Attribute) and isinstance(n.value.value, ast.Name) and n.value.value.id == fi.self_name]
        if not inits:
            continue
        du = DefUse(fi)
        cfg = du.cfg
        for init in inits:
            local, attr = init.targets[0].id, init.value.attr
            redefs = [dn for dn, v, how in du.defs.get(local, []) if dn.ast is not init]
            if not redefs:
                continue
            stores = nodes_where(cfg, lambda x: isinstance(x, ast.Attribute) and isinstance(x.ctx, ast.Store) and x.attr == attr and isinstance(x.value, ast.Name) and x.value.id == fi.self_name)
            after = cfg.reachable(redefs, avoid=stores, labels=("n", "T", "F"))
            rr.inst(f"{short(fi)}: {local} = self.{attr}", True, {"function": short(fi), "working_copy": f"{local} = self.{attr}", "redefinitions": len(redefs)})
            for n in after:
                if n in redefs and not any(n in cfg.reachable([r], avoid=stores, labels=("n", "T", "F")) - {r} for r in redefs):
                    continue
                for e in node_exprs(n):
                    for x in walk_no_nested(e):
                        if isinstance(x, ast.Attribute) and isinstance(x.ctx, ast.Load) and x.attr == attr and isinstance(x.value, ast.Name) and x.value.id == fi.self_name:
                            # `<saved> is self.<attr>` identity tests compare, they do not take data from the attribute
                            rr.add(finding("ORDER", fi, x, f"`self.{attr}` is read in `{norm(n.stmt if hasattr(n, 'stmt') and n.stmt is not None else e, 60)}` after the working copy `{local}` was replaced by a processed value and before the result is stored: the attribute still holds the unprocessed {attr} - pieces of both states end up in one canvas (rows of different width, a trim that is silently lost)", construct=f"{fi.name}: self.{attr} read after {local} was replaced"))
    return rr


def run(ctx: Ctx):
    p = ctx.p
    return [
        canv.run_guard(p, "C02.1", floor=9),
        canv.run_canv(p, "C02.2a", floor=35, exceptions=CANV_EXCEPTIONS),
        fresh.run_fresh(p, "C02.2b", [CV], floor=30),
        rule_coords(ctx),
        dim.run_dim(p, "C02.4", [CV], floor=20, exceptions={}, description="no cols/rows confusion inside canvas.py"),
        rule_cut_attr(ctx),
        rule_delta(ctx),
        rule_delta_columns(ctx),
        rule_shard_body_sites(ctx),
        rule_delta_fields(ctx),
        rule_trim_mirror(ctx),
        posbound.run_posbound(p, "C02.17", [CV], floor=2),
        rule_overlay_covers_cursor(ctx),
        rule_working_copy(ctx),
        alias.run_inplace_own(p, "C02.14", [CV], floor=6, exempt=_OWN_EXEMPT),
        rule_get_or(ctx),
        accum.run_accum(p, "C02.9", "C02", floor=5),
        _trim_frame(ctx),
        loopfresh.run_loopfresh(p, "C02.11", "C02", floor=6),
    ]


_C = "urwid/canvas.py"
MUTANTS = [
    Mut("overlay-keeps-covered-cursor", "urwid/canvas.py", "CompositeCanvas.overlay", "            del self.coords[\"cursor\"]\n", "            pass\n", "PASS|canvas.CompositeCanvas.overlay|overlay keeps a covered cursor"),
    Mut("overlay-covered-cursor-row-only", "urwid/canvas.py", "CompositeCanvas.overlay", "if cursor is not None and left <= cursor[0] < left + width and top <= cursor[1] < top + height:", "if cursor is not None and top <= cursor[1] < top + height:", "PASS|canvas.CompositeCanvas.overlay|overlay keeps a covered cursor"),
    Mut("twin-overlay-covered-cursor-pop", "urwid/canvas.py", "CompositeCanvas.overlay", "            del self.coords[\"cursor\"]\n", "            self.coords.pop(\"cursor\")\n", twin=True),
    Mut("delta-ignores-attribute-map", "urwid/canvas.py", "shard_cviews_delta", "cv[:5] == other_cv[:5]", "cv[:4] == other_cv[:4]", "PAIR|canvas.shard_cviews_delta|unchanged test ignores a cview field"),
    Mut("trim-top-sets-offset", "urwid/canvas.py", "cview_trim_top", "    return (cv[0], trim + cv[1], cv[2], cv[3] - trim) + cv[4:]", "    return (cv[0], trim, cv[2], cv[3] - trim) + cv[4:]", "SIB|canvas.cview_trim_top|cview trims are not mirror images"),
    Mut("twin-trim-top-operands-swapped", "urwid/canvas.py", "cview_trim_top", "    return (cv[0], trim + cv[1], cv[2], cv[3] - trim) + cv[4:]", "    return (cv[0], cv[1] + trim, cv[2], cv[3] - trim) + cv[4:]", twin=True),
    Mut("dropped-cursor-bound-closed", "urwid/canvas.py", "CompositeCanvas._drop_trimmed_cursor", "0 <= cursor[0] < self.cols()", "0 <= cursor[0] <= self.cols()", "POSBOUND|canvas.CompositeCanvas._drop_trimmed_cursor"),
    Mut("composite-shares-coords-dict", "urwid/canvas.py", "CompositeCanvas.__init__", "            self.coords.update(canv.coords)", "            self.coords = canv.coords", "ALIAS|canvas.CompositeCanvas.__init__|self.coords shares a foreign object that is edited in place"),
    Mut("twin-composite-copies-coords-dict", "urwid/canvas.py", "CompositeCanvas.__init__", "            self.coords.update(canv.coords)", "            self.coords = dict(canv.coords)", twin=True),
    Mut("delta-compares-unaligned-shards", "urwid/canvas.py", "shards_delta", "        if other_num_rows is None or other_done > done:", "        if other_num_rows is None:", "PAIR|canvas.shards_delta|shards compared without row alignment test"),
    Mut("twin-delta-alignment-as-equality", "urwid/canvas.py", "shards_delta", "        if other_num_rows is None or other_done > done:", "        if other_num_rows is None or other_done != done:", twin=True),
    Mut("shard-body-gap-site-drops-attr-map", _C, "shard_body", "                new_iter = canv.content(trim_left, trim_top, cols, rows, attr_map)\n            else:\n                new_iter = iter_default\n            body.append((0, new_iter, cview))\n        body.append((done_rows, content_iter, tail_cview))", "                new_iter = canv.content(trim_left, trim_top, cols, rows)\n            else:\n                new_iter = iter_default\n            body.append((0, new_iter, cview))\n        body.append((done_rows, content_iter, tail_cview))", "SIB|canvas.shard_body"),
    Mut("delta-old-columns-with-new-tail", _C, "shards_delta", "shard_cview_columns(other_cviews, other_tail)", "shard_cview_columns(other_cviews, shard_tail)", "PAIR|canvas.shards_delta|columns of other_cviews"),
    Mut("left-trim-keeps-coords", _C, "CompositeCanvas.pad_trim_left_right", "                new_top_cviews = [(0, 0, left, rows, None, blank_canvas), *top_cviews]\n", "                new_top_cviews = [(0, 0, left, rows, None, blank_canvas), *top_cviews]\n                self.coords = self.translate_coords(left, 0)\n", "PAIR|canvas.CompositeCanvas.pad_trim_left_right", also=[("\n        self.coords = self.translate_coords(left, 0)\n        self.shards = shards\n", "\n        self.shards = shards\n")]),
    Mut("delta-row-memo-hoisted", _C, "CompositeCanvas.content_delta", "        for num_rows, cviews in shards_delta(self.shards, other.shards):\n            # combine shard and shard tail\n            sbody = shard_body(cviews, shard_tail)\n\n            # output rows\n            row = []\n", "        row = []\n        for num_rows, cviews in shards_delta(self.shards, other.shards):\n            # combine shard and shard tail\n            sbody = shard_body(cviews, shard_tail)\n\n            # output rows\n", "LOOPFRESH|canvas.CompositeCanvas.content_delta"),
    Mut("trim-sides-col-not-reset", _C, "shards_trim_sides", "        new_cviews = []\n        col = 0\n        for done_rows, _content_iter, cv in sbody:", "        new_cviews = []\n        for done_rows, _content_iter, cv in sbody:", "LOOPFRESH|canvas.shards_trim_sides", error_ok=True),
    Mut("trim-sides-skip-without-advance", _C, "shards_trim_sides", "            if done_rows or next_col <= left or col >= right:\n                col = next_col\n                continue", "            if done_rows:\n                continue\n            if next_col <= left or col >= right:\n                col = next_col\n                continue", "ACCUM|canvas.shards_trim_sides"),
    Mut("twin-trim-sides-skip-split", _C, "shards_trim_sides", "            if done_rows or next_col <= left or col >= right:\n                col = next_col\n                continue", "            if done_rows:\n                col = next_col\n                continue\n            if next_col <= left or col >= right:\n                col = next_col\n                continue", twin=True),
    Mut("trim-coords-wrong-sign", _C, "CompositeCanvas.trim", "self.coords = self.translate_coords(0, -top)", "self.coords = self.translate_coords(0, top)", "PAIR|canvas.CompositeCanvas.trim"),
    Mut("pad-lr-coords-by-right", _C, "CompositeCanvas.pad_trim_left_right", "self.coords = self.translate_coords(left, 0)", "self.coords = self.translate_coords(right, 0)", "PAIR|canvas.CompositeCanvas.pad_trim_left_right"),
    Mut("pad-tb-coords-unconditional", _C, "CompositeCanvas.pad_trim_top_bottom", "            self.shards = [(top, [(0, 0, cols, top, None, blank_canvas)]), *self.shards]\n            self.coords = self.translate_coords(0, top)", "            self.shards = [(top, [(0, 0, cols, top, None, blank_canvas)]), *self.shards]\n        self.coords = self.translate_coords(0, top)", "PAIR|canvas.CompositeCanvas.pad_trim_top_bottom"),
    Mut("overlay-coords-not-moved", _C, "CompositeCanvas.overlay", "self.coords.update(other.translate_coords(left, top))", "self.coords.update(other.translate_coords(0, 0))", "PAIR|canvas.CompositeCanvas.overlay"),
    Mut("combine-row-not-advanced", _C, "CanvasCombine", "        row += canv.rows()\n", "", "PAIR|canvas.CanvasCombine"),
    Mut("join-col-advanced-first", _C, "CanvasJoin", "        joined_canvas.coords.update(composite_canvas.translate_coords(col, 0))\n", "        col += 0\n        joined_canvas.coords.update(composite_canvas.translate_coords(col, 0))\n", "PAIR|canvas.CanvasJoin"),
    Mut("overlay-unguarded", _C, "CompositeCanvas.overlay", "        if self.widget_info:\n            raise self._finalized_error\n", "", "GUARD|"),
    Mut("pad-right-shared-cviews", _C, "CompositeCanvas.pad_trim_left_right", "new_top_cviews = top_cviews.copy()", "new_top_cviews = top_cviews", "FRESHLIST|canvas.CompositeCanvas.pad_trim_left_right"),
    Mut("cut-attr-from-kept-neighbour", "urwid/util.py", "trim_text_attr_cs", "al = rle_get_at(attr, spos - 1)", "al = rle_get_at(attr, spos)", "PAIR|util.trim_text_attr_cs"),
    Mut("delta-bare-next", _C, "shards_delta", "            other_num_rows, other_cviews = next(other_shards_iter, (None, None))\n        while", "            other_num_rows, other_cviews = next(other_shards_iter)\n        while", "GENSTOP|canvas.shards_delta"),
    Mut("delta-cursor-resync", _C, "shards_delta", "            other_done += other_num_rows\n            other_tail = shard_body_tail(other_num_rows, shard_body(other_cviews, other_tail, False))\n            other_num_rows = None", "            other_done = done\n            other_tail = shard_body_tail(other_num_rows, shard_body(other_cviews, other_tail, False))\n            other_num_rows = None", "GENSTOP|canvas.shards_delta"),
    Mut("delta-pairs-by-list-offset", _C, "shards_delta", "                    shard_cview_columns(cviews, shard_tail),\n                    shard_cview_columns(other_cviews, other_tail),\n", "", "PAIR|canvas.shards_delta"),
    Mut("delta-old-tail-not-advanced-on-skip", _C, "shards_delta", "            other_done += other_num_rows\n            other_tail = shard_body_tail(other_num_rows, shard_body(other_cviews, other_tail, False))\n            other_num_rows, other_cviews = next(other_shards_iter, (None, None))", "            other_done += other_num_rows\n            other_num_rows, other_cviews = next(other_shards_iter, (None, None))", "PAIR|canvas.shards_delta"),
    Mut("delta-new-tail-never-advanced", _C, "shards_delta", "        shard_tail = shard_body_tail(num_rows, shard_body(cviews, shard_tail, False))\n        done += num_rows", "        done += num_rows", "PAIR|canvas.shards_delta"),
    Mut("attr-remap-get-or", _C, "CompositeCanvas.fill_attr_apply", "mapping.get(v, v)", "mapping.get(v) or v", "TRUTHY|canvas.CompositeCanvas.fill_attr_apply"),
    Mut("twin-trim-coords-regrouped", _C, "CompositeCanvas.trim", "self.coords = self.translate_coords(0, -top)", "self.coords = self.translate_coords(0, 0 - top)", twin=True),
]
