"""C07 - ListBox always shows a gap-free window of its items containing the focus."""

from __future__ import annotations

import ast

from ..core import Ctx, RuleResult, finding, short
from ..model import AnalysisError, norm
from ..rules import fwd, noop, optcall, prog
from ..rules.exc import ExcEngine
from ..rules.util import callee_name, cfg_of, node_exprs, nodes_where

EXPLANATION = (
    "Decided (necessary structural conditions of C07, most of them found by seeding rounds aimed at the neighbouring properties and confirmed against failing "
    "histories there): (1) SIB: in calculate_visible the rows of the focus item cut off at the bottom (max(E, 0)) and the rows free below it (-E) are computed from "
    "the same state - no variable of E is reassigned between the two (a stale trim_bottom makes render() raise 'Listbox contents too short'); (2) SIB: every method "
    "that lays fill_above, the focus item and fill_below out in screen order reverses the bottom-up fill_above first (render and mouse_event agree on which item a "
    "row belongs to); (3) EXC: a focus position parked in set_focus_pending is handed back to the walker only under an IndexError / KeyError handler (the list may "
    "have changed in between: rendering must not raise); (4) GUARD: set_focus raises IndexError for an empty body before it parks the pending change; (5) GUARD: a "
    "walker position range-tested against the length is also shown to be an integer before it is stored; (6) PROG: every while loop of listbox.py assigns one of "
    "the locals its test reads on every way back to the test; (7) NOOP: no offset bookkeeping statement adds a variable that was just reset to 0; (8) PASS: a "
    "button-1 press on a selectable item reaches change_focus() with the position and row found by the row search, before the event is forwarded; (9) every "
    "pad_trim_top_bottom() in render() pads 0 rows on top (no blank rows above the first item); (10) GEOM: every item is asked and drawn at the one-tuple "
    "(maxcol,) of the box width (the rows shown are the items' renderings at that width); (11) SIB: render() compares the rows calculate_visible reported with the "
    "rows actually rendered for all three groups (above, focus, below); (12) SIB: the two bundled walkers step positions with identical next_position / "
    "prev_position / positions; (13) FOCUS-FWD and OPTCALL restricted to listbox.py (the focus flag reaches the focus item; optional child methods are called "
    "under hasattr); (14) BOUND: the walker clamps its focus index to len - 1 under `index >= len` (a focus left one past the end makes the ListBox render blank although items remain); (15) SENTINEL: walker results are compared with None by identity (an empty container item is falsy but is a widget); (16) GUARD: a paging candidate reaches change_focus() with its own offset only where the tests on the way entail row_offset + rows > 0 - linear atoms, per reaching definition of the offset (fix 15a2acb: page down tried items scrolled off the top and raised ListBoxError); (17) FLAG-FWD: a ListBox method that was given the focus flag lays the box out with it (mouse_event located the item under the pointer in the focused layout of an unfocused box)."
    ' Round 8: (18) INV: every walker set_focus() calls _modified() on every path; (19) ORDER: an item is appended to the visible list only after its position was stored in the variable a later loop resumes from.'
    ' Round-8 triage: (18) extended: a walker that inherits the focus setter routes its _focus_changed() hook to _modified() (fix 38d0291).'
)
NOT_DECIDED = (
    "That the window is gap-free and contains the focus for every history (arithmetic over offset_rows / inset_fraction / item heights), snapping and paging "
    "distances, 'blank rows below only when everything above is shown', behaviour with custom walkers that break the protocol, a view of 0 rows."
)
ASSUMPTIONS = ["Shared clauses (1)-(5), (7), (13) are the rule functions of C01 / C08 / C09 run with C07's clause numbers; their mutants live in those modules as well."]

LB = "urwid.widget.listbox.ListBox"
SIZE_METHODS = ("rows", "render", "keypress", "mouse_event", "get_cursor_coords", "move_cursor_to_coords", "get_pref_col", "pack")


def _as(rr, clause):
    rr.clause = clause
    return rr


def rule_mouse_focus(ctx: Ctx) -> RuleResult:
    p = ctx.p
    rr = RuleResult("PASS", "C07.8", "a button-1 press on a selectable visible item reaches change_focus() with the position and top row found by the row search, before the event is forwarded to the item", floor=3)
    fi = p.func(f"{LB}.mouse_event")
    cfg = cfg_of(fi)
    chg = nodes_where(cfg, lambda c: isinstance(c, ast.Call) and callee_name(c) == "change_focus")
    fwd_ = nodes_where(cfg, lambda c: isinstance(c, ast.Call) and isinstance(c.func, ast.Attribute) and c.func.attr == "mouse_event" and not (isinstance(c.func.value, ast.Name) and c.func.value.id == fi.self_name))
    if not chg or not fwd_:
        raise AnalysisError("ListBox.mouse_event: change_focus() / the forwarding call was not found")
    # the search loop: `for w, w_pos, w_rows in <list>` with the running row
    loops = [n for n in fi.own_nodes() if isinstance(n, ast.For) and isinstance(n.target, ast.Tuple) and len(n.target.elts) == 3]
    if not loops:
        raise AnalysisError("ListBox.mouse_event: the row-search loop was not found")
    lp = loops[-1]
    item, pos, _rows = (e.id for e in lp.target.elts)
    running = sorted({n.target.id for n in ast.walk(lp) if isinstance(n, ast.AugAssign) and isinstance(n.target, ast.Name)})
    for c in chg:
        call = next(x for e in node_exprs(c) for x in ast.walk(e) if isinstance(x, ast.Call) and callee_name(x) == "change_focus")
        # the conditions of the `if` statement(s) the call sits in (the row search and the empty-list return are not
        # conditions of the focus change)
        parents = {id(ch): par for par in ast.walk(fi.node) for ch in ast.iter_child_nodes(par)}
        encl = []
        x = call
        while id(x) in parents:
            x = parents[id(x)]
            if isinstance(x, ast.If):
                encl.append(x.test)
            if isinstance(x, (ast.For, ast.While)):
                break

        class _T:  # minimal stand-in with the .ast attribute used below
            def __init__(self, a):
                self.ast = a

        tests = [_T(t) for t in encl]
        txt = " and ".join(ast.unparse(t.ast) for t in tests)
        conds = {"press": "is_mouse_press(" in txt, "button 1": "== 1" in txt, "selectable": f"{item}.selectable()" in txt}
        rr.inst("change_focus guarded by press, button 1 and selectable", True, {"guards": txt[:160], **conds})
        missing = [k for k, v in conds.items() if not v]
        conjuncts = [v for t in tests for v in (t.ast.values if isinstance(t.ast, ast.BoolOp) and isinstance(t.ast.op, ast.And) else [t.ast])]
        extra = [ast.unparse(v) for v in conjuncts if not any(s in ast.unparse(v) for s in ("is_mouse_press(", "== 1", ".selectable()"))]
        if missing:
            rr.add(finding("PASS", fi, call, f"the focus change of mouse_event() is no longer made exactly for a button-1 press on a selectable item (missing: {missing})", construct=f"mouse focus change without {', '.join(missing)}"))
        if extra:
            rr.add(finding("PASS", fi, call, f"the focus change of mouse_event() additionally depends on {extra}: a button-1 press on a visible selectable item does not always make it the focus", construct="mouse focus change under an extra condition"))
        args = [ast.unparse(a) for a in call.args]
        ok_args = len(call.args) >= 3 and args[1] == pos and args[2] in running
        rr.inst("change_focus gets the found position and row", True, {"arguments": args, "position_variable": pos, "running_row": running})
        if not ok_args:
            rr.add(finding("PASS", fi, call, f"`{norm(call, 60)}` does not pass the position `{pos}` and the top row {running} the row search ended on: another item than the one under the pointer becomes the focus, or it is placed on another row than it is drawn on", construct="mouse focus change with other position / row"))
        ok_order = all(f in cfg.reachable([c]) and c not in cfg.reachable([f]) for f in fwd_)
        rr.inst("focus change precedes forwarding", True, {"forwarded_after_focus_change": ok_order})
        if not ok_order:
            rr.add(finding("PASS", fi, call, "the event is forwarded to the item before (or without) the focus change", construct="forwarding before the focus change"))
    return rr


def rule_no_top_padding(ctx: Ctx) -> RuleResult:
    p = ctx.p
    rr = RuleResult("PASS", "C07.9", "render() pads the combined canvas at the bottom only (pad_trim_top_bottom(0, n)): no blank rows above the first item", floor=1)
    fi = p.func(f"{LB}.render")
    pads = [c for c in fi.own_nodes() if isinstance(c, ast.Call) and callee_name(c) == "pad_trim_top_bottom"]
    if not pads:
        raise AnalysisError("ListBox.render: pad_trim_top_bottom() was not found")
    for c in pads:
        ok = len(c.args) == 2 and isinstance(c.args[0], ast.Constant) and c.args[0].value == 0
        rr.inst(norm(c, 50), True, {"call": norm(c, 60), "top_padding_zero": ok})
        if not ok:
            rr.add(finding("PASS", fi, c, f"`{norm(c, 60)}` can add blank rows above the items: the spare rows of a short list belong below the last item", construct="blank rows padded on top"))
    return rr


def rule_item_width(ctx: Ctx) -> RuleResult:
    p = ctx.p
    rr = RuleResult("GEOM", "C07.10", "every item of the list is measured, drawn and sent input at the one-tuple (maxcol,) of the box width", floor=25)
    cls = p.cls(LB)
    for fi in cls.methods.values():
        # the width: first element unpacked from the size parameter
        widths = {n.targets[0].elts[0].id for n in fi.own_nodes() if isinstance(n, ast.Assign) and isinstance(n.value, ast.Name) and n.value.id in fi.params and isinstance(n.targets[0], ast.Tuple) and len(n.targets[0].elts) == 2 and isinstance(n.targets[0].elts[0], ast.Name)}
        if not widths:
            continue
        w = sorted(widths)[0]
        for c in fi.own_nodes():
            if not (isinstance(c, ast.Call) and isinstance(c.func, ast.Attribute) and c.func.attr in SIZE_METHODS and c.args):
                continue
            recv = c.func.value
            if isinstance(recv, ast.Name) and recv.id == fi.self_name:
                continue
            if isinstance(recv, ast.Call) and isinstance(recv.func, ast.Name) and recv.func.id == "super":
                continue
            s_ = c.args[0]
            if not isinstance(s_, ast.Tuple):
                continue  # e.g. str.rows - not a size
            ok = len(s_.elts) == 1 and isinstance(s_.elts[0], ast.Name) and s_.elts[0].id == w
            rr.inst(f"{short(fi)}: {norm(c, 40)}", True, {"call": f"{short(fi)}: {norm(c, 50)}", "size": ast.unparse(s_)} if len(rr.samples) < 6 else None)
            if not ok:
                rr.add(finding("GEOM", fi, c, f"`{norm(c, 60)}` asks / draws an item at size {ast.unparse(s_)} instead of ({w},): the rows shown are no longer the item's rendering at the width of the box (rows() and render() disagree -> ListBoxError)", construct=f"item size {ast.unparse(s_)} instead of ({w},)"))
    return rr


def rule_render_consistency(ctx: Ctx) -> RuleResult:
    p = ctx.p
    rr = RuleResult("SIB", "C07.11", "render() compares the rows calculate_visible() reported with the rows actually rendered for the items above, the focus item and the items below", floor=3)
    fi = p.func(f"{LB}.render")
    cfg = cfg_of(fi)
    renders = [n for n in cfg.nodes if isinstance(n.ast, ast.Assign) and isinstance(n.ast.value, ast.Call) and isinstance(n.ast.value.func, ast.Attribute) and n.ast.value.func.attr == "render" and isinstance(n.ast.targets[0], ast.Name)]
    if len(renders) < 3:
        raise AnalysisError(f"ListBox.render: expected three item render() sites, found {len(renders)}")
    for r in renders:
        cv = r.ast.targets[0].id
        # a test `<rows> != cv.rows()` whose true edge raises, reached from this render before the canvas is used
        tests = [t for t in cfg.nodes if t.kind == "test" and f"{cv}.rows()" in ast.unparse(t.ast) and any(isinstance(o, ast.NotEq) for c in ast.walk(t.ast) if isinstance(c, ast.Compare) for o in c.ops) and any(tg.kind == "raisestmt" for tg, lab in t.succ if lab == "T")]
        ok = bool(tests) and cfg.must_pass(r, tests, ends=[cfg.exit], labels=("n", "T", "F"))
        rr.inst(norm(r.ast, 50), True, {"render": norm(r.ast, 60), "rows_compared": ok})
        if not ok:
            rr.add(finding("SIB", fi, r.ast, f"the canvas `{cv}` goes into the result without its rows() being compared with the rows calculate_visible() planned with: when an item's rows() and render() disagree the window silently has a gap or overflows instead of the error the other groups raise", construct=f"rendered rows of {cv} not compared with the calculated rows"))
    return rr


def rule_walker_twins(ctx: Ctx) -> RuleResult:
    p = ctx.p
    rr = RuleResult("SIB", "C07.12", "SimpleListWalker and SimpleFocusListWalker step positions identically (next_position, prev_position, positions)", floor=3)
    a, b = p.cls("urwid.widget.listbox.SimpleListWalker"), p.cls("urwid.widget.listbox.SimpleFocusListWalker")

    def body(f):
        stmts = [s_ for s_ in f.node.body if not (isinstance(s_, ast.Expr) and isinstance(s_.value, ast.Constant))]
        return "\n".join(ast.unparse(s_) for s_ in stmts)

    for name in ("next_position", "prev_position", "positions"):
        fa, fb = a.methods.get(name), b.methods.get(name)
        if fa is None or fb is None:
            raise AnalysisError(f"walker method {name} not found in both bundled walkers")
        same = body(fa) == body(fb)
        rr.inst(name, True, {"method": name, "identical": same})
        if not same:
            rr.add(finding("SIB", fb, fb.node, f"{name}() of SimpleFocusListWalker differs from SimpleListWalker's: the same key sequence walks the two bundled walkers differently (wrap-around, ends of the list)", construct=f"walker twins differ in {name}"))
    return rr


def rule_candidate_on_page(ctx: Ctx) -> RuleResult:
    """change_focus() refuses an offset that puts the whole target above the top edge (`offset_inset + rows <= 0` ->
    ListBoxError).  The paging methods collect candidate items in a list of (row_offset, widget, position, rows) and
    try them one after the other; after the page was scrolled some of the collected items lie off the top entirely.
    Every change_focus(size, pos, row_offset, ...) that is handed a candidate's own offset is reached only where the
    dominating tests show row_offset + rows > 0 (linear atoms of the tests on the way, entailment of the sum being
    positive).  Before fix 15a2acb both candidate loops of _keypress_page_down lacked the test: about 1 in 400 random
    histories over standard widgets ended in ListBoxError 'Invalid offset_inset: -2, only 2 rows in target!'."""
    from ..rules.defuse import DefUse
    from ..rules.runpos import _atoms, _entails_positive
    from ..rules.util import lin_str, linear

    p = ctx.p
    rr = RuleResult("GUARD", "C07.16", "a paging candidate is handed to change_focus() with its own row offset only where row_offset + rows > 0 is known (the target is not off the top edge entirely)", floor=3)
    for fi in p.all_class_functions(p.cls(LB)):
        calls = [c for c in fi.own_nodes() if isinstance(c, ast.Call) and isinstance(c.func, ast.Attribute) and c.func.attr == "change_focus" and len(c.args) >= 3 and isinstance(c.args[2], ast.Name)]
        if not calls:
            continue
        du = DefUse(fi)
        cfg = du.cfg
        size_elems = set()
        for n in fi.own_nodes():
            if isinstance(n, ast.Assign) and isinstance(n.value, ast.Name) and n.value.id == "size" and isinstance(n.targets[0], (ast.Tuple, ast.List)):
                size_elems |= {e.id for e in n.targets[0].elts if isinstance(e, ast.Name)}
        # candidate unpackings: `a, w, p, r = t[i]` / `for a, w, p, r in ...` with four names
        unpacks = {}
        for n in fi.own_nodes():
            tgt = None
            if isinstance(n, ast.Assign) and len(n.targets) == 1 and isinstance(n.targets[0], ast.Tuple) and isinstance(n.value, ast.Subscript):
                tgt = n.targets[0]
            if tgt is not None and len(tgt.elts) == 4 and all(isinstance(e, ast.Name) for e in tgt.elts):
                unpacks[tgt.elts[0].id] = (tgt.elts[2].id, tgt.elts[3].id)
        for c in calls:
            off = c.args[2].id
            if off not in unpacks or not (isinstance(c.args[1], ast.Name) and c.args[1].id == unpacks[off][0]):
                continue
            rows = unpacks[off][1]
            cn = next((n for n in cfg.nodes for e in node_exprs(n) for x in ast.walk(e) if x is c), None)
            if cn is None:
                continue
            # per definition of the offset that reaches the call: the candidate's own value (the unpacking) needs the
            # tests passed since then; a value the method computed itself (`row_offset = -(rows - 1)`) is added up
            ok = True
            facts = []
            defs = du.reaching(off, cn)
            def_nodes = {dn for _v, _h, dn in defs}
            for val, _how, dn in defs:
                if isinstance(val, ast.AST) and not isinstance(val, ast.Subscript) and linear(val) is not None:
                    goal = dict(linear(val))
                    goal[rows] = goal.get(rows, 0) + 1
                    goal = {k: v for k, v in goal.items() if v}
                    dfacts = []
                    # a value built from quantities with known lower bounds: an element of `size` is at least 1, a
                    # row count is at least 0 - at least 1 where the tests on the way exclude 0 (`if not rows: continue`)
                    dom = []
                    for tn in cfg.nodes:
                        if tn.kind == "test":
                            for lab, truth in (("T", True), ("F", False)):
                                if cn not in ExcEngine._reach_without_edge(cfg, tn, lab):
                                    dom += _atoms(tn.ast, truth)
                    lower = {e_: 1 for e_ in size_elems}
                    lower[rows] = 1 if any(e == {rows: 1} and o in ("!=", ">") for e, o in dom) else 0
                    if all(k == "" or (k in lower and v > 0) for k, v in goal.items()):
                        if sum(v * (1 if k == "" else lower[k]) for k, v in goal.items()) > 0:
                            continue
                else:
                    goal = {off: 1, rows: 1}
                    dfacts = []
                    for tn in cfg.nodes:
                        if tn.kind != "test":
                            continue
                        for lab, truth in (("T", True), ("F", False)):
                            # every way from this definition to the call (no other definition in between) takes the edge
                            seen, todo = {dn}, [dn]
                            while todo:
                                x = todo.pop()
                                for y, l in x.succ:
                                    if (x is tn and l == lab) or l == "e" or y in seen or (y in def_nodes and y is not dn):
                                        continue
                                    seen.add(y)
                                    todo.append(y)
                            if cn not in seen:
                                dfacts += _atoms(tn.ast, truth)
                facts += dfacts
                if not _entails_positive(goal, dfacts):
                    ok = False
            rr.inst(f"{short(fi)}@{c.lineno - fi.node.lineno}: {norm(c, 50)}", True, {"call": f"{short(fi)}: {norm(c, 70)}", "needs": f"{off} + {rows} > 0", "known": [f"{lin_str(e)} {o} 0" for e, o in facts if off in e][:5], "shown": ok})
            if not ok:
                rr.add(finding("GUARD", fi, c, f"`{norm(c, 70)}` hands the candidate's own offset `{off}` to change_focus() although nothing on the way shows `{off} + {rows} > 0`: an item that the page scrolled off the top edge entirely is tried as the new focus and change_focus() raises ListBoxError (Invalid offset_inset)", construct=f"{fi.name}: candidate offset {off} not shown on the page"))
    return rr


def rule_resume_position(ctx: Ctx) -> RuleResult:
    """calculate_visible() collects the items above the focus in one loop and, when rows are left over at the bottom,
    *resumes* upwards later from the remembered position of the topmost item collected (`pos = top_pos`).  The
    remembered position has to name every item that went into the list: between the walker call that yields an item's
    position and the append of that item, the position is stored into the resume variable on every path.  Seed
    C07-r8a moved the store behind the append (after the `break` for an item crossing the top edge): the resumed loop
    fetched that item again and it was drawn twice."""
    from ..rules.defuse import DefUse

    p = ctx.p
    rr = RuleResult("ORDER", "C07.19", "an item is appended to a visible-items list only after its position was stored in the variable a later loop resumes from", floor=1)
    fi = p.func(f"{LB}.calculate_visible")
    du = DefUse(fi)
    cfg = du.cfg
    # resume variables: `pos = T` in front of a later walker loop, where T was assigned from a walker position
    for n in [x for x in fi.own_nodes() if isinstance(x, ast.Assign) and len(x.targets) == 1 and isinstance(x.targets[0], ast.Name) and isinstance(x.value, ast.Name)]:
        T, P = n.value.id, n.targets[0].id
        stores = [dn for dn, v, how in du.defs.get(T, []) if isinstance(v, ast.Name) and v.id == P]
        if not stores:
            continue
        # walker calls that define P by unpacking, and appends of tuples / records naming P
        pdefs = [dn for dn, v, how in du.defs.get(P, []) if isinstance(v, ast.AST) and any(isinstance(c, ast.Call) and callee_name(c) in ("get_prev", "get_next") for c in ast.walk(v))]
        for pd in pdefs:
            loop_nodes = cfg.reachable([pd], labels=("n", "T", "F"))
            for a in cfg.nodes:
                if a not in loop_nodes:
                    continue
                apps = [c for e in node_exprs(a) for c in ast.walk(e) if isinstance(c, ast.Call) and isinstance(c.func, ast.Attribute) and c.func.attr == "append" and any(isinstance(x, ast.Name) and x.id == P for x in ast.walk(c))]
                if not apps:
                    continue
                # only appends fed by this walker call (no other definition of P in between)
                others = [d for d in pdefs if d is not pd] + [dn for dn, v, how in du.defs.get(P, []) if dn not in pdefs]
                if a not in cfg.reachable([pd], avoid=others, labels=("n", "T", "F")):
                    continue
                if not any(s_ in cfg.reachable([pd], avoid=others, labels=("n", "T", "F")) for s_ in stores):
                    continue  # this loop does not feed the resume variable (the loop below the focus)
                ok = not (a in cfg.reachable([pd], avoid=stores + others, labels=("n", "T", "F")))
                rr.inst(f"{norm(apps[0], 50)}", True, {"append": norm(apps[0], 60), "resume_variable": T, "position": P, "stored_before_append": ok})
                if not ok:
                    rr.add(finding("ORDER", fi, apps[0], f"`{norm(apps[0], 60)}` can run before `{T} = {P}`: the item is in the list, but the position the later loop resumes from (`{P} = {T}`) still names the item below it - when rows are left over the item is fetched and drawn a second time", construct=f"append before the resume position {T} is stored"))
    return rr


def rule_walker_focus_notifies(ctx: Ctx) -> RuleResult:
    """'the visible window shows the walker's items around the focus': the ListBox learns of a focus change made
    through the walker (ListBox.set_focus(), focus_position = n, a program calling walker.set_focus()) only by the
    walker's 'modified' signal - that is what drops the cached canvas.  Every set_focus() of a ListWalker class in
    listbox.py calls self._modified() on every way to its normal end.  Seed C07-r8b removed the call from
    SimpleFocusListWalker.set_focus(): the next rendering was the old frame, the new focus item had no row."""
    p = ctx.p
    rr = RuleResult("INV", "C07.18", "every list walker's set_focus() announces the change (self._modified()) on every way to its normal end", floor=2)
    m = p.modules["urwid.widget.listbox"]
    lw = p.cls("urwid.widget.listbox.ListWalker")
    for cls in m.classes:
        if cls is lw or lw not in p.mro(cls):
            continue
        fi = cls.methods.get("set_focus")
        if fi is None:
            continue
        cfg = cfg_of(fi)
        notes = nodes_where(cfg, lambda x: isinstance(x, ast.Call) and isinstance(x.func, ast.Attribute) and x.func.attr == "_modified" and isinstance(x.func.value, ast.Name) and x.func.value.id == fi.self_name)
        ok = bool(notes) and cfg.must_pass(cfg.entry, notes, ends=[cfg.exit], labels=("n", "T", "F"))
        rr.inst(short(fi), True, {"method": short(fi), "modified_calls": len(notes), "on_every_path": ok})
        if not ok:
            rr.add(finding("INV", fi, fi.node, f"{short(fi)}() can store the new focus and return without self._modified(): the ListBox keeps serving the canvas cached for the old focus (same size, same focus flag) - the window is not around the new focus item", construct=f"{cls.name}.set_focus without _modified()"))
        # a walker that is a MonitoredFocusList also has the public `focus` setter: the only hook that setter calls
        # is _focus_changed(), so the walker routes it to _modified() (fix 38d0291: `walker.focus = 3` left the
        # ListBox on its cached canvas)
        if any(k.name == "MonitoredFocusList" for k in p.mro(cls)):
            hook = cls.methods.get("_focus_changed")
            okh = hook is not None and any(isinstance(x, ast.Call) and isinstance(x.func, ast.Attribute) and x.func.attr == "_modified" for x in hook.own_nodes())
            rr.inst(f"{cls.name}._focus_changed", True, {"class": cls.name, "focus_setter_hook_notifies": okh})
            if not okh:
                rr.add(finding("INV", fi, cls.node, f"{cls.name} inherits the `focus` setter of MonitoredFocusList but does not route its _focus_changed() hook to _modified(): `walker.focus = n` moves the focus without the 'modified' signal, the ListBox keeps its cached canvas", construct=f"{cls.name}: focus assignment without _modified()"))
    return rr


def rule_layout_with_own_flag(ctx: Ctx) -> RuleResult:
    """calculate_visible(size, focus) does not only measure: with focus=True it moves the focus widget so that its
    cursor row is inside the box.  A method that was told the box's focus state and lays the box out to locate
    something in what is *displayed* (mouse_event: which item is under the pointer) has to ask with that flag - with a
    constant True an unfocused box is laid out as if focused, the rows differ from the rows on screen and the click
    goes to another item.  Every ListBox method with a `focus` parameter passes it to self.calculate_visible().
    Before fix fdbf670 mouse_event passed focus=True: a click on the row showing b1 in an unfocused box went to the Edit."""
    p = ctx.p
    rr = RuleResult("FLAG-FWD", "C07.17", "a ListBox method that received the box's focus flag lays the box out (calculate_visible) with that flag, not with a constant", floor=3)
    for fi in p.all_class_functions(p.cls(LB)):
        if "focus" not in fi.params or fi.is_lambda:
            continue
        for c in fi.own_nodes():
            if not (isinstance(c, ast.Call) and isinstance(c.func, ast.Attribute) and c.func.attr == "calculate_visible" and isinstance(c.func.value, ast.Name) and c.func.value.id == fi.self_name):
                continue
            a = c.args[1] if len(c.args) > 1 else next((k.value for k in c.keywords if k.arg == "focus"), None)
            ok = isinstance(a, ast.Name) and a.id == "focus"
            rr.inst(f"{short(fi)}: {norm(c, 50)}", True, {"caller": short(fi), "call": norm(c, 60), "focus_argument": ast.unparse(a) if a is not None else None})
            if not ok:
                rr.add(finding("FLAG-FWD", fi, c, f"`{norm(c, 60)}` lays the box out with `{ast.unparse(a) if a is not None else 'the default False'}` although {fi.name}() was given the box's focus flag: calculate_visible() shifts the focus widget to keep its cursor row inside only when focused, so the layout used here is not the one on screen - {fi.name}() locates another item than the one displayed at that row", construct=f"{fi.name}: calculate_visible with a constant focus flag"))
    return rr


def run(ctx: Ctx):
    p = ctx.p
    from . import c01, c08, c09

    cls = p.cls(LB)
    loops = [f.qualname for f in p.modules["urwid.widget.listbox"].functions if not f.is_lambda and any(isinstance(n, ast.While) for n in f.own_nodes())]
    return [
        _as(c01.rule_complementary_quantities(ctx), "C07.1"),
        _as(c09.rule_visible_order(ctx), "C07.2"),
        _as(c08.rule_stale_position(ctx), "C07.3"),
        _as(c08.rule_listbox_empty_setter(ctx), "C07.4"),
        _as(c08.rule_integral_position(ctx), "C07.5"),
        _as(c08.rule_index_clamp(ctx), "C07.14"),
        c08.rule_widget_none_test(ctx, "C07.15"),
        prog.run_progress(p, "C07.6", loops, floor=6, description="every while loop of listbox.py assigns a local its test reads on every way back to the test"),
        noop.run_noop(p, "C07.7", ["urwid.widget.listbox"], floor=8),
        rule_mouse_focus(ctx),
        rule_no_top_padding(ctx),
        rule_item_width(ctx),
        rule_render_consistency(ctx),
        rule_walker_twins(ctx),
        fwd.run_fwd(p, "C07.13a", ("urwid.widget.listbox",), floor=10, description="ListBox passes the focus flag it receives on to every callee that takes one (the focus item is measured and drawn focused, the cursor row is the focused one)"),
        optcall.run_optcall(p, "C07.13b", ("urwid.widget.listbox",), floor=5),
        rule_candidate_on_page(ctx),
        rule_layout_with_own_flag(ctx),
        rule_walker_focus_notifies(ctx),
        rule_resume_position(ctx),
    ]


from ..mutants import Mut  # noqa: E402

_L = "urwid/widget/listbox.py"
MUTANTS = [
    Mut("focus-walker-assignment-silent", _L, "SimpleFocusListWalker._focus_changed", "        self._modified()\n", "        pass\n", "INV|widget.listbox.SimpleFocusListWalker.set_focus|SimpleFocusListWalker: focus assignment without _modified()"),
    Mut("listbox-mouse-layout-as-if-focused", _L, "ListBox.mouse_event", "self.calculate_visible((maxcol, maxrow), focus=focus)", "self.calculate_visible((maxcol, maxrow), focus=True)", "FLAG-FWD|widget.listbox.ListBox.mouse_event|mouse_event: calculate_visible with a constant focus flag"),
    Mut("page-down-tries-candidate-off-the-top", _L, "ListBox._keypress_page_down", "            if row_offset + rows <= 0:\n                # scrolled off the top edge entirely: not on the new page\n                continue\n", "", "GUARD|widget.listbox.ListBox._keypress_page_down|_keypress_page_down: candidate offset row_offset not shown on the page"),
    Mut("page-down-fallback-tries-candidate-off-the-top", _L, "ListBox._keypress_page_down", "            if row_offset + rows <= 0:  # nor one that is off the top edge entirely\n                continue\n", "", "GUARD|widget.listbox.ListBox._keypress_page_down|_keypress_page_down: candidate offset row_offset not shown on the page"),
    Mut("page-up-fallback-edge-off-by-one", _L, "ListBox._keypress_page_up", "            if rows + row_offset <= 0:\n                snap_rows -= (-row_offset) - (rows - 1)", "            if rows + row_offset < 0:\n                snap_rows -= (-row_offset) - (rows - 1)", "GUARD|widget.listbox.ListBox._keypress_page_up|_keypress_page_up: candidate offset row_offset not shown on the page"),
    Mut("twin-page-down-candidate-test-rearranged", _L, "ListBox._keypress_page_down", "            if row_offset + rows <= 0:\n                # scrolled off", "            if rows <= -row_offset:\n                # scrolled off", twin=True),
    Mut("listbox-trim-bottom-before-offset-final", _L, "ListBox.calculate_visible", "        focus_rows = focus_widget.rows((maxcol,), True)\n\n        # items inside the window", "        focus_rows = focus_widget.rows((maxcol,), True)\n        trim_bottom = max(focus_rows + offset_rows - inset_rows - maxrow, 0)\n\n        # items inside the window", "SIB|widget.listbox.ListBox.calculate_visible|complementary quantities computed from different states", also=[("        trim_bottom = max(focus_rows + offset_rows - inset_rows - maxrow, 0)\n\n        # 3. collect", "        # 3. collect")]),
    Mut("listbox-mouse-fill-above-not-reversed", _L, "ListBox.mouse_event", "        fill_above.reverse()  # fill_above is in bottom-up order\n", "", "SIB|widget.listbox.ListBox.mouse_event|fill_above used in screen order without reverse()"),
    Mut("listbox-set-focus-no-empty-test", _L, "ListBox.set_focus", "        if focus_widget is None:\n            raise IndexError(\"Can't set focus, ListBox is empty\")\n", "", "GUARD|widget.listbox.ListBox.set_focus|empty ListBox accepts a focus position"),
    Mut("listbox-mouse-focus-any-button", _L, "ListBox.mouse_event", "        if is_mouse_press(event) and button == 1 and w.selectable():", "        if is_mouse_press(event) and w.selectable():", "PASS|widget.listbox.ListBox.mouse_event|mouse focus change without button 1"),
    Mut("listbox-mouse-focus-unselectable", _L, "ListBox.mouse_event", "        if is_mouse_press(event) and button == 1 and w.selectable():", "        if is_mouse_press(event) and button == 1:", "PASS|widget.listbox.ListBox.mouse_event|mouse focus change without selectable"),
    Mut("listbox-mouse-focus-only-when-unfocused", _L, "ListBox.mouse_event", "        if is_mouse_press(event) and button == 1 and w.selectable():", "        if is_mouse_press(event) and button == 1 and w.selectable() and focus_rows:", "PASS|widget.listbox.ListBox.mouse_event|mouse focus change under an extra condition"),
    Mut("listbox-mouse-focus-row-of-event", _L, "ListBox.mouse_event", "            self.change_focus((maxcol, maxrow), w_pos, wrow)", "            self.change_focus((maxcol, maxrow), w_pos, row)", "PASS|widget.listbox.ListBox.mouse_event|mouse focus change with other position / row"),
    Mut("listbox-pads-on-top", _L, "ListBox.render", "final_canvas.pad_trim_top_bottom(0, maxrow - rows)", "final_canvas.pad_trim_top_bottom(maxrow - rows, 0)", "PASS|widget.listbox.ListBox.render|blank rows padded on top"),
    Mut("listbox-item-rendered-at-box-size", _L, "ListBox.render", "        focus_canvas = focus_widget.render((maxcol,), focus=focus)", "        focus_canvas = focus_widget.render((maxcol, focus_rows), focus=focus)", "GEOM|widget.listbox.ListBox.render|item size (maxcol, focus_rows) instead of (maxcol,)"),
    Mut("listbox-below-rows-not-compared", _L, "ListBox.render", "        for widget, w_pos, w_rows in fill_below:\n            canvas = widget.render((maxcol,))\n            if w_rows != canvas.rows():\n                raise ListBoxError(\n                    f\"Widget {widget!r} at position {w_pos!r} \"\n                    f\"within listbox calculated {w_rows:d} \"\n                    f\"rows but rendered {canvas.rows():d}!\"\n                )\n", "        for widget, w_pos, w_rows in fill_below:\n            canvas = widget.render((maxcol,))\n", "SIB|widget.listbox.ListBox.render|rendered rows of canvas not compared with the calculated rows"),
    Mut("focus-walker-next-position-no-wrap", _L, "SimpleFocusListWalker.next_position", "            if self.wrap_around:\n                return 0\n", "", "SIB|widget.listbox.SimpleFocusListWalker.next_position|walker twins differ in next_position"),
    Mut("twin-listbox-mouse-guard-reordered", _L, "ListBox.mouse_event", "        if is_mouse_press(event) and button == 1 and w.selectable():", "        if button == 1 and is_mouse_press(event) and w.selectable():", twin=True),
]
