"""C19 - containers partition the space exactly and proportionally."""

from __future__ import annotations

import ast

from ..core import Ctx, RuleResult, finding, short, walk_no_nested
from ..model import AnalysisError, norm
from ..mutants import Mut
from ..rules import accum, axis, dim, fwd, inv
from ..rules.defuse import DefUse
from ..rules.util import callee_name, cfg_of, lin_str, linear, node_exprs, nodes_where

EXPLANATION = (
    "Decided (necessary structural conditions of C19): (1) DIM: no cols/rows confusion in the allocation helpers of Columns, Pile, Padding, Filler, Overlay and GridFlow; "
    "(2) running-remainder apportionment (Columns.column_widths, Pile.get_item_rows): in the loop that assigns each weighted child int(R * w / W + 0.5), the remaining space R is decremented "
    "by the share and the remaining weight W by the child's weight on every iteration path - the idiom that makes the shares sum exactly to the space - and a loop whose share is clamped "
    "from below (min_width) visits the weights in ascending order (sorted), so that the clamped excess is absorbed by the heavier columns instead of overshooting the space; "
    "(2b) the rows left after the fixed items of a box Pile are clamped to >= 0 before they are shared out, and a class whose _invalidate resets a layout memo (Columns' width cache, which "
    "depends on the focus column) is never invalidated through a base class behind that override's back; (3) remainder-defined margins: calculate_left_right_padding / calculate_top_bottom_filler define the last margin as available - size - other margin, and every later adjustment of "
    "the two margins is a sum-preserving pair (+shift / -shift) or the final non-clip clamp; (4) GridFlow: the space budget of the row-wrap test exceeds the row's drawn width by exactly "
    "one separator, i.e. a cell is added to a row only if separator + cell still fit."
    ' Added after seed round 3: (5) AXIS - placement options reach parameters of their own axis (align/width/left/right vs valign/height/top/bottom) and no argument carries the name of a different parameter; (6) ACCUM - Columns.column_widths charges / refunds its budget for every column it passes.'
    ' Round 4: (7) the space a relative size is a percentage of is clamped to >= 0 before scaling, in both placement helpers; (8) memo vs child queries (C06.7); (9) Overlay measures a flow top widget at the width top_w_size() renders it with (roles matched through the caller). Round 5: (2, extended) the share stored into the result is the share taken off the remainder; (10) no size expression counts one margin of a pair twice and its partner not at all.'
    ' Round 6: (11) an override of the bottom margin in Overlay.calculate_padding_filler keeps top + height + bottom == maxrow or is made exactly under height > maxrow; (12) Columns.column_widths reserves, credits back and floors weighted columns with one and the same amount.'
    ' (13) GUARD: a division by a total of weights is made only where that total was tested against 0 (fix 8b4fc37: zero weights only).'
    ' Round 7: (14) PAIR: padding is moved from one side to the other only where the tests show the giving side positive and the receiving side negative (both mirror branches of the helpers); (15) FLAG-FWD: a self-call to a helper taking `focus` passes the method\'s own focus flag, not a per-item flag; (16) SIB: every relative width is a share of the columns net of the left / right margins - Overlay.rows() like calculate_left_right_padding() (fix 8affa45).'
    ' Round-8 triage: (17) SIB: Columns.pack() counts widths and dividers over the columns render() draws (fix ed8f003).'
)
NOT_DECIDED = "Non-negativity of every child dimension, proportionality within one column, focus-column visibility, min-width interaction beyond the ordering clause, alignment rounding - integer-rounding properties over ranges."
ASSUMPTIONS = []

MODULES = ["urwid.widget.columns", "urwid.widget.pile", "urwid.widget.padding", "urwid.widget.filler", "urwid.widget.overlay", "urwid.widget.grid_flow"]


def _share_expr(e):
    """(R, w, W) names if *e* contains int(R * w / W + 0.5) (R possibly wrapped in float())."""
    for x in ast.walk(e):
        if isinstance(x, ast.Call) and isinstance(x.func, ast.Name) and x.func.id == "int" and x.args:
            a = x.args[0]
            if isinstance(a, ast.BinOp) and isinstance(a.op, ast.Add) and isinstance(a.right, ast.Constant) and a.right.value == 0.5:
                d = a.left
                if isinstance(d, ast.BinOp) and isinstance(d.op, ast.Div) and isinstance(d.left, ast.BinOp) and isinstance(d.left.op, ast.Mult):
                    r, w, W = d.left.left, d.left.right, d.right
                    if isinstance(r, ast.Call) and isinstance(r.func, ast.Name) and r.func.id == "float" and r.args:
                        r = r.args[0]
                    if all(isinstance(z, ast.Name) for z in (r, w, W)):
                        return r.id, w.id, W.id
    return None


def rule_apportion(ctx: Ctx) -> RuleResult:
    p = ctx.p
    rr = RuleResult("ORDER", "C19.2", "weighted shares int(R*w/W+0.5) are taken with both running remainders decremented on every path; clamped shares are visited in ascending weight order", floor=2)
    sites = [("urwid.widget.columns.Columns.column_widths", True), ("urwid.widget.pile.Pile.get_item_rows", False)]
    for q, _ in sites:
        fi = p.func(q)
        cfg = cfg_of(fi)
        found = 0
        for n in cfg.nodes:
            a = n.ast
            if not (isinstance(a, ast.Assign) and len(a.targets) == 1 and isinstance(a.targets[0], ast.Name)):
                continue
            t = _share_expr(a.value)
            if t is None:
                continue
            R, w, W = t
            share = a.targets[0].id
            # enclosing for loop
            loops = [h for h in cfg.nodes if h.kind == "for" and any(x is a for x in ast.walk(h.ast))]
            if not loops:
                continue
            found += 1
            head = loops[-1]
            clamped = isinstance(a.value, ast.Call) and callee_name(a.value) == "max"
            rr.inst(f"{short(fi)}:{norm(a, 60)}", True, {"function": short(fi), "share": norm(a, 70), "R": R, "W": W, "weight": w, "clamped_from_below": clamped, "iterates": ast.unparse(head.ast.iter)})
            decR = [m for m in cfg.nodes if isinstance(m.ast, ast.AugAssign) and isinstance(m.ast.op, ast.Sub) and isinstance(m.ast.target, ast.Name) and m.ast.target.id == R and ast.unparse(m.ast.value) == share]
            decW = [m for m in cfg.nodes if isinstance(m.ast, ast.AugAssign) and isinstance(m.ast.op, ast.Sub) and isinstance(m.ast.target, ast.Name) and m.ast.target.id == W and ast.unparse(m.ast.value) == w]
            for nm, dec, what in ((R, decR, f"`{R} -= {share}`"), (W, decW, f"`{W} -= {w}`")):
                back = cfg.reachable([n], avoid=dec, labels=("n", "T", "F"))
                if not dec or head in back:
                    rr.add(finding("ORDER", fi, a, f"after `{norm(a, 50)}` an iteration can return to the loop head without {what}: the remaining {'space' if nm == R else 'weight'} is not updated, so the shares no longer sum to the available space", construct=f"running remainder {nm} not decremented"))
            # what is handed out is what is taken off the remainder: the store into the result (widths[i] = .. /
            # rows.append(..)) inside this loop carries the share variable itself, not a value derived from it
            for st in ast.walk(head.ast):
                val = None
                if isinstance(st, ast.Assign) and isinstance(st.targets[0], ast.Subscript) and not isinstance(st.value, ast.Constant):
                    val = st.value
                elif isinstance(st, ast.Call) and isinstance(st.func, ast.Attribute) and st.func.attr == "append" and st.args:
                    val = st.args[0]
                if val is None or share not in {x.id for x in ast.walk(val) if isinstance(x, ast.Name)}:
                    continue
                same = isinstance(val, ast.Name) and val.id == share
                rr.inst(f"{short(fi)}: handed out {norm(val, 30)}", True, {"function": short(fi), "stored": norm(st, 50), "subtracted": share, "same": same})
                if not same:
                    rr.add(finding("ORDER", fi, st, f"`{norm(st, 50)}` hands out `{norm(val, 40)}` while `{R} -= {share}` takes only `{share}` off the remaining space: whenever the two differ (a share lifted to the minimum width) the widths add up to more than the available columns", construct=f"handed out {norm(val, 40)} but subtracted {share}"))
            if clamped:
                it = head.ast.iter
                ok = isinstance(it, ast.Call) and isinstance(it.func, ast.Name) and it.func.id == "sorted" and not any(kw.arg == "reverse" for kw in it.keywords)
                if not ok:
                    rr.add(finding("ORDER", fi, head.ast, f"the share is clamped from below (`{norm(a.value, 50)}`) but the loop iterates `{ast.unparse(it)}` instead of the weights in ascending order: a heavy column served before a light one that is clamped up makes the widths exceed the available columns", construct=f"clamped shares not visited in ascending order: for ... in {ast.unparse(it)}"))
        if not found:
            raise AnalysisError(f"{q}: the int(R * w / W + 0.5) apportionment was not found")
    return rr


def rule_clamp_before_shares(ctx: Ctx) -> RuleResult:
    """Pile.get_item_rows subtracts the fixed items from the available rows; what is left can be negative and
    must be clamped to 0 before it is shared out, otherwise weighted children are handed negative row counts."""
    p = ctx.p
    rr = RuleResult("PASS", "C19.2b", "the space left after the fixed items is clamped to >= 0 before it is apportioned", floor=1)
    fi = p.func("urwid.widget.pile.Pile.get_item_rows")
    cfg = cfg_of(fi)
    share = None
    for n in cfg.nodes:
        a = n.ast
        if isinstance(a, ast.Assign) and _share_expr(a.value) is not None:
            share = (n, _share_expr(a.value)[0])
    if share is None:
        raise AnalysisError("Pile.get_item_rows: share expression not found")
    sn, R = share
    loops = [h for h in cfg.nodes if h.kind == "for" and any(x is sn.ast for x in ast.walk(h.ast))]
    subs = [n for n in cfg.nodes if isinstance(n.ast, ast.AugAssign) and isinstance(n.ast.op, ast.Sub) and isinstance(n.ast.target, ast.Name) and n.ast.target.id == R and not any(any(x is n.ast for x in ast.walk(h.ast)) for h in loops)]
    clamps = [n for n in cfg.nodes if isinstance(n.ast, ast.Assign) and len(n.ast.targets) == 1 and isinstance(n.ast.targets[0], ast.Name) and n.ast.targets[0].id == R and isinstance(n.ast.value, ast.Call) and callee_name(n.ast.value) == "max" and any(isinstance(x, ast.Constant) and x.value == 0 for x in n.ast.value.args) and any(isinstance(x, ast.Name) and x.id == R for x in n.ast.value.args)]
    rr.inst("clamp between subtraction and shares", True, {"remaining": R, "subtractions_of_fixed_items": len(subs), "clamps": [norm(c.stmt, 50) for c in clamps]})
    for s_ in subs:
        if not clamps or sn in cfg.reachable([s_], avoid=clamps, labels=("n", "T", "F")):
            rr.add(finding("PASS", fi, s_.stmt, f"after `{norm(s_.stmt, 40)}` the share computation can be reached without `{R} = max({R}, 0)`: when the fixed items alone exceed the available rows the weighted children are handed negative row counts", construct=f"{R} not clamped after subtraction"))
            break
    return rr


def rule_margins(ctx: Ctx) -> RuleResult:
    p = ctx.p
    rr = RuleResult("PAIR", "C19.3", "the second margin is defined as available - size - first margin; later adjustments are sum-preserving pairs or the final non-clip clamp", floor=2)
    for q in ("urwid.widget.padding.calculate_left_right_padding", "urwid.widget.filler.calculate_top_bottom_filler"):
        fi = p.func(q)
        cfg = cfg_of(fi)
        # roles from the signature: (available, ..., first margin, second margin); the child's size is whatever
        # single name completes `margin = available - <size> - other margin`
        avail, a_, b_ = fi.params[0], fi.params[-2], fi.params[-1]
        sz = "<size>"

        def _is_rem(n):
            a = n.ast
            if not (isinstance(a, ast.Assign) and len(a.targets) == 1 and isinstance(a.targets[0], ast.Name) and a.targets[0].id in (a_, b_)):
                return None
            other = b_ if a.targets[0].id == a_ else a_
            L = linear(a.value)
            if L and len(L) == 3 and L.get(avail) == 1 and L.get(other) == -1 and sorted(L.values()) == [-1, -1, 1]:
                return a.targets[0].id
            return None

        rem = [n for n in cfg.nodes if _is_rem(n)]
        if rem:
            tgt = _is_rem(rem[0])
            a_, b_ = (a_, b_) if tgt == a_ else (b_, a_)
            sz = next(k for k in linear(rem[0].ast.value) if k not in (avail, b_))
        rr.inst(f"{short(fi)}:remainder", True, {"function": short(fi), "remainder_definition": [norm(n.stmt, 60) for n in rem]})
        rets = [n for n in cfg.nodes if n.kind == "return"]
        if len(rem) != 1 or not all(cfg.dominated(r, rem) for r in rets):
            rr.add(finding("PAIR", fi, fi.node, f"`{a_} = {avail} - {sz} - {b_}` (the margin defined as the remainder) does not dominate the return: margins plus child no longer fill the available space by construction", construct=f"{a_} not defined as the remainder"))
            continue
        # all stores to a_/b_ reachable after the remainder definition: +-shift pairs in one block, or max(x, 0) clamps
        after = cfg.reachable(rem)
        stores = [n for n in after if isinstance(n.ast, (ast.Assign, ast.AugAssign)) and any(isinstance(t, ast.Name) and t.id in (a_, b_) for t in (n.ast.targets if isinstance(n.ast, ast.Assign) else [n.ast.target]))]
        by_block: dict[int, list] = {}
        parents = {}
        for x in ast.walk(fi.node):
            for fld in ("body", "orelse"):
                blk = getattr(x, fld, None)
                if isinstance(blk, list):
                    for st in blk:
                        parents[id(st)] = (id(x), fld)
        for n in stores:
            by_block.setdefault(parents.get(id(n.stmt)), []).append(n)
        for blk, ns in by_block.items():
            aug = [n for n in ns if isinstance(n.ast, ast.AugAssign)]
            plain = [n for n in ns if isinstance(n.ast, ast.Assign)]
            rr.inst(f"{short(fi)}:adjust:{norm(ns[0].stmt, 40)}", True)
            for n in plain:
                v = n.ast.value
                tgt = n.ast.targets[0].id
                if not (isinstance(v, ast.Call) and callee_name(v) == "max" and any(isinstance(z, ast.Name) and z.id == tgt for z in v.args) and any(isinstance(z, ast.Constant) and z.value == 0 for z in v.args)):
                    rr.add(finding("PAIR", fi, n.stmt, f"`{norm(n.stmt, 50)}` re-assigns a margin after it was defined as the remainder (only +-shift pairs and the final max(margin, 0) clamp keep the partition)", construct=f"margin re-assigned: {norm(n.stmt, 50)}"))
            if aug:
                net: dict = {}
                for n in aug:
                    sign = 1 if isinstance(n.ast.op, ast.Add) else -1 if isinstance(n.ast.op, ast.Sub) else None
                    L = linear(n.ast.value)
                    if sign is None or L is None:
                        net = None
                        break
                    for k, v in L.items():
                        net[k] = net.get(k, 0) + sign * v
                if net is None or any(v for v in net.values()):
                    rr.add(finding("PAIR", fi, aug[0].stmt, f"the adjustments of `{a_}` and `{b_}` in this block do not cancel ({lin_str(net) if net is not None else 'non-linear'}): shifting the child changes the total", construct=f"margin adjustments not sum-preserving: {norm(aug[0].stmt, 40)}"))
    return rr


def rule_gridflow_budget(ctx: Ctx) -> RuleResult:
    p = ctx.p
    rr = RuleResult("PAIR", "C19.4", "GridFlow: the wrap test's used space = drawn row width + one separator", floor=2)
    fi = p.func("urwid.widget.grid_flow.GridFlow.generate_display_widget")
    du = DefUse(fi)
    cfg = du.cfg
    # roles: the wrap test compares `<total> - <used>` with the next cell's width, where <total> comes from
    # self._get_maxcol(size); <used> is the running budget (set to 0 for a new row, recomputed after each cell)
    tests = []
    TOT = USED = None
    for n in cfg.nodes:
        if n.kind != "test":
            continue
        for c in ast.walk(n.ast):
            if isinstance(c, ast.Compare) and len(c.ops) == 1:
                for side in (c.left, c.comparators[0]):
                    if isinstance(side, ast.BinOp) and isinstance(side.op, ast.Sub) and isinstance(side.left, ast.Name) and isinstance(side.right, ast.Name) and "_get_maxcol" in du.text(side.left, n):
                        tests.append(n)
                        TOT, USED = side.left.id, side.right.id
    used = [n for n in cfg.nodes if USED and isinstance(n.ast, ast.Assign) and any(isinstance(t, ast.Name) and t.id == USED for t in n.ast.targets) and not (isinstance(n.ast.value, ast.Constant))]
    padw = [n for n in cfg.nodes if isinstance(n.ast, ast.Assign) and any(isinstance(t, ast.Attribute) and t.attr == "width" for t in n.ast.targets)]
    if len(used) != 1 or len(padw) != 1 or not tests:
        raise AnalysisError("GridFlow.generate_display_widget: used-space budget / pad.width / wrap test (`<maxcol> - <used> < <width>`) not found")
    U = linear(du.expand(used[0].ast.value, used[0]))
    # pad.width may be written in terms of used_space: expand at its own node
    W = linear(du.expand(padw[0].ast.value, padw[0]))
    rr.inst("budget vs drawn width", True, {"used_space": lin_str(U), "row_width": lin_str(W)})
    if U is None or W is None:
        raise AnalysisError("GridFlow: used_space / pad.width are not canonicalisable")
    diff = dict(U)
    for k, v in W.items():
        diff[k] = diff.get(k, 0) - v
    diff = {k: v for k, v in diff.items() if v}
    if diff != {"self.h_sep": 1}:
        rr.add(finding("PAIR", fi, used[0].stmt, f"the space budget tested before adding a cell (`{lin_str(U)}`) minus the row's drawn width (`{lin_str(W)}`) is `{lin_str(diff)}`, not exactly one separator: a cell is added to a row that has no room for separator + cell, and Columns then drops a cell", construct=f"wrap budget - row width = {lin_str(diff)}"))
    # the test compares maxcol - used_space with the next cell's width
    t = tests[0].ast
    rr.inst("wrap test form", True, {"test": norm(tests[0].stmt, 70)})
    ok = any(isinstance(c, ast.Compare) and len(c.ops) == 1 and isinstance(c.ops[0], ast.Lt) and linear(c.left) == {TOT: 1, USED: -1} and isinstance(c.comparators[0], ast.Name) for c in ast.walk(t)) or any(
        isinstance(c, ast.Compare) and len(c.ops) == 1 and isinstance(c.ops[0], ast.Gt) and linear(c.comparators[0]) == {TOT: 1, USED: -1} for c in ast.walk(t)
    )
    if not ok:
        rr.add(finding("PAIR", fi, tests[0].stmt, f"the wrap test `{norm(t, 60)}` is not `maxcol - used_space < <cell width>`", construct=f"wrap test {norm(t, 60)}"))
    return rr


def rule_relative_space_clamp(ctx: Ctx) -> RuleResult:
    """A relative width / height is a percentage of the space left after the fixed margins.  When the margins alone
    exceed the available space that remainder is negative and must be clamped to 0 *before* it is scaled (as
    Pile.get_item_rows clamps before sharing, C19.2b): scaling a negative remainder gives a negative child size and
    margins whose sum exceeds the space."""
    p = ctx.p
    rr = RuleResult("PASS", "C19.7", "the space a relative size is a percentage of is clamped to >= 0 (max(avail - margin - margin, 0)) in both placement helpers", floor=2)
    for q in ("urwid.widget.padding.calculate_left_right_padding", "urwid.widget.filler.calculate_top_bottom_filler"):
        fi = p.func(q)
        avail, m1, m2 = fi.params[0], fi.params[-2], fi.params[-1]
        want = {avail: 1, m1: -1, m2: -1}
        hits = []
        for n in fi.own_nodes():
            if isinstance(n, ast.Assign) and len(n.targets) == 1 and isinstance(n.targets[0], ast.Name):
                v = n.value
                inner = v
                clamped = False
                if isinstance(v, ast.Call) and callee_name(v) == "max" and len(v.args) == 2 and any(isinstance(a, ast.Constant) and a.value == 0 for a in v.args):
                    inner = next(a for a in v.args if not (isinstance(a, ast.Constant) and a.value == 0))
                    clamped = True
                if linear(inner) == want and n.targets[0].id not in (m1, m2):
                    hits.append((n, clamped))
        rr.inst(short(fi), True, {"function": short(fi), "remaining_space": [norm(n, 60) for n, _ in hits]})
        if not hits:
            raise AnalysisError(f"{q}: the definition of the space left after the margins (avail - {m1} - {m2}) was not found")
        for n, clamped in hits:
            if not clamped:
                rr.add(finding("PASS", fi, n, f"`{norm(n, 60)}` is the space a relative size is scaled from, without max(., 0): when the fixed margins alone exceed the available space the child gets a negative size and the margins add up to more than the space", construct=f"relative space not clamped: {norm(n, 60)}"))
    return rr


def rule_overlay_measure(ctx: Ctx) -> RuleResult:
    """Overlay asks a flow top widget for its rows in calculate_padding_filler() and renders it with the size
    top_w_size() builds from that function's results.  The two widths must be the same quantity: the roles are
    matched through the caller (render passes element j of calculate_padding_filler()'s result as parameter i of
    top_w_size()), not through local names."""
    p = ctx.p
    rr = RuleResult("SIB", "C19.9", "Overlay measures a flow top widget (rows) at the width top_w_size() renders it with", floor=1)
    cpf = p.func("urwid.widget.overlay.Overlay.calculate_padding_filler")
    tws = p.func("urwid.widget.overlay.Overlay.top_w_size")
    ren = p.func("urwid.widget.overlay.Overlay.render")
    # 1. the flow size top_w_size() returns, over its parameters
    du_t = DefUse(tws)
    tparams = [x for x in tws.params if x != tws.self_name]
    flows = [n for n in tws.own_nodes() if isinstance(n, ast.Return) and isinstance(n.value, ast.Tuple) and len(n.value.elts) == 1]
    if len(flows) != 1 or not tparams:
        raise AnalysisError("Overlay.top_w_size: expected exactly one return of a 1-tuple (the flow size)")
    want = du_t.lin(flows[0].value.elts[0], du_t.node_of(flows[0]))
    if want is None:
        raise AnalysisError("Overlay.top_w_size: the flow width is not a linear expression")

    def roles(d, size_name, names):
        out = {}
        for k, v in d.items():
            k2 = "W" if k == f"{size_name}[0]" else names.get(k, k)
            out[k2] = out.get(k2, 0) + v
        return out

    want_r = roles(want, tparams[0], {x: f"arg{i}" for i, x in enumerate(tparams)})
    # 2. which element of calculate_padding_filler()'s result render passes as which parameter
    du_r = DefUse(ren)
    calls = [c for c in ren.own_nodes() if isinstance(c, ast.Call) and isinstance(c.func, ast.Attribute) and c.func.attr == tws.name]
    if not calls:
        raise AnalysisError("Overlay.render: the top_w_size() call was not found")
    ex = du_r.expand(calls[0], du_r.node_of(calls[0]))
    pos = {}
    for i, a in enumerate(ex.args):
        if isinstance(a, ast.Subscript) and isinstance(a.value, ast.Call) and isinstance(a.value.func, ast.Attribute) and a.value.func.attr == cpf.name and isinstance(a.slice, ast.Constant):
            pos[a.slice.value] = f"arg{i}"
    # 3. the names calculate_padding_filler() returns at those positions
    rets = [n for n in cpf.own_nodes() if isinstance(n, ast.Return) and isinstance(n.value, ast.Tuple)]
    if len(rets) != 1 or not all(isinstance(e, ast.Name) for e in rets[0].value.elts):
        raise AnalysisError("Overlay.calculate_padding_filler: expected one `return a, b, c, d` of plain names")
    names = {e.id: pos[j] for j, e in enumerate(rets[0].value.elts) if j in pos}
    du_c = DefUse(cpf)
    cparams = [x for x in cpf.params if x != cpf.self_name]
    meas = [c for c in cpf.own_nodes() if isinstance(c, ast.Call) and isinstance(c.func, ast.Attribute) and c.func.attr == "rows" and c.args and isinstance(c.args[0], ast.Tuple) and len(c.args[0].elts) == 1]
    for c in meas:
        got = du_c.lin(c.args[0].elts[0], du_c.node_of(c))
        got_r = roles(got or {}, cparams[0], names)
        rr.inst(f"rows call {norm(c, 50)}", True, {"measured_at": lin_str(got_r), "rendered_at": lin_str(want_r), "role_mapping": names})
        if got is None or got_r != want_r:
            rr.add(finding("SIB", cpf, c, f"the flow top widget is measured with `{norm(c, 60)}` - width {lin_str(got_r)} - but top_w_size() renders it at width {lin_str(want_r)} (W = overlay width, argN = the margins render passes on): a top widget that wraps at its real width is placed for the wrong number of rows (off-centre; `top canvas of overlay not the size expected` when bottom-aligned)", construct=f"top widget measured at another width than rendered: {norm(c, 60)}"))
    return rr


def rule_margin_pairs(ctx: Ctx) -> RuleResult:
    """The room beside the fixed margins is `available - left - right` (`- top - bottom`): the two margins of an
    axis enter such an expression together.  An expression in which one margin of a pair is counted twice and its
    partner not at all (`maxcol - self.left - self.left`) is a copy-paste slip: with asymmetric margins the child is
    given too little room or the other margin is squeezed."""
    p = ctx.p
    rr = RuleResult("PAIR", "C19.10", "no size expression counts one margin of a pair (left/right, top/bottom) twice and its partner not at all", floor=6)
    PAIRS = (("left", "right"), ("top", "bottom"))
    for mn in MODULES:
        for fi in p.modules[mn].functions:
            seen = set()
            for n in fi.own_nodes():
                if not (isinstance(n, ast.BinOp) and isinstance(n.op, (ast.Add, ast.Sub))):
                    continue
                L = linear(n)
                if not L:
                    continue
                for a, b in PAIRS:
                    ca = sum(v for k, v in L.items() if k in (f"self.{a}", a, f"self._{a}"))
                    cb = sum(v for k, v in L.items() if k in (f"self.{b}", b, f"self._{b}"))
                    if not (ca or cb):
                        continue
                    txt = ast.unparse(n)
                    if txt in seen:
                        continue
                    seen.add(txt)
                    if ca and cb:
                        rr.inst(f"{short(fi)}:{txt[:50]}", True, {"function": short(fi), "expression": txt[:80]} if len(rr.samples) < 6 else None)
                    if (abs(ca) >= 2 and cb == 0) or (abs(cb) >= 2 and ca == 0):
                        twice, never = (a, b) if abs(ca) >= 2 else (b, a)
                        rr.add(finding("PAIR", fi, n, f"`{txt[:80]}` counts the {twice} margin twice and the {never} margin not at all: with {twice} != {never} the child is packed into the wrong room (too narrow when {twice} > {never}; otherwise the {never} margin is squeezed below its configured value)", construct=f"margin {twice} counted twice: {txt[:60]}"))
    return rr


def _memo_children(ctx: Ctx):
    """stale memoised widths hand a packed child neither its own size nor nothing (C06.7 is a necessary condition here)"""
    from . import c06

    r = c06.rule_memo_children(ctx)
    r.clause = "C19.8"
    return r


def rule_margin_override(ctx: Ctx) -> RuleResult:
    """'margins plus child exactly fill the available space': after Overlay.calculate_padding_filler() asked the
    filler helper for (top, bottom) it overrides `bottom` in two places so that a child larger than its slot hangs
    out at the bottom.  Either the override keeps the identity top + height + bottom == maxrow by construction
    (`bottom = maxrow - top - height`), or - where it is written without `top` (`bottom = maxrow - height`) - it is
    made exactly under `height > maxrow`: only a child taller than the *whole* area makes the helper clip top to 0.
    A weaker guard (height > maxrow - self.top - self.bottom) overrides while top is still positive: top + child +
    bottom exceed maxrow and mouse_event() rejects clicks on the last rows of the top widget."""
    from ..rules.exc import ExcEngine
    from ..rules.runpos import _atoms
    from ..rules.util import lin_str, linear

    p = ctx.p
    rr = RuleResult("PAIR", "C19.11", "an override of the bottom margin in Overlay.calculate_padding_filler keeps top + height + bottom == maxrow, or is made exactly under height > maxrow", floor=2)
    fi = p.func("urwid.widget.overlay.Overlay.calculate_padding_filler")
    cfg = cfg_of(fi)
    size_un = next((n.targets[0] for n in fi.own_nodes() if isinstance(n, ast.Assign) and isinstance(n.value, ast.Name) and n.value.id in fi.params and isinstance(n.targets[0], ast.Tuple) and len(n.targets[0].elts) == 2), None)
    if size_un is None:
        raise AnalysisError("calculate_padding_filler: the unpacking of size was not found")
    maxrow = size_un.elts[1].id
    # the (top, bottom) pair: targets of the calculate_top_bottom_filler() calls
    pairs = {(n.targets[0].elts[0].id, n.targets[0].elts[1].id) for n in fi.own_nodes() if isinstance(n, ast.Assign) and isinstance(n.value, ast.Call) and callee_name(n.value) == "calculate_top_bottom_filler" and isinstance(n.targets[0], ast.Tuple) and len(n.targets[0].elts) == 2 and all(isinstance(e, ast.Name) for e in n.targets[0].elts)}
    if len(pairs) != 1:
        raise AnalysisError(f"calculate_padding_filler: expected one (top, bottom) pair, found {pairs}")
    top, bottom = next(iter(pairs))
    for n in cfg.nodes:
        a = n.ast
        if not (isinstance(a, ast.Assign) and len(a.targets) == 1 and isinstance(a.targets[0], ast.Name) and a.targets[0].id == bottom and not isinstance(a.value, ast.Call)):
            continue
        e = linear(a.value)
        if e is None:
            continue
        # height: the remaining atom
        hs = [k for k in e if k and k not in (maxrow, top)]
        if len(hs) != 1:
            continue
        height = hs[0]
        ident_ok = e == {maxrow: 1, top: -1, height: -1}
        facts = []
        for t in cfg.nodes:
            if t.kind == "test" and n not in ExcEngine._reach_without_edge(cfg, t, "T"):
                facts += _atoms(t.ast, True)
        exact = any((ex == {height: 1, maxrow: -1} and o == ">") or (ex == {height: -1, maxrow: 1} and o == "<") for ex, o in facts)
        rr.inst(norm(a, 50), True, {"override": norm(a, 60), "keeps_the_fill_identity": ident_ok, "guards": [f"{lin_str(ex)} {o} 0" for ex, o in facts][:5], "under_height_gt_maxrow": exact})
        if not (ident_ok or (e == {maxrow: 1, height: -1} and exact)):
            rr.add(finding("PAIR", fi, a, f"`{norm(a, 50)}` overrides the bottom margin without `{top}` in it and not exactly under `{height} > {maxrow}` (known: {', '.join(f'{lin_str(ex)} {o} 0' for ex, o in facts) or 'nothing'}): while {top} is still positive, {top} + child + {bottom} exceed {maxrow} - the reported margins overlap and mouse_event() rejects clicks on the last rows of the top widget", construct=f"bottom override without the fill identity: {norm(a, 40)}"))
    return rr


def rule_reserve_credit(ctx: Ctx) -> RuleResult:
    """Columns.column_widths() works in two passes.  Pass 1 *reserves* a minimum for every weighted column (the value
    charged to `shared` on the branch that is neither GIVEN nor PACK); the sharing pass gives these reservations back
    in one sum (`grow = shared + len(weighted) * <credit>`) and then hands every weighted column at least
    `max(.., <floor>)`.  The three amounts are one quantity: what is credited back per column is exactly what was
    reserved per column, and the floor a column gets is what was reserved for it.  A reservation that differs for
    some columns (0 for zero-weighted ones) while credit and floor stay at min_width hands out columns that were
    never charged: the widths exceed the available space."""
    p = ctx.p
    rr = RuleResult("SIB", "C19.12", "Columns.column_widths: the per-column reservation of weighted columns, the per-column credit of the sharing pass and the floor of a share are the same expression", floor=3)
    fi = p.func("urwid.widget.columns.Columns.column_widths")
    # the charge variable: `shared -= X + ...` in the first loop
    charges = [n for n in fi.own_nodes() if isinstance(n, ast.AugAssign) and isinstance(n.op, ast.Sub) and isinstance(n.target, ast.Name) and isinstance(n.value, ast.BinOp) and isinstance(n.value.left, ast.Name)]
    if not charges:
        raise AnalysisError("column_widths: the statement charging a column to the shared space was not found")
    shared, unit = charges[0].target.id, charges[0].value.left.id
    # reservation on the weighted branch: the assignment to `unit` in the final else of the kind chain
    res = []
    for n in fi.own_nodes():
        if isinstance(n, ast.If) and n.orelse and not (len(n.orelse) == 1 and isinstance(n.orelse[0], ast.If)) and any(isinstance(c, ast.Attribute) and c.attr in ("GIVEN", "PACK") for c in ast.walk(n.test)):
            for st in n.orelse:
                if isinstance(st, ast.Assign) and isinstance(st.targets[0], ast.Name) and st.targets[0].id == unit:
                    res.append(st.value)
    credit = [n.value.right.right for n in fi.own_nodes() if isinstance(n, ast.Assign) and isinstance(n.value, ast.BinOp) and isinstance(n.value.op, ast.Add) and isinstance(n.value.left, ast.Name) and n.value.left.id == shared and isinstance(n.value.right, ast.BinOp) and isinstance(n.value.right.op, ast.Mult) and isinstance(n.value.right.left, ast.Call) and callee_name(n.value.right.left) == "len"]
    floors = [c.args[1] for n in fi.own_nodes() if isinstance(n, ast.Assign) for c in [n.value] if isinstance(c, ast.Call) and callee_name(c) == "max" and len(c.args) == 2 and any(isinstance(x, ast.Call) and callee_name(x) == "int" for x in ast.walk(c.args[0]))]
    if not (res or credit or floors):
        raise AnalysisError("column_widths: neither reservation, credit nor floor of the weighted columns was found")
    if not (res and credit and floors):
        # one of the three is written in another form: the ORDER / PASS clauses (C19.2, C19.2b) own that statement;
        # nothing to compare here
        rr.notes.append(f"column_widths: reservation / credit / floor found {len(res)}/{len(credit)}/{len(floors)} - not compared")
        for k in range(3):
            rr.inst(f"not compared {k}", False)
        return rr
    texts = {"reservation": [ast.unparse(x) for x in res], "credit": [ast.unparse(x) for x in credit], "floor": [ast.unparse(x) for x in floors]}
    allv = {t for v in texts.values() for t in v}
    for k, v in texts.items():
        rr.inst(f"{k}: {', '.join(v)}", True, {k: v})
    if len(allv) != 1:
        node = next(x for x in [*res, *credit, *floors] if ast.unparse(x) != ast.unparse(credit[0])) if len({*texts['credit']}) == 1 else credit[0]
        rr.add(finding("SIB", fi, node, f"column_widths reserves {texts['reservation']} per weighted column, credits {texts['credit']} per column back before sharing and gives every share at least {texts['floor']}: these must be one amount - columns whose reservation is smaller than the credit / floor receive space that was never charged, the widths add up to more than the available columns (WidgetError: canvas too wide), and with exactly 0 spare columns a focused zero-weight column is hidden although it fits", construct="reservation, credit and floor of weighted columns differ"))
    return rr


def rule_weight_total_nonzero(ctx: Ctx) -> RuleResult:
    """'all lists of options incl. zero weights': the containers share spare space as `share * weight / total`, where
    total is a sum of weights that may all be 0.  Every division by such a total (a local assigned from sum(...) or
    accumulated with `+=` from 0) is made only where the total was tested: as the test of an enclosing conditional
    expression, or after a dominating test of it that leaves (raise / return) when it is 0.  Before fix 8b4fc37
    Columns([('weight', 0, w), (3, w)]) raised ZeroDivisionError from every entry point."""
    from ..rules.exc import ExcEngine

    p = ctx.p
    rr = RuleResult("GUARD", "C19.13", "a division by a total of weights is made only where that total was tested against 0", floor=2)
    for fi in p.functions.values():
        if fi.module.name not in ("urwid.widget.columns", "urwid.widget.pile", "urwid.widget.grid_flow") or fi.is_lambda:
            continue
        totals = set()
        for n in fi.own_nodes():
            if isinstance(n, ast.Assign) and isinstance(n.targets[0], ast.Name) and isinstance(n.value, ast.Call) and callee_name(n.value) == "sum":
                totals.add(n.targets[0].id)
            if isinstance(n, ast.AugAssign) and isinstance(n.op, ast.Add) and isinstance(n.target, ast.Name) and any(isinstance(a, ast.Assign) and isinstance(a.targets[0], ast.Name) and a.targets[0].id == n.target.id and isinstance(a.value, ast.Constant) and a.value.value == 0 for a in fi.own_nodes()):
                totals.add(n.target.id)
        divs = [b for b in fi.own_nodes() if isinstance(b, ast.BinOp) and isinstance(b.op, (ast.Div, ast.FloorDiv)) and isinstance(b.right, ast.Name) and b.right.id in totals]
        if not divs:
            continue
        cfg = cfg_of(fi)
        parents = {id(ch): par for par in ast.walk(fi.node) for ch in ast.iter_child_nodes(par)}
        for b in divs:
            nm = b.right.id
            ok = False
            x = b
            while id(x) in parents and not isinstance(x, ast.stmt):
                par = parents[id(x)]
                if isinstance(par, ast.IfExp) and par.body is x and isinstance(par.test, ast.Name) and par.test.id == nm:
                    ok = True
                x = par
            cn = next((y for y in cfg.nodes if any(z is b for e in node_exprs(y) for z in ast.walk(e))), None)
            if not ok and cn is not None:
                for t in cfg.nodes:
                    if t.kind != "test" or not cfg.dominated(cn, [t]):
                        continue
                    txt = ast.unparse(t.ast)
                    if txt in (f"{nm} == 0", f"not {nm}", f"{nm} <= 0") and cn not in cfg.reachable_from_edges([(t, "T")]):
                        ok = True
                    if txt in (nm, f"{nm} > 0", f"{nm} != 0") and cn not in ExcEngine._reach_without_edge(cfg, t, "T"):
                        ok = True
            rr.inst(f"{short(fi)}: {norm(b, 40)}", True, {"division": norm(b, 60), "total": nm, "tested": ok})
            if not ok:
                rr.add(finding("GUARD", fi, b, f"`{norm(b, 50)}` divides by `{nm}`, a total of weights, without a test of it: when every weighted item has weight 0 (allowed: ('weight', 0, w)) the total is 0 and render / rows / keypress raise ZeroDivisionError", construct=f"division by untested weight total {nm}"))
    return rr


def rule_reduce_padding_mirror(ctx: Ctx) -> RuleResult:
    """calculate_left_right_padding() gives padding up on the side that still has some when the other side is clipped
    (negative): `X -= shift; Y += shift` moves columns from X to Y.  That is right exactly when X is the positive side
    and Y the negative one - the pair of statements is made where the tests on the way show X > 0 and Y < 0.  One
    merged branch for both directions (`right < 0 < left or left < 0 < right`) keeps one direction only: for the other
    the clipped side is pushed further out and the child gets a negative width."""
    from ..rules.exc import ExcEngine
    from ..rules.runpos import _atoms

    p = ctx.p
    rr = RuleResult("PAIR", "C19.14", "padding is moved from one side to the other (X -= shift; Y += shift) only where the tests show X > 0 and Y < 0", floor=2)
    for q in ("urwid.widget.padding.calculate_left_right_padding", "urwid.widget.filler.calculate_top_bottom_filler"):
        if q not in p.functions:
            continue
        fi = p.functions[q]
        cfg = cfg_of(fi)
        subs = [n for n in cfg.nodes if isinstance(n.ast, ast.AugAssign) and isinstance(n.ast.op, ast.Sub) and isinstance(n.ast.target, ast.Name) and isinstance(n.ast.value, ast.Name)]
        for sn in subs:
            x, sh = sn.ast.target.id, sn.ast.value.id
            adds = [n for n in cfg.nodes if isinstance(n.ast, ast.AugAssign) and isinstance(n.ast.op, ast.Add) and isinstance(n.ast.value, ast.Name) and n.ast.value.id == sh and isinstance(n.ast.target, ast.Name) and n.ast.target.id != x]
            for an in adds:
                y = an.ast.target.id
                # same block: the add is reachable from the sub (or vice versa) without passing a test
                facts = []
                for t in cfg.nodes:
                    if t.kind == "test" and sn not in ExcEngine._reach_without_edge(cfg, t, "T") and an not in ExcEngine._reach_without_edge(cfg, t, "T"):
                        facts += _atoms(t.ast, True)
                    elif t.kind == "test" and sn not in ExcEngine._reach_without_edge(cfg, t, "F") and an not in ExcEngine._reach_without_edge(cfg, t, "F"):
                        facts += _atoms(t.ast, False)
                if not any(set(e) <= {x, y, ""} and (x in e or y in e) for e, _o in facts) and not facts:
                    pass
                x_pos = any((e == {x: 1} and o == ">") or (e == {x: -1} and o == "<") for e, o in facts)
                y_neg = any((e == {y: 1} and o == "<") or (e == {y: -1} and o == ">") for e, o in facts)
                # only pairs that belong together (controlled by the same tests)
                same_block = {id(t) for t in cfg.nodes if t.kind == "test" and sn not in ExcEngine._reach_without_edge(cfg, t, "T")} == {id(t) for t in cfg.nodes if t.kind == "test" and an not in ExcEngine._reach_without_edge(cfg, t, "T")}
                if not same_block:
                    continue
                rr.inst(f"{short(fi)}: {x} -= {sh}; {y} += {sh}", True, {"move": f"{x} -> {y}", "shown": {f"{x} > 0": x_pos, f"{y} < 0": y_neg}})
                if not (x_pos and y_neg):
                    rr.add(finding("PAIR", fi, sn.ast, f"`{x} -= {sh}; {y} += {sh}` gives padding of `{x}` to `{y}` where the tests on the way do not show {x} > 0 and {y} < 0 (known: {', '.join(f'{e} {o} 0' for e, o in facts) or 'nothing'}): in the mirrored case the clipped side is pushed further out, {x} + {y} exceed the available space and the child is handed a negative size", construct=f"padding moved from {x} to {y} without {x} > 0 > {y}"))
    return rr


def rule_fixed_columns_total(ctx: Ctx) -> RuleResult:
    """Fixed Columns: pack(()) states the width, render(()) lays the columns out - it skips a column of width 0 and
    gives every drawn column but the last position a divider.  pack() has to count the same way: its total sums
    width (+ divider) over the columns that pass the same `width > 0` filter, it does not multiply the divider by
    the number of all columns.  Before fix ed8f003 `sum(widths) + dividechars * (len(widths) - 1)` counted a divider
    for a hidden ('weight', 0) column: pack(()) == (12, 1), render(()) 11 columns wide."""
    p = ctx.p
    rr = RuleResult("SIB", "C19.17", "Columns.pack() counts widths and dividers over the columns render() draws (width > 0), not over all columns", floor=1)
    pk = p.func("urwid.widget.columns.Columns.pack")
    rn = p.func("urwid.widget.columns.Columns.render")
    hides = any(isinstance(n, ast.If) and isinstance(n.test, ast.Compare) and isinstance(n.test.ops[0], (ast.LtE, ast.Lt, ast.Eq)) and isinstance(n.test.comparators[0], ast.Constant) and n.test.comparators[0].value == 0 and any(isinstance(x, ast.Continue) for x in n.body) for n in rn.own_nodes())
    per_all = [b for b in pk.own_nodes() if isinstance(b, ast.BinOp) and isinstance(b.op, ast.Mult) and "dividechars" in ast.unparse(b) and "len(" in ast.unparse(b)]
    filtered = any(isinstance(g, (ast.GeneratorExp, ast.ListComp)) and any(any(isinstance(c, ast.Compare) and isinstance(c.ops[0], (ast.Gt, ast.GtE, ast.NotEq)) for c in ast.walk(i)) for gen in g.generators for i in gen.ifs) for g in pk.own_nodes())
    # the same filter written as a statement: `if width > 0:` / `if width <= 0: continue` inside a loop of pack()
    filtered = filtered or any(isinstance(n, ast.If) and isinstance(n.test, ast.Compare) and isinstance(n.test.comparators[0], ast.Constant) and n.test.comparators[0].value == 0 for n in pk.own_nodes())
    rr.inst("Columns.pack", True, {"render_hides_zero_width_columns": hides, "divider_times_column_count": [norm(b, 50) for b in per_all], "total_filtered_like_render": filtered})
    if hides and (per_all or not filtered):
        rr.add(finding("SIB", pk, per_all[0] if per_all else pk.node, "render() skips columns of width 0 (they take no divider either), pack() counts widths and dividers over all columns: with a hidden column the width pack(()) states is larger than the canvas render(()) returns", construct="pack counts a divider for hidden columns"))
    return rr


def rule_share_net_of_margins(ctx: Ctx) -> RuleResult:
    """A relative width is a share of the columns the fixed left / right margins leave: calculate_left_right_padding
    (what the rendering uses) computes `max(maxcol - left - right, 0) * width_amount / 100`.  Every other place in
    the widget layer that turns a relative width into columns (Overlay.rows for a flow Overlay: the width the top
    widget's rows are asked for) has to start from the same net quantity - the multiplicand of `* width_amount / 100`
    expands to something that subtracts a left and a right margin.  Before fix 8affa45 Overlay.rows() used the full
    size[0]: rows() said 2 where the rendering (12 columns narrower) needed 4."""
    p = ctx.p
    rr = RuleResult("SIB", "C19.16", "every conversion of a relative width into columns (x * width_amount / 100) starts from the columns net of the left and right margins", floor=2)
    for fi in p.functions.values():
        if not fi.module.name.startswith("urwid.widget") or fi.is_lambda:
            continue
        du = None
        for b in fi.own_nodes():
            if not (isinstance(b, ast.BinOp) and isinstance(b.op, ast.Div) and isinstance(b.right, ast.Constant) and b.right.value == 100 and isinstance(b.left, ast.BinOp) and isinstance(b.left.op, ast.Mult)):
                continue
            amt = [x for x in (b.left.left, b.left.right) if "width_amount" in ast.unparse(x)]
            if len(amt) != 1:
                continue
            base = b.left.right if amt[0] is b.left.left else b.left.left
            du = du or DefUse(fi)
            at = next((c for c in du.cfg.nodes for e in node_exprs(c) for x in walk_no_nested(e) if x is b), None)
            ex = du.expand(base, at) if at is not None else base
            cands = [a for a in ex.args if not isinstance(a, ast.Constant)] if isinstance(ex, ast.Call) and callee_name(ex) == "max" else [ex]
            net = False
            for c in cands:
                # `self.left or 0` spells a margin that may be None: read through the `or 0`
                class _Strip(ast.NodeTransformer):
                    def visit_BoolOp(self, node):
                        self.generic_visit(node)
                        if isinstance(node.op, ast.Or) and len(node.values) == 2 and isinstance(node.values[1], ast.Constant) and node.values[1].value == 0:
                            return node.values[0]
                        return node

                import copy

                L = linear(_Strip().visit(copy.deepcopy(c)))
                if L and any(k.split(".")[-1] == "left" and v == -1 for k, v in L.items()) and any(k.split(".")[-1] == "right" and v == -1 for k, v in L.items()):
                    net = True
            rr.inst(f"{short(fi)}: {norm(b, 50)}", True, {"site": f"{short(fi)}: {norm(b, 60)}", "share_of": norm(ex, 70), "net_of_left_and_right": net})
            if not net:
                rr.add(finding("SIB", fi, b, f"`{norm(b, 60)}` takes the relative width from `{norm(ex, 50)}`, the rendering (calculate_left_right_padding) from the columns the left and right margins leave: with fixed margins this method works with a wider child than the one drawn - a flow Overlay reports fewer rows than its top widget needs", construct=f"relative width taken from {norm(ex, 40)}, not net of the margins"))
    return rr


def run(ctx: Ctx):
    p = ctx.p
    return [
        dim.run_dim(p, "C19.1", MODULES, floor=60, exceptions={}, description="no cols/rows confusion in the allocation code of Columns, Pile, Padding, Filler, Overlay, GridFlow"),
        rule_apportion(ctx),
        rule_clamp_before_shares(ctx),
        inv.run_inv_bypass(p, "C19.2c", floor=4),
        rule_margins(ctx),
        rule_gridflow_budget(ctx),
        axis.run_axis(p, "C19.5", ("urwid.widget",), floor=60),
        accum.run_accum(p, "C19.6", "C19", floor=2),
        rule_relative_space_clamp(ctx),
        _memo_children(ctx),
        rule_overlay_measure(ctx),
        rule_margin_pairs(ctx),
        rule_margin_override(ctx),
        rule_reserve_credit(ctx),
        rule_weight_total_nonzero(ctx),
        rule_reduce_padding_mirror(ctx),
        fwd.run_self_fwd(p, "C19.15", ("urwid.widget",), floor=10),
        rule_share_net_of_margins(ctx),
        rule_fixed_columns_total(ctx),
    ]


_C = "urwid/widget/columns.py"
_P = "urwid/widget/pile.py"
_PD = "urwid/widget/padding.py"
_FL = "urwid/widget/filler.py"
_G = "urwid/widget/grid_flow.py"
MUTANTS = [
    Mut("twin-columns-pack-total-as-loop", "urwid/widget/columns.py", "Columns.pack", "        cols = sum(width + (self.dividechars if i < len(widths) - 1 else 0) for i, width in enumerate(widths) if width > 0)\n", "        cols = 0\n        for i, width in enumerate(widths):\n            if width > 0:\n                cols += width + (self.dividechars if i < len(widths) - 1 else 0)\n", twin=True),
    Mut("columns-pack-divider-per-column", "urwid/widget/columns.py", "Columns.pack", "        cols = sum(width + (self.dividechars if i < len(widths) - 1 else 0) for i, width in enumerate(widths) if width > 0)\n", "        cols = sum(widths) + self.dividechars * max(len(widths) - 1, 0)\n", "SIB|widget.columns.Columns.pack|pack counts a divider for hidden columns"),
    Mut("overlay-rows-relative-of-full-width", "urwid/widget/overlay.py", "Overlay.rows", "                width = max(int(maxwidth * self.width_amount / 100 + 0.5), (self.min_width or 0))", "                width = max(int(size[0] * self.width_amount / 100 + 0.5), (self.min_width or 0))", "SIB|widget.overlay.Overlay.rows|relative width taken from size[0], not net of the margins"),
    Mut("twin-overlay-rows-relative-inline", "urwid/widget/overlay.py", "Overlay.rows", "                width = max(int(maxwidth * self.width_amount / 100 + 0.5), (self.min_width or 0))", "                width = max(int(max(0, size[0] - (self.right or 0) - (self.left or 0)) * self.width_amount / 100 + 0.5), (self.min_width or 0))", twin=True),
    Mut("pile-rows-with-item-focus", "urwid/widget/pile.py", "Pile.get_rows_sizes", "item_rows = self.get_item_rows(size, focus)", "item_rows = self.get_item_rows(size, item_focus)", "FLAG-FWD|widget.pile.Pile.get_rows_sizes|self-call passes item_focus as focus"),
    Mut("padding-reduce-branches-merged", "urwid/widget/padding.py", "calculate_left_right_padding", "    if right < 0 < left:\n        shift = min(left, -right)\n        left -= shift\n        right += shift\n    elif left < 0 < right:\n        shift = min(right, -left)\n        right -= shift\n        left += shift\n", "    if right < 0 < left or left < 0 < right:\n        shift = min(abs(left), abs(right))\n        left -= shift\n        right += shift\n", "PAIR|widget.padding.calculate_left_right_padding|padding moved from left to right without left > 0 > right"),
    Mut("columns-divide-by-zero-weight-total", "urwid/widget/columns.py", "Columns.column_widths", "width = max(int(grow * weight / wtotal + 0.5) if wtotal else 0, self.min_width)", "width = max(int(grow * weight / wtotal + 0.5), self.min_width)", "GUARD|widget.columns.Columns.column_widths|division by untested weight total wtotal"),
    Mut("pile-no-weighted-test", "urwid/widget/pile.py", "Pile.get_item_rows", "        if wtotal == 0:\n            raise PileError(\"No weighted widgets found for Pile treated as a box widget\")\n", "", "GUARD|widget.pile.Pile.get_item_rows|division by untested weight total wtotal"),
    Mut("columns-zero-weight-reserves-nothing", "urwid/widget/columns.py", "Columns.column_widths", "                static_w = self.min_width\n", "                static_w = self.min_width if width else 0\n", "SIB|widget.columns.Columns.column_widths|reservation, credit and floor of weighted columns differ"),
    Mut("columns-share-floor-one", "urwid/widget/columns.py", "Columns.column_widths", "width = max(int(grow * weight / wtotal + 0.5) if wtotal else 0, self.min_width)", "width = max(int(grow * weight / wtotal + 0.5) if wtotal else 0, 1)", "SIB|widget.columns.Columns.column_widths|reservation, credit and floor of weighted columns differ"),
    Mut("overlay-flow-override-guard-with-margins", "urwid/widget/overlay.py", "Overlay.calculate_padding_filler", "            if height > maxrow:  # flow widget rendered too large", "            if height > maxrow - self.top - self.bottom:  # flow widget rendered too large", "PAIR|widget.overlay.Overlay.calculate_padding_filler|bottom override without the fill identity"),
    Mut("twin-overlay-flow-override-with-top", "urwid/widget/overlay.py", "Overlay.calculate_padding_filler", "            if height > maxrow:  # flow widget rendered too large\n                bottom = maxrow - height", "            if height > maxrow - top - bottom:  # flow widget rendered too large\n                bottom = maxrow - top - height", twin=True),
    Mut("padding-pack-left-margin-twice", _PD, "Padding.padding_values", "maxwidth = max(maxcol - self.left - self.right, self.min_width or 0)", "maxwidth = max(maxcol - self.left - self.left, self.min_width or 0)", "PAIR|widget.padding.Padding.padding_values"),
    Mut("columns-clamp-after-subtraction", _C, "Columns.column_widths", "                width = max(int(grow * weight / wtotal + 0.5) if wtotal else 0, self.min_width)\n\n                widths[i] = width\n", "                width = int(grow * weight / wtotal + 0.5) if wtotal else 0\n\n                widths[i] = max(width, self.min_width)\n", "ORDER|widget.columns.Columns.column_widths|handed out"),
    Mut("overlay-flow-rows-at-full-width", "urwid/widget/overlay.py", "Overlay.calculate_padding_filler", "self.top_w.rows((maxcol - left - right,), focus=focus)", "self.top_w.rows((maxcol,), focus=focus)", "SIB|widget.overlay.Overlay.calculate_padding_filler"),
    Mut("twin-overlay-flow-rows-spelling", "urwid/widget/overlay.py", "Overlay.calculate_padding_filler", "self.top_w.rows((maxcol - left - right,), focus=focus)", "self.top_w.rows((maxcol - (left + right),), focus=focus)", twin=True),
    Mut("relative-height-from-negative-space", "urwid/widget/filler.py", "calculate_top_bottom_filler", "maxheight = max(maxrow - top - bottom, 0)", "maxheight = maxrow - top - bottom", "PASS|widget.filler.calculate_top_bottom_filler"),
    Mut("drop-loop-skips-hidden-columns", "urwid/widget/columns.py", "Columns.column_widths", "            shared += width_ + self.dividechars\n            widths[i] = 0", "            if not width_:\n                continue\n            shared += width_ + self.dividechars\n            widths[i] = 0", "ACCUM|widget.columns.Columns.column_widths"),
    Mut("overlay-valign-from-align-amount", "urwid/widget/overlay.py", "Overlay.calculate_padding_filler", "                self.valign_type,\n                self.valign_amount,\n                self.height_type,", "                self.valign_type,\n                self.align_amount,\n                self.height_type,", "AXIS|widget.overlay.Overlay.calculate_padding_filler"),
    Mut("filler-top-bottom-swapped", "urwid/widget/filler.py", "Filler.filler_values", "            self.min_height,\n            self.top,\n            self.bottom,", "            self.min_height,\n            self.bottom,\n            self.top,", "AXIS|widget.filler.Filler.filler_values"),
    Mut("columns-weight-total-kept", _C, "Columns.column_widths", "                grow -= width\n                wtotal -= weight\n", "                grow -= width\n", "ORDER|widget.columns.Columns.column_widths"),
    Mut("columns-unsorted-clamped", _C, "Columns.column_widths", "for weight, i in sorted(weighted):", "for weight, i in weighted:", "ORDER|widget.columns.Columns.column_widths"),
    Mut("pile-remaining-kept", _P, "Pile.get_item_rows", "                remaining -= rows\n                wtotal -= height\n", "                wtotal -= height\n", "ORDER|widget.pile.Pile.get_item_rows"),
    Mut("pile-clamp-before-subtraction", _P, "Pile.get_item_rows", "        remaining = max(remaining, 0)\n", "", "PASS|widget.pile.Pile.get_item_rows"),
    Mut("columns-focus-callback-bypasses-memo", _C, "Columns.__init__", "self._contents.set_focus_changed_callback(lambda f: self._invalidate())", "self._contents.set_focus_changed_callback(lambda f: super(Columns, self)._invalidate())", "INV-BYPASS|"),
    Mut("padding-left-not-remainder", _PD, "calculate_left_right_padding", "left = maxcol - width - right", "left += padding - int_scale(100 - align, 101, padding + 1)", "PAIR|widget.padding.calculate_left_right_padding"),
    Mut("filler-shift-not-paired", _FL, "calculate_top_bottom_filler", "        top -= shift\n        bottom += shift", "        top -= shift", "PAIR|widget.filler.calculate_top_bottom_filler"),
    Mut("gridflow-budget-without-separator", _G, "GridFlow.generate_display_widget", "            used_space = sum(x[1][1] for x in c.contents) + self.h_sep * len(c.contents)\n            pad.width = used_space - self.h_sep", "            used_space = sum(x[1][1] for x in c.contents) + self.h_sep * (len(c.contents) - 1)\n            pad.width = used_space", "PAIR|widget.grid_flow.GridFlow.generate_display_widget"),
    Mut("columns-pack-height-as-width", _C, "Columns.column_widths", "candidate_size = w.pack((), focus and i == self.focus_position)[0]", "candidate_size = w.pack((), focus and i == self.focus_position)[1]", "DIM|widget.columns.Columns.column_widths"),
    Mut("twin-gridflow-budget-regrouped", _G, "GridFlow.generate_display_widget", "            used_space = sum(x[1][1] for x in c.contents) + self.h_sep * len(c.contents)\n            pad.width = used_space - self.h_sep", "            cells = sum(x[1][1] for x in c.contents)\n            used_space = cells + len(c.contents) * self.h_sep\n            pad.width = cells + (len(c.contents) - 1) * self.h_sep", twin=True),
    Mut("twin-pile-decrement-order", _P, "Pile.get_item_rows", "                remaining -= rows\n                wtotal -= height\n", "                wtotal -= height\n                remaining -= rows\n", twin=True),
    Mut("twin-padding-remainder-reordered", _PD, "calculate_left_right_padding", "left = maxcol - width - right", "left = maxcol - right - width", twin=True),
]
